"""C16 - worker CPU semaphore is safe, FIFO and live.

Target: batch/batch/semaphore.py  FIFOWeightedSemaphore.acquire / release (+ context manager, worker call sites).

Atomic segments (vc/segments.py).  Shared: self.value, self.queue (deque of (event, weight)).
Ghost: cap (capacity), held (granted, unreleased weight), stt/wt (status/weight per event as in C40), tk[e] arrival ticket,
next_ticket, last_granted (largest ticket granted so far).
Invariant at every await/return, for all schedules and any number of tasks:
  value >= 0, value + held == cap                                   (never more than the capacity at once)
  queue entries: stt == 1, wt == weight >= 0, events distinct
  tickets strictly increase along the queue, all larger than last_granted and below next_ticket
  queue non-empty  =>  value < weight of the head                   (the head is never left blocked with enough capacity)
FIFO: every grant goes to a ticket larger than every earlier grant and smaller than every ticket still waiting
(obligation at both grant sites: fast path requires an empty queue; release grants the head).
Cancellation of a waiter is outside the property statement and is not covered.
"""
from __future__ import annotations

import ast

import z3

from vc import core, pyvc
from vc.pyvc import Contract, Ghost, LoopSpec, to_z3, fresh_name
from vc.segments import Monitor

PATH = 'batch/batch/semaphore.py'
WORKER = 'batch/batch/worker/worker.py'

INV_BASE = [
    ('capacity', "self.value >= 0 and self.value + held == cap"),
    ('queue-entries-are-waiting', "forall(lambda i: implies(0 <= i < len(self.queue), stt[self.queue[i][0]] == 1 and wt[self.queue[i][0]] == self.queue[i][1] and 0 <= self.queue[i][1]))"),
    ('queue-events-distinct', "forall(lambda i, j: implies(0 <= i < j and j < len(self.queue), self.queue[i][0] != self.queue[j][0]))"),
    ('tickets-in-arrival-order', "forall(lambda i, j: implies(0 <= i < j and j < len(self.queue), tk[self.queue[i][0]] < tk[self.queue[j][0]]))"),
    ('waiting-tickets-after-every-grant', "forall(lambda i: implies(0 <= i < len(self.queue), last_granted < tk[self.queue[i][0]] and tk[self.queue[i][0]] < next_ticket)) and last_granted < next_ticket"),
]
HEAD = ('no-blocked-head', "implies(len(self.queue) > 0, self.value < self.queue[0][1])")
INV = INV_BASE + [HEAD]
EFFECT = "forall('U', lambda e: (stt[e] == seg_stt[e] or (seg_stt[e] == 1 and stt[e] == 2)) and implies(seg_stt[e] != 0, wt[e] == seg_wt[e] and tk[e] == seg_tk[e]))"
GUAR = [
    ('others-only-granted', "forall('U', lambda e: implies(e != MINE, (stt[e] == seg_stt[e] or (seg_stt[e] == 1 and stt[e] == 2)) and implies(seg_stt[e] != 0, wt[e] == seg_wt[e] and tk[e] == seg_tk[e])))"),
    ('capacity-constant', 'cap == seg_cap'),
    ('grants-in-ticket-order', 'last_granted >= seg_last_granted and next_ticket >= seg_next_ticket'),
]

MON = Monitor(
    fields={'value': 'int', 'queue': 'List[Tuple[U, int]]'},
    ghosts={'cap': 'int', 'held': 'int', 'stt': 'Array[U, int]', 'wt': 'Array[U, int]', 'tk': 'Array[U, int]', 'next_ticket': 'int', 'last_granted': 'int'},
    inv=INV,
    guar=GUAR,
)
NOEVENT = z3.Const('NOEVENT', pyvc.U)


def _event_new(eng, st, args, kw, node):
    e = z3.Const(fresh_name('event'), pyvc.U)
    st.assume(z3.Select(st.env['stt'], e) == 0)
    st.assume(e != NOEVENT)
    st.env['MINE'] = e
    return e


def _event_set(eng, st, args, kw, node):
    e = to_z3(args[0], 'U')
    t = z3.Select(st.env['tk'], e)
    # FIFO obligations at the grant made by release(): this ticket follows every earlier grant and precedes every waiter
    eng.oblige(st, 'fifo/grant-follows-earlier-grants@L%d' % node.lineno, t > st.env['last_granted'])
    q = st.env['self'].fields['queue']
    i = z3.Int(fresh_name('fifo_i'))
    eng.oblige(st, 'fifo/grant-precedes-all-waiting@L%d' % node.lineno, z3.ForAll([i], z3.Implies(z3.And(i >= 0, i < q.len, pyvc.from_z3(z3.Select(q.arr, i), q.et)[0] != e), t < z3.Select(st.env['tk'], pyvc.from_z3(z3.Select(q.arr, i), q.et)[0]))))
    eng.oblige(st, 'grant/event-was-waiting@L%d' % node.lineno, z3.Select(st.env['stt'], e) == 1)
    st.env['held'] = st.env['held'] + z3.Select(st.env['wt'], e)
    st.env['stt'] = z3.Store(st.env['stt'], e, z3.IntVal(2))
    st.env['last_granted'] = t
    return None


def _event_clear(eng, st, args, kw, node):
    e = to_z3(args[0], 'U')
    eng.oblige(st, 'clear/only-on-an-ungranted-event@L%d' % node.lineno, z3.Select(st.env['stt'], e) <= 1)
    return None


def _after_resume(eng, st, args):
    e = to_z3(args[0], 'U')
    st.env['got'] = st.env['got'] + z3.Select(st.env['wt'], e)
    st.env['stt'] = z3.Store(st.env['stt'], e, z3.IntVal(3))


WAIT = MON.cut_model(
    'await-event.wait',
    rely_normal=["wt[MINE] == cut_wt[MINE] and stt[MINE] == 2"],
    cancellable=False,
    after_normal=_after_resume,
)

CALLS = {'asyncio.Event': _event_new, 'Event': _event_new, '.set': _event_set, '.clear': _event_clear, '.wait': WAIT}


def _setup(eng, st):
    MON.setup(eng, st)
    st.env['MINE'] = NOEVENT
    st.assume(z3.Select(st.env['stt'], NOEVENT) == 0)
    st.env['got'] = z3.IntVal(0)
    MON.assume_inv(eng, st)
    MON.begin_segment(eng, st)
    st.env['entry_value'] = st.env['self'].fields['value']
    st.env['entry_queue'] = st.env['self'].fields['queue']


class SegEngine(pyvc.Engine):
    def at_return(self, st, res):
        MON.end_segment(self, st, 'return')
        super().at_return(st, res)

    def at_raise(self, st, exc):
        MON.end_segment(self, st, 'raise-%s' % (exc.cls or 'exc'))
        super().at_raise(st, exc)


def _fast_path_fifo(eng, st, args, kw, node):
    """ghost call inserted after the fast-path decrement: the grant of a fresh ticket, legal only if nobody waits"""
    q = st.env['self'].fields['queue']
    eng.oblige(st, 'fifo/fast-path-only-when-nobody-waits', q.len == 0)
    return None


def acquire_contract():
    calls = dict(CALLS)
    calls['ghost_fast_path_grant'] = _fast_path_fifo
    return Contract(
        path=PATH,
        qualname='FIFOWeightedSemaphore.acquire',
        types={'weight': 'int'},
        self_fields=MON.fields,
        requires=['weight >= 0'],
        setup=_setup,
        calls=calls,
        ghosts=[
            Ghost(anchor='self.value -= weight', where='after', code="ghost_fast_path_grant()\nheld = held + weight\ngot = got + weight\nlast_granted = next_ticket\nnext_ticket = next_ticket + 1"),
            Ghost(anchor='self.queue.append((event, weight))', where='after', code="stt = store(stt, event, 1)\nwt = store(wt, event, weight)\ntk = store(tk, event, next_ticket)\nnext_ticket = next_ticket + 1"),
        ],
        ensures=[('caller-holds-exactly-weight', 'got == weight')],
        canaries=[('acquire-never-changes-value', 'self.value == entry_value')],
    )


def release_contract():
    return Contract(
        path=PATH,
        qualname='FIFOWeightedSemaphore.release',
        types={'weight': 'int'},
        self_fields=MON.fields,
        requires=['weight >= 0'],
        setup=_setup,
        calls=CALLS,
        ghosts=[Ghost(anchor='self.value += weight', where='after', code="held = held - weight")],
        loops={0: LoopSpec(invariants=INV_BASE + [('effect-so-far', EFFECT), ('monotone', 'last_granted >= seg_last_granted and next_ticket == seg_next_ticket and cap == seg_cap')], modifies=['held', 'stt', 'wt', 'last_granted'])},
        ensures=[('effect-on-events-is-grants-only', EFFECT)],
        canaries=[('release-grants-nothing', 'len(self.queue) == len(entry_queue)')],
    )


def _scans(ctx):
    src = core.read_repo(PATH)
    tree = ast.parse(src)
    for q in ('__init__', '__aenter__', '__aexit__'):
        ctx.under_contract(PATH, 'FIFOWeightedSemaphoreContextManager.' + q)
    en = [ast.unparse(s) for s in pyvc.find_function(tree, 'FIFOWeightedSemaphoreContextManager.__aenter__').body]
    ex = [ast.unparse(s) for s in pyvc.find_function(tree, 'FIFOWeightedSemaphoreContextManager.__aexit__').body]
    ini = sorted(ast.unparse(s) for s in pyvc.find_function(tree, 'FIFOWeightedSemaphoreContextManager.__init__').body)
    ctx.add(core.decided('context-manager/enter-acquires-own-weight', en == ['await self.sem.acquire(self.weight)'], repr(en), kind='scan'))
    ctx.add(core.decided('context-manager/exit-releases-own-weight-unconditionally', ex == ['self.sem.release(self.weight)'], repr(ex), kind='scan'))
    ctx.add(core.decided('context-manager/fields-fixed-at-construction', ini == ['self.sem = sem', 'self.weight = weight'], repr(ini), kind='scan'))
    call = ast.unparse(pyvc.find_function(tree, 'FIFOWeightedSemaphore.__call__'))
    ctx.add(core.decided('__call__/binds-self-and-weight', 'return FIFOWeightedSemaphoreContextManager(self, weight)' in call, call, kind='scan'))
    init = [ast.unparse(s) for s in pyvc.find_function(tree, 'FIFOWeightedSemaphore.__init__').body]
    ctx.add(core.decided('__init__/establishes-invariant', init[0] == 'self.value = value' and 'collections.deque()' in init[1], repr(init), kind='scan'))
    ctx.under_contract(PATH, 'FIFOWeightedSemaphore.__init__')
    # worker call sites: weight is the job's cpu_in_mcpu, acquired with `async with`
    wsrc = core.read_repo(WORKER)
    wt = ast.parse(wsrc)
    sites = [n for n in ast.walk(wt) if isinstance(n, ast.AsyncWith) and any('cpu_sem(' in ast.unparse(i.context_expr) for i in n.items)]
    ok = len(sites) >= 1 and all(ast.unparse(i.context_expr) == 'self.worker.cpu_sem(self.cpu_in_mcpu)' for n in sites for i in n.items if 'cpu_sem(' in ast.unparse(i.context_expr))
    ctx.add(core.decided('worker/cpu_sem-used-through-async-with-on-job-cpu', ok, '%d sites' % len(sites), kind='scan'))
    other = [n for n in ast.walk(wt) if isinstance(n, ast.Attribute) and n.attr in ('acquire', 'release') and 'cpu_sem' in ast.unparse(n.value)]
    ctx.add(core.decided('worker/no-direct-acquire-or-release-of-cpu_sem', not other, '', kind='scan'))
    ctx.under_contract(WORKER, 'Job.run (cpu_sem call sites)')


def _rely_lemmas(ctx):
    sa, sb, sc = z3.Ints('stt_a stt_b stt_c')
    wa, wb, wc = z3.Ints('wt_a wt_b wt_c')
    rely = lambda s0, w0, s1, w1: z3.And(w1 == w0, z3.Or(s1 == s0, z3.And(s0 == 1, s1 == 2)))
    guar_other = lambda s0, w0, s1, w1: z3.And(z3.Or(s1 == s0, z3.And(s0 == 1, s1 == 2)), z3.Implies(s0 != 0, w1 == w0))
    ctx.add(core.valid('rely/reflexive', [], rely(sa, wa, sa, wa)))
    ctx.add(core.valid('rely/stable-under-other-tasks-guarantee', [sa == 1, rely(sa, wa, sb, wb), guar_other(sb, wb, sc, wc)], rely(sa, wa, sc, wc)))


REPLAY = r'''
import sys, json, os, asyncio, importlib.util, itertools
spec = importlib.util.spec_from_file_location('sem_real', os.path.join(os.environ['VERIF_REPO'], 'batch/batch/semaphore.py'))
m = importlib.util.module_from_spec(spec); spec.loader.exec_module(m)
async def run(cap, weights, policy):
    sem = m.FIFOWeightedSemaphore(cap); st = {'now': 0, 'max': 0}; rel = {}; done = set(); order = []; problems = []
    async def job(i, w):
        async with sem(w):
            order.append(i)
            st['now'] += w; st['max'] = max(st['max'], st['now'])
            ev = asyncio.Event(); rel[i] = ev
            await ev.wait()
            st['now'] -= w
        done.add(i)
    tasks = []
    for i, w in enumerate(weights):           # arrival order = index order
        tasks.append(asyncio.ensure_future(job(i, w)))
        for _ in range(3): await asyncio.sleep(0)
    for step in range(4 * len(weights) + 4):
        for _ in range(4): await asyncio.sleep(0)
        # liveness at a quiescent point: the head of the queue must not fit
        if sem.queue and sem.value >= sem.queue[0][1]: problems.append('head waiter blocked although value=%d >= weight=%d' % (sem.value, sem.queue[0][1]))
        holders = [i for i in rel if i not in done and not rel[i].is_set()]
        if not holders: break
        pick = holders[0] if policy == 'first' else (holders[-1] if policy == 'last' else max(holders, key=lambda i: weights[i]))
        rel[pick].set()
    for _ in range(4): await asyncio.sleep(0)
    stuck = [i for i in range(len(weights)) if i not in done]
    for t in tasks: t.cancel()
    await asyncio.gather(*tasks, return_exceptions=True)
    if st['max'] > cap: problems.append('held %d > capacity %d' % (st['max'], cap))
    if order != sorted(order): problems.append('grant order %r is not arrival order' % order)
    if stuck: problems.append('never granted: %r' % stuck)
    return problems, order
res = {'confirmed': False}
found = False
for cap in (4, 6):
    for weights in itertools.product((1, 3, 4), repeat=4):
        if any(w > cap for w in weights): continue
        for policy in ('first', 'last', 'heaviest'):
            problems, order = asyncio.run(run(cap, list(weights), policy))
            if problems:
                res = {'confirmed': True, 'input': {'capacity': cap, 'weights_in_arrival_order': list(weights), 'release_policy': policy}, 'problems': problems, 'grant_order': order}
                found = True; break
        if found: break
    if found: break
print(json.dumps(res))
'''

_CACHE = {}


def _search():
    if 'r' not in _CACHE:
        _CACHE['r'] = core.run_native(REPLAY, {}, timeout=120)
    return _CACHE['r']


def native_witness(ctx):
    return _search()


def build(ctx):
    for c in (release_contract(), acquire_contract()):
        eng = SegEngine(ctx, c)
        eng.replayer = lambda model, obl: _search()
        eng.run()
    _scans(ctx)
    _rely_lemmas(ctx)
    ctx.witness_search = _search
    ctx.assume('asyncio runs one coroutine at a time and switches tasks only at an await (atomic segments)')
    ctx.assume('asyncio.Event: wait() returns only after set(); a new Event() is an object no other task refers to')
    ctx.assume('callers release exactly what they acquired, once: discharged for FIFOWeightedSemaphoreContextManager and the worker call sites (async with self.worker.cpu_sem(self.cpu_in_mcpu))')
    ctx.assume('"live" is the state invariant: at every await/return, a non-empty queue has a head that does not fit (no scheduler fairness is claimed)')
    ctx.undecided('cancellation of a waiting job (outside the property statement)')
