"""Contracts on fragments of batch/front_end/front_end.py::_create_jobs (per-job loop body), shared by C01, C05, C08, C41.

Fragment A (initial state and staged counters), from `icr = inst_coll_resources[(job_group_id, inst_coll_name)]` to the
`if update_id == 1 and len(parent_ids) == 0` statement, for ALL update ids, parent lists, always_run flags and core counts:
   state == 'Ready'  <=>  update_id == 1 and parent_ids is empty;   otherwise 'Pending' (time_ready None)
   icr deltas:  n_jobs += 1;  n_ready_jobs += [Ready];  ready_cores_mcpu += [Ready] * cores;
                n_ready_cancellable_jobs += [Ready and not always_run];  ready_cancellable_cores_mcpu += the same * cores.
Fragment B (rows handed to the INSERTs), from `jobs_args.append(...)` to the `for parent_id in parent_ids` loop:
   the appended jobs row carries (batch_id, job_id, update_id, job_group_id, state, ..., always_run, cores_mcpu,
   n_pending_parents = len(parent_ids), inst_coll_name, ...);  job_parents_args grows by exactly one row
   (batch_id, job_id, parent_ids[i]) per parent, in order (loop invariant).
What the extraction drops: everything else in the 300-line function (spec normalisation, resource parsing, error paths); the
variables read by the fragments are symbolic inputs.
"""
from __future__ import annotations

import z3

from vc import core, pyvc
from vc.pyvc import Contract, LoopSpec, SRecord

PATH = 'batch/batch/front_end/front_end.py'
ICR_FIELDS = ['n_jobs', 'n_ready_jobs', 'ready_cores_mcpu', 'n_ready_cancellable_jobs', 'ready_cancellable_cores_mcpu']
JOBS_ROW = 'Tuple[U, int, int, int, str, U, bool, int, int, U, int, U, U]'


def _setup_a(eng, st):
    rec = SRecord('icr', {f: z3.Int('icr0_' + f) for f in ICR_FIELDS})
    st.env['ICR'] = rec
    for f in ICR_FIELDS:
        st.env['old_' + f] = rec.fields[f]


def _icr_lookup(eng, st, args, kw, node):
    return st.env['ICR']


def fragment_a(which):
    ens = {
        'ready-iff-first-update-and-no-parents': "(state == 'Ready') == (update_id == 1 and len(parent_ids) == 0)",
        'otherwise-pending': "state == 'Ready' or (state == 'Pending' and time_ready is None)",
        'staged-n_jobs': "icr['n_jobs'] == old_n_jobs + 1",
        'staged-ready-count': "icr['n_ready_jobs'] == old_n_ready_jobs + ite(state == 'Ready', 1, 0)",
        'staged-ready-cores': "icr['ready_cores_mcpu'] == old_ready_cores_mcpu + ite(state == 'Ready', cores_mcpu, 0)",
        'staged-cancellable-count': "icr['n_ready_cancellable_jobs'] == old_n_ready_cancellable_jobs + ite(state == 'Ready' and not always_run, 1, 0)",
        'staged-cancellable-cores': "icr['ready_cancellable_cores_mcpu'] == old_ready_cancellable_cores_mcpu + ite(state == 'Ready' and not always_run, cores_mcpu, 0)",
    }
    return Contract(
        path=PATH,
        qualname='_create_jobs',
        label='_create_jobs[initial-state]',
        fragment=(r"re:^icr = inst_coll_resources\[", 3),
        extra_inputs={'update_id': 'int', 'parent_ids': 'List[int]', 'in_update_parent_ids': 'List[int]', 'absolute_parent_ids': 'List[int]', 'always_run': 'bool', 'cores_mcpu': 'int', 'job_group_id': 'int', 'inst_coll_name': 'U', 'job_id': 'int', 'batch_id': 'U'},
        setup=_setup_a,
        types={'state': 'str'},
        calls={'time_msecs': lambda eng, st, args, kw, node: z3.Int(pyvc.fresh_name('now'))},
        consts={'inst_coll_resources': pyvc.SDotted('inst_coll_resources')},
        ensures=[(k, v) for k, v in ens.items() if which is None or k in which],
        canaries=[('always-pending', "state == 'Pending'")],
    )


def _subscript_icr(eng):
    """`inst_coll_resources[(job_group_id, inst_coll_name)]` returns the per-(group, inst_coll) counter record"""
    orig = eng.index

    def index(cont, idx, st, node=None):
        if isinstance(cont, pyvc.SDotted) and cont.name == 'inst_coll_resources':
            return st.env['ICR']
        return orig(cont, idx, st, node)

    eng.index = index


def fragment_b(which):
    ens = {
        'jobs-row-appended': "len(jobs_args) == len(old_jobs_args) + 1 and forall(lambda i: implies(0 <= i < len(old_jobs_args), jobs_args[i] == old_jobs_args[i]))",
        'jobs-row-fields': "jobs_args[len(jobs_args) - 1][0] == batch_id and jobs_args[len(jobs_args) - 1][1] == job_id and jobs_args[len(jobs_args) - 1][2] == update_id and jobs_args[len(jobs_args) - 1][3] == job_group_id and jobs_args[len(jobs_args) - 1][4] == state and jobs_args[len(jobs_args) - 1][6] == always_run and jobs_args[len(jobs_args) - 1][7] == cores_mcpu",
        'n_pending_parents-is-the-number-of-parents': "jobs_args[len(jobs_args) - 1][8] == len(parent_ids)",
        'one-parent-row-per-parent-in-order': "len(job_parents_args) == len(old_job_parents_args) + len(parent_ids) and forall(lambda i: implies(0 <= i < len(parent_ids), job_parents_args[len(old_job_parents_args) + i][0] == batch_id and job_parents_args[len(old_job_parents_args) + i][1] == job_id and job_parents_args[len(old_job_parents_args) + i][2] == parent_ids[i]))",
        'earlier-parent-rows-untouched': "forall(lambda i: implies(0 <= i < len(old_job_parents_args), job_parents_args[i] == old_job_parents_args[i]))",
    }

    def setup(eng, st):
        st.env['old_jobs_args'] = st.env['jobs_args']
        st.env['old_job_parents_args'] = st.env['job_parents_args']

    inv = [
        ('rows-so-far', "0 <= k and k <= len(parent_ids) and len(job_parents_args) == len(old_job_parents_args) + k"),
        ('new-rows', "forall(lambda i: implies(0 <= i < k, job_parents_args[len(old_job_parents_args) + i][0] == batch_id and job_parents_args[len(old_job_parents_args) + i][1] == job_id and job_parents_args[len(old_job_parents_args) + i][2] == parent_ids[i]))"),
        ('old-rows', "forall(lambda i: implies(0 <= i < len(old_job_parents_args), job_parents_args[i] == old_job_parents_args[i]))"),
    ]
    return Contract(
        path=PATH,
        qualname='_create_jobs',
        label='_create_jobs[insert-rows]',
        fragment=(r"re:^jobs_args\.append\(", r"re:^for parent_id in "),
        extra_inputs={
            'batch_id': 'U', 'job_id': 'int', 'update_id': 'int', 'job_group_id': 'int', 'state': 'str', 'db_spec': 'U', 'always_run': 'bool', 'cores_mcpu': 'int',
            'parent_ids': 'List[int]', 'in_update_parent_ids': 'List[int]', 'absolute_parent_ids': 'List[int]', 'inst_coll_name': 'U', 'n_regions': 'int', 'regions_bits_rep': 'U', 'n_max_attempts': 'U', 'time_ready': 'U',
            'jobs_args': 'List[%s]' % JOBS_ROW, 'job_parents_args': 'List[Tuple[U, int, int]]', 'jobs_telemetry_args': 'List[Tuple[U, int, U]]',
        },
        setup=setup,
        calls={'json.dumps': lambda eng, st, args, kw, node: z3.Const(pyvc.fresh_name('json'), pyvc.U)},
        loops={'re:^for parent_id in ': LoopSpec(index='k', invariants=inv)},
        ensures=[(k, v) for k, v in ens.items() if which is None or k in which],
        canaries=[('no-parent-rows', "len(job_parents_args) == len(old_job_parents_args)")],
    )


REPLAY_B = r'''
import sys, json, os, ast, re
src = open(os.path.join(os.environ['VERIF_REPO'], 'batch/batch/front_end/front_end.py')).read()
tree = ast.parse(src)
fn = [n for n in ast.walk(tree) if isinstance(n, ast.AsyncFunctionDef) and n.name == '_create_jobs'][0]
loop = [n for n in fn.body if isinstance(n, ast.For)][0]
stmts = []; take = False
for st in loop.body:
    t = ast.unparse(st)
    if re.match(r'^jobs_args\.append\(', t): take = True
    if take:
        stmts.append(st)
        if isinstance(st, ast.For) and ast.unparse(st.target) == 'parent_id': break
class J:
    @staticmethod
    def dumps(x): return 'json'
res = {'confirmed': False}
for parent_ids in ([], [1], [1, 2], [1, 1], [2, 1, 2], [3, 3, 3]):
    env = {'batch_id': 7, 'job_id': 9, 'update_id': 1, 'job_group_id': 0, 'state': 'Pending', 'db_spec': {}, 'always_run': False, 'cores_mcpu': 1000, 'parent_ids': list(parent_ids),
           'in_update_parent_ids': list(parent_ids), 'absolute_parent_ids': [], 'inst_coll_name': 'standard', 'n_regions': None, 'regions_bits_rep': None, 'n_max_attempts': 20, 'time_ready': None,
           'jobs_args': [], 'job_parents_args': [], 'jobs_telemetry_args': [], 'json': J}
    exec(compile(ast.Module(body=stmts, type_ignores=[]), 'front_end-fragment', 'exec'), env)
    rows = env['job_parents_args']; jr = env['jobs_args'][-1]
    problems = []
    if rows != [(7, 9, p) for p in parent_ids]: problems.append('job_parents rows %r for parents %r' % (rows, parent_ids))
    if jr[8] != len(parent_ids): problems.append('n_pending_parents %r for %d parents' % (jr[8], len(parent_ids)))
    if len(rows) != jr[8]: problems.append('n_pending_parents %r but %d parent rows: the job can never become Ready' % (jr[8], len(rows)))
    if problems:
        res = {'confirmed': True, 'input': {'parent_ids': parent_ids}, 'problems': problems}; break
print(json.dumps(res))
'''


# ---- the whole per-job tail (wave 4): from `icr = inst_coll_resources[...]` through the `for parent_id in parent_ids` loop as ONE
# fragment.  Fragments A and B are cut out of this region by position; a statement added between or before them (a local that
# the jobs row then reads, e.g. a separately computed n_pending_parents) is outside both, so its value would be a free name in
# B.  The tail contract executes every statement of the region: locals flow from where they are computed to the rows they are
# stored in.  What lies between the two fragments (network / unconfined checks, spec_writer.add, db_spec) is executed as
# well: `spec`, `spec_writer`, `batch_format_version` are opaque inputs whose method results are havocked (listed as
# assumptions), and the HTTPBadRequest exits write no row (they leave the fragment by raising).
TAIL_INPUTS = {
    'update_id': 'int', 'parent_ids': 'List[int]', 'in_update_parent_ids': 'List[int]', 'absolute_parent_ids': 'List[int]', 'always_run': 'bool', 'cores_mcpu': 'int',
    'job_group_id': 'int', 'inst_coll_name': 'U', 'job_id': 'int', 'batch_id': 'U', 'n_regions': 'int', 'regions_bits_rep': 'U', 'n_max_attempts': 'U',
    'spec': 'U', 'user': 'str', 'spec_writer': 'U', 'batch_format_version': 'U',
    'jobs_args': 'List[%s]' % JOBS_ROW, 'job_parents_args': 'List[Tuple[U, int, int]]', 'jobs_telemetry_args': 'List[Tuple[U, int, U]]',
}


def fragment_tail(which):
    a, b = fragment_a(None), fragment_b(None)
    ens = dict(a.ensures)
    ens.update(dict(b.ensures))
    # the parent count stored in the row is the number of job_parents rows written for the job, whatever the update: the children
    # statement of mark_job_complete decrements once per parent row, so a job with a parent that cannot finish before the
    # commit (a parent of the same, uncommitted update) cannot reach 0 before the commit (C41), and reaches 0 at all (C05/C08)
    ens['n_pending_parents-covers-every-parent-row-in-every-update'] = "jobs_args[len(jobs_args) - 1][8] == len(job_parents_args) - len(old_job_parents_args)"
    ens['telemetry-row-appended'] = "len(jobs_telemetry_args) == len(old_jobs_telemetry_args) + 1"

    def setup(eng, st):
        _setup_a(eng, st)
        for v in ('jobs_args', 'job_parents_args', 'jobs_telemetry_args'):
            st.env['old_' + v] = st.env[v]

    unknown = [k for k in (which or ()) if k not in ens]
    if unknown:
        raise core.CheckerBug('create_jobs_frag.fragment_tail: unknown clause %r' % unknown)
    return Contract(
        path=PATH,
        qualname='_create_jobs',
        label='_create_jobs[per-job-tail]',
        fragment=(r"re:^icr = inst_coll_resources\[", r"re:^for parent_id in "),
        extra_inputs=dict(TAIL_INPUTS),
        setup=setup,
        types={'state': 'str'},
        opaque_methods=True,
        # time_ready is stored in a telemetry row next to opaque values: an opaque timestamp (fragment A uses an integer)
        calls={'time_msecs': lambda eng, st, args, kw, node: z3.Const(pyvc.fresh_name('now'), pyvc.U), 'json.dumps': lambda eng, st, args, kw, node: z3.Const(pyvc.fresh_name('json'), pyvc.U)},
        consts=dict(a.consts),
        loops=dict(b.loops),
        raises={'*': True},  # the 400 exits of the region; nothing is appended on them (they precede the appends)
        ensures=[(k, v) for k, v in ens.items() if which is None or k in which],
        canaries=list(a.canaries) + list(b.canaries) + [('never-ready', "state != 'Ready'")],
    )


REPLAY_TAIL = r'''
import sys, json, os, ast, re, itertools
src = open(os.path.join(os.environ['VERIF_REPO'], 'batch/batch/front_end/front_end.py')).read()
tree = ast.parse(src)
fn = [n for n in ast.walk(tree) if isinstance(n, ast.AsyncFunctionDef) and n.name == '_create_jobs'][0]
loop = [n for n in fn.body if isinstance(n, ast.For)][0]
stmts = []; take = False
for st in loop.body:
    t = ast.unparse(st)
    if re.match(r'^icr = inst_coll_resources\[', t): take = True
    if take:
        stmts.append(st)
        if isinstance(st, ast.For) and ast.unparse(st.target) == 'parent_id': break
assert stmts and isinstance(stmts[-1], ast.For), 'region not found'
code = compile(ast.Module(body=stmts, type_ignores=[]), 'front_end-per-job-tail', 'exec')
class J:
    @staticmethod
    def dumps(x): return 'json'
class Any_:
    def __getattr__(self, n): return lambda *a, **k: {}
class Web:
    class HTTPBadRequest(Exception):
        def __init__(self, **kw): pass
res = {'confirmed': False, 'tried': 0}
F = ['n_jobs', 'n_ready_jobs', 'ready_cores_mcpu', 'n_ready_cancellable_jobs', 'ready_cancellable_cores_mcpu']
for update_id, inup, absol, always_run in itertools.product((1, 2, 3), ([], [1], [1, 2]), ([], [5], [5, 6]), (False, True)):
    start = 10
    parent_ids = [start + p - 1 for p in inup] + list(absol)
    icr = {f: 100 for f in F}
    env = {'batch_id': 7, 'job_id': 19, 'update_id': update_id, 'job_group_id': 0, 'always_run': always_run, 'cores_mcpu': 250, 'parent_ids': list(parent_ids),
           'in_update_parent_ids': list(inup), 'absolute_parent_ids': list(absol), 'inst_coll_name': 'standard', 'n_regions': None, 'regions_bits_rep': None, 'n_max_attempts': 20,
           'spec': {}, 'user': 'u', 'spec_writer': Any_(), 'batch_format_version': Any_(), 'inst_coll_resources': {(0, 'standard'): icr},
           'jobs_args': [], 'job_parents_args': [], 'jobs_telemetry_args': [], 'json': J, 'web': Web, 'time_msecs': lambda: 1234, 'update_start_job_id': start}
    exec(code, env)
    res['tried'] += 1
    rows = env['job_parents_args']; jr = env['jobs_args'][-1]
    ready = jr[4] == 'Ready'
    problems = []
    if jr[4] not in ('Ready', 'Pending'): problems.append('state %r' % (jr[4],))
    if ready != (update_id == 1 and not parent_ids): problems.append('job of update %d with %d parents inserted %s' % (update_id, len(parent_ids), jr[4]))
    if rows != [(7, 19, p) for p in parent_ids]: problems.append('job_parents rows %r for parents %r' % (rows, parent_ids))
    if jr[8] != len(parent_ids): problems.append('n_pending_parents %r for %d parents (update %d: %d in-update, %d earlier)' % (jr[8], len(parent_ids), update_id, len(inup), len(absol)))
    want = {'n_jobs': 1, 'n_ready_jobs': int(ready), 'ready_cores_mcpu': 250 * ready, 'n_ready_cancellable_jobs': int(ready and not always_run), 'ready_cancellable_cores_mcpu': 250 * (ready and not always_run)}
    for f in F:
        if icr[f] - 100 != want[f]: problems.append('staged %s moved by %d, expected %d' % (f, icr[f] - 100, want[f]))
    if problems:
        res = {'confirmed': True, 'what': '_create_jobs per-job tail (real statements): ' + '; '.join(problems), 'input': {'update_id': update_id, 'in_update_parent_ids': inup, 'absolute_parent_ids': absol, 'always_run': always_run}, 'problems': problems}
        break
print(json.dumps(res))
'''


def replay_tail():
    """the real statements of the region, executed under /venv/bin/python on a grid of (update, in-update parents, earlier parents,
    always_run): bounded enumeration, used only to attach a concrete failing input to a failed obligation"""
    return core.run_native(REPLAY_TAIL, {})


def add(ctx, a=None, b=None, replayer=None, tail=()):
    """a / b: iterable of clause names to claim from fragment A / B (None = all, () = skip the fragment); tail: clause names to
    claim from the whole-region contract (default: not run)"""
    if tail is None or len(tail) > 0:
        eng = pyvc.Engine(ctx, fragment_tail(tail))
        _subscript_icr(eng)
        eng.replayer = replayer or (lambda model, obl: replay_tail())
        eng.run()
    if a is None or len(a) > 0:
        eng = pyvc.Engine(ctx, fragment_a(a))
        _subscript_icr(eng)
        if replayer:
            eng.replayer = replayer
        eng.run()
    if b is None or len(b) > 0:
        eng = pyvc.Engine(ctx, fragment_b(b))
        eng.replayer = replayer or (lambda model, obl: core.run_native(REPLAY_B, {}))
        eng.run()
    ctx.assume('_create_jobs is verified on two fragments of its per-job loop body; the variables they read are arbitrary symbolic inputs and everything outside the fragments is dropped (stated in contracts/create_jobs_frag.py)')
