"""C25 - resource-size strings parse to their decimal value.

Targets: hailtop/batch_client/parse.py  parse_cpu_in_mcpu, parse_memory_in_bytes, parse_storage_in_bytes and the three
compiled patterns; batch/front_end/validate.py (server-side acceptance) and hailtop/utils/validate RegexValidator.

Contract, from the property text.  A string s of the documented grammar  [+]? NUM UNIT? [B]?  (NUM = D+ | D*.D+) denotes
the rational number dec(NUM) times the unit factor (m = 1/1000 cpu; K=1000, Ki=1024, ... P=1000^5, Pi=1024^5 bytes):
  parse_cpu_in_mcpu(s)    == floor(dec(NUM) * 1000)        (without m)   /  floor(dec(NUM))  (with m)
  parse_memory_in_bytes(s) == ceil(dec(NUM) * factor(UNIT))  (== parse_storage_in_bytes(s))
  s outside the grammar  ->  None
and the server validators accept exactly the strings the client parsers accept (same pattern objects, fullmatch).

How it is decided: (a) language of each real pattern == the documented grammar (relang, both inclusions);
(b) capture groups: NUM and UNIT are over disjoint alphabets, so the decomposition is unique and group(1)/group(2) are
NUM/UNIT (checked on the parsed pattern); UNIT ranges over the finite language of group 2 (enumerated);
(c) the arithmetic of the real function bodies is verified by pyvc with EXACT rationals for fractions.Fraction values and
the standard relative-error model for Python floats (every float operation = exact result * (1+d), |d| <= 2**-53):
with floats the exactness obligations are refutable, with exact arithmetic they are valid.
"""
from __future__ import annotations

import ast
import json
import os

import z3

from vc import core, pyvc, relang
from vc.core import Obl, satisfiable
from vc.pyvc import Contract, Fork, SFrac, SRecord

PARSE = 'hail/python/hailtop/batch_client/parse.py'
VALIDATE = 'batch/batch/front_end/validate.py'
VUTIL = 'hail/python/hailtop/utils/validate/validate.py'

SPEC_FACTOR = {None: 1, 'K': 1000, 'Ki': 1024, 'M': 1000**2, 'Mi': 1024**2, 'G': 1000**3, 'Gi': 1024**3, 'T': 1000**4, 'Ti': 1024**4, 'P': 1000**5, 'Pi': 1024**5}

FUNCS = {
    'parse_cpu_in_mcpu': ('CPU_REGEX', 'cpu'),
    'parse_memory_in_bytes': ('MEMORY_REGEX', 'bytes'),
    'parse_storage_in_bytes': ('STORAGE_REGEX', 'bytes'),
}


def _digits():
    return z3.Range('0', '9')


def spec_grammar(kind, plus=True):
    num = z3.Union(z3.Plus(_digits()), z3.Concat(z3.Star(_digits()), z3.Re('.'), z3.Plus(_digits())))
    if kind == 'cpu':
        unit = z3.Option(z3.Re('m'))
        return z3.Concat(z3.Option(z3.Re('+')), num, unit) if plus else z3.Concat(num, unit)
    unit = z3.Option(z3.Concat(z3.Union(*[z3.Re(c) for c in 'KMGTP']), z3.Option(z3.Re('i'))))
    return z3.Concat(z3.Option(z3.Re('+')), num, unit, z3.Option(z3.Re('B'))) if plus else z3.Concat(num, unit, z3.Option(z3.Re('B')))


def _pattern_of(tree, consts, regex_name):
    rx = relang._const_regex(ast.Name(id=regex_name), {}, consts)
    if rx is None:
        raise core.Undecided('anchor-moved: %s is not re.compile(<literal>)' % regex_name)
    return rx[0]


REPLAY = r'''
import sys, json, os, importlib.util, math
from fractions import Fraction
p = json.load(sys.stdin)
spec = importlib.util.spec_from_file_location('parse_real', os.path.join(os.environ['VERIF_REPO'], 'hail/python/hailtop/batch_client/parse.py'))
m = importlib.util.module_from_spec(spec); spec.loader.exec_module(m)
FACT = {'': 1, 'K': 1000, 'Ki': 1024, 'M': 1000**2, 'Mi': 1024**2, 'G': 1000**3, 'Gi': 1024**3, 'T': 1000**4, 'Ti': 1024**4, 'P': 1000**5, 'Pi': 1024**5}
def expect(fn, num, unit):
    q = Fraction(num if not num.startswith('.') else '0' + num)
    if fn == 'parse_cpu_in_mcpu':
        return math.floor(q) if unit == 'm' else math.floor(q * 1000)
    return math.ceil(q * FACT[unit])
def check(fn, plus, num, unit, b):
    s = plus + num + unit + b
    got = getattr(m, fn)(s)
    want = expect(fn, num, unit)
    if got != want:
        return {'confirmed': True, 'input': {'function': fn, 'string': s}, 'real_code_returns': got, 'denoted_value': want}
    return None
res = {'confirmed': False}
cands = []
if 'string_parts' in p:
    cands.append(p['string_parts'])
if p.get('search'):
    nums = ['0', '1', '7', '10', '1001', '1005', '.5', '0.25', '3.75', '1.001', '2.007', '0.9999', '1.5', '0.0009', '7.9996', '3.125', '0.1', '0.7', '1.1', '4.35', '8.003', '16.001', '0.001', '123.456', '0.3']
    nums += ['%d.%03d' % (a, b) for a in range(0, 3) for b in range(0, 1000, 7)]
    nums += ['0.24' + '9' * k for k in (20, 27, 28, 31, 40)] + ['3.' + '9' * k for k in (27, 28, 29, 35)] + ['1.0000000000000000001', '9007199254740993', '0.' + '0' * 30 + '1']
    for fn in p.get('functions', ['parse_cpu_in_mcpu', 'parse_memory_in_bytes', 'parse_storage_in_bytes']):
        units = ['', 'm'] if fn == 'parse_cpu_in_mcpu' else list(FACT)
        for num in nums:
            for unit in units:
                cands.append([fn, '', num, unit, '' if fn == 'parse_cpu_in_mcpu' else 'B'])
n = 0
for c in cands:
    n += 1
    try:
        r = check(*c)
    except Exception as e:
        r = {'confirmed': True, 'input': {'function': c[0], 'string': ''.join(c[1:])}, 'raised': repr(e)}
    if r:
        res = r; break
res['searched'] = n
print(json.dumps(res))
'''


def _match_model(units, tag):
    """<REGEX>.fullmatch(s): no match, or a match object whose group(1) is the NUM text and group(2) a UNIT (or None)."""

    def model(eng, st, args, kw, node):
        alts = [('no-match', None, 'value', None)]
        num_text = z3.Const('num_text', pyvc.U)
        for u in units:
            alts.append(('match-unit-%s' % u, None, 'value', SRecord('Match', {'g1': num_text, 'g2': u}), (lambda u: lambda s: s.env.__setitem__('matched_unit', u if u is not None else 'NONE'))(u)))
        raise Fork(node, alts)

    return model


def _group(eng, st, args, kw, node):
    rec, idx = args[0], args[1]
    if not isinstance(idx, int) or idx not in (1, 2):
        raise core.Undecided('match.group(%r)' % (idx,))
    return rec.fields['g1'] if idx == 1 else rec.fields['g2']


def _dec(eng, term):
    f = eng.uf('dec', ['U'], 'real')
    return f(term)


def _float(eng, st, args, kw, node):
    a = args[0]
    if isinstance(a, z3.ExprRef) and a.sort() == pyvc.U:
        return eng.round_float(_dec(eng, a), st)  # float(str): correctly rounded decimal -> double
    if isinstance(a, SFrac):
        return eng.round_float(a.term, st)
    x = eng.num(a)
    return z3.ToReal(x) if z3.is_int(x) else x


def _decimal(eng, st, args, kw, node):
    """decimal.Decimal(str) is exact, but every ARITHMETIC operation on Decimals rounds to the context precision (28 significant
    digits by default): a Decimal is therefore an inexact number like a float - a plain real term, whose operations go through
    the relative-error model (2**-53 per operation over-approximates 10**-27: sound, it only admits more rounding)"""
    a = args[0]
    if isinstance(a, z3.ExprRef) and a.sort() == pyvc.U:
        return _dec(eng, a)
    if isinstance(a, SFrac):
        return a.term
    x = eng.num(a)
    return z3.ToReal(x) if z3.is_int(x) else x


def _fraction(eng, st, args, kw, node):
    a = args[0]
    if isinstance(a, z3.ExprRef) and a.sort() == pyvc.U:
        return SFrac(_dec(eng, a))
    if isinstance(a, SFrac):
        return a
    x = eng.num(a)
    if z3.is_int(x):
        return SFrac(z3.ToReal(x))
    raise core.Undecided('Fraction(float)')


def value_contract(fn, regex_name, kind, units):
    spec_cases = []
    for u in units:
        key = u if u is not None else 'NONE'
        if kind == 'cpu':
            val = "floor_r(dec(NUM))" if u == 'm' else "floor_r(dec(NUM) * 1000)"
        else:
            val = "ceil_r(dec(NUM) * %d)" % SPEC_FACTOR[u]
        spec_cases.append("implies(matched_unit == '%s', result == %s)" % (key, val))
    return Contract(
        path=PARSE,
        qualname=fn,
        types={a: 'U' for a in ('cpu_string', 'memory_string', 'storage_string')},
        float_as_real=True,
        float_model='relerr',
        spec_funcs={'dec': (['U'], 'real')},
        axioms=["forall('U', lambda t: dec(t) >= 0)"],
        ghost_init={'matched_unit': "'NOMATCH'", 'NUM': 'NUMTEXT'},
        consts={'NUMTEXT': z3.Const('num_text', pyvc.U)},
        calls={
            regex_name + '.fullmatch': _match_model(units, kind),
            'Match.group': _group,
            'float': _float,
            'Fraction': _fraction,
            'fractions.Fraction': _fraction,
            'Decimal': _decimal,
            'decimal.Decimal': _decimal,
            'floor_r': lambda eng, st, args, kw, node: z3.ToInt(eng.num(args[0])),
            'ceil_r': lambda eng, st, args, kw, node: (lambda x: z3.If(z3.ToReal(z3.ToInt(x)) == x, z3.ToInt(x), z3.ToInt(x) + 1))(eng.num(args[0])),
        },
        ensures=[('no-match-gives-None', "implies(matched_unit == 'NOMATCH', result is None)"), ('match-gives-a-number', "implies(matched_unit != 'NOMATCH', not (result is None))")]
        + [('exact-value/unit-%s' % (u if u is not None else 'none'), c) for u, c in zip(units, spec_cases)],
    )


def native_witness(ctx):
    """concrete search on the real code, usable when the contracts no longer apply to a changed source (vc/check.py)"""
    return core.run_native(REPLAY, {'search': True})


def build(ctx):
    src = core.read_repo(PARSE)
    tree = ast.parse(src)
    consts = relang.module_constants(tree)
    ctx.assume('dec(NUM) is the rational number denoted by the decimal text NUM (contract of fractions.Fraction(str) / the mathematical reading of float(str)); dec >= 0')
    ctx.assume('Python floats follow the standard model: each operation returns the exact result times (1+d), |d| <= 2**-53 (no overflow/underflow for resource sizes)')
    ctx.assume('truthiness of fullmatch equals membership in the regular language of the pattern (no back-references/look-around)')
    patterns = {}
    for fn, (regex_name, kind) in FUNCS.items():
        pat = _pattern_of(tree, consts, regex_name)
        patterns[fn] = pat
        # (a) language of the real pattern == documented grammar
        code = relang.regex_language(pat, 'fullmatch')
        spec = spec_grammar(kind)
        for nm, (A, B) in {'accepted-subset-of-grammar': (code, spec), 'grammar-subset-of-accepted': (spec, code)}.items():
            w, q = relang.lang_subset_query(A, B, 'w_%s_%s' % (fn, nm[:3]))
            ctx.add(Obl('%s/%s' % (fn, nm), q, 'unsat', 'vc', {'pattern': pat}), replay=(lambda w, fn, nm: lambda model, obl: {'confirmed': False, 'witness_string': relang.z3_unescape(relang.model_string(model, w) or ''), 'function': fn, 'direction': nm})(w, fn, nm))
        ctx.add(satisfiable('%s/vacuity/pattern-accepts-something' % fn, z3.InRe(z3.String('x'), code)))
        ctx.add(satisfiable('%s/canary/grammar-without-plus-is-different' % fn, z3.InRe(z3.String('x'), z3.Intersect(code, z3.Complement(spec_grammar(kind, plus=False)))), kind='canary'))
        # (b) group structure
        ptree = relang.parse_pattern(pat)
        g1, g2 = relang.find_group(ptree, 1), relang.find_group(ptree, 2)
        if g1 is None or g2 is None:
            raise core.Undecided('pattern %r has no groups 1 and 2' % pat)
        a1 = relang.alphabet_ranges(g1)
        a2 = relang.alphabet_ranges(g2)
        disjoint = all(hi1 < lo2 or hi2 < lo1 for lo1, hi1 in a1 for lo2, hi2 in a2)
        num_lang = relang.sub_language(g1)
        num_spec = z3.Union(z3.Plus(_digits()), z3.Concat(z3.Star(_digits()), z3.Re('.'), z3.Plus(_digits())))
        wn, qn = relang.lang_subset_query(num_lang, num_spec, 'wn_' + fn)
        ctx.add(Obl('%s/group1-is-a-decimal-number' % fn, qn, 'unsat', 'vc', {}))
        wn2, qn2 = relang.lang_subset_query(num_spec, num_lang, 'wn2_' + fn)
        ctx.add(Obl('%s/every-decimal-number-is-a-group1' % fn, qn2, 'unsat', 'vc', {}))
        units = relang.finite_language(g2)
        want_units = ['m'] if kind == 'cpu' else [k for k in SPEC_FACTOR if k]
        ctx.add(core.decided('%s/unit-group-is-the-documented-unit-set' % fn, sorted(units) == sorted(want_units), 'group 2 language = %r' % units, kind='scan'))
        ctx.add(core.decided('%s/number-and-unit-alphabets-disjoint (unique decomposition)' % fn, disjoint, 'group1 alphabet %r, group2 alphabet %r' % (a1, a2), kind='scan'))
        # group 2 must be optional and follow group 1 directly; tail only an optional literal B
        items = list(ptree)
        shape_ok = False
        try:
            idx1 = [i for i, (op, av) in enumerate(items) if op is relang.sre_c.SUBPATTERN and av[0] == 1][0]
            rest = items[idx1 + 1:]
            opt2 = rest and rest[0][0] in (relang.sre_c.MAX_REPEAT,) and rest[0][1][0] == 0 and rest[0][1][1] == 1 and relang.find_group(rest[0][1][2], 2) is not None
            tail = rest[1:]
            tail_ok = all(op in (relang.sre_c.MAX_REPEAT,) and av[0] == 0 and av[1] == 1 and list(av[2])[0][0] is relang.sre_c.LITERAL for op, av in tail)
            shape_ok = bool(opt2) and tail_ok and len(tail) <= 1
        except Exception:
            shape_ok = False
        ctx.add(core.decided('%s/pattern-shape-is-[+]?(NUM)(UNIT)?B?' % fn, shape_ok, pat, kind='scan'))
        # (c) arithmetic of the real body
        if kind != 'cpu':
            # every unit spelling the pattern admits must be a documented unit with a conversion factor (a spelling the grammar
            # accepts but the arithmetic does not know cannot be given its value)
            unknown = sorted(u for u in units if u not in SPEC_FACTOR)
            ctx.add(core.decided('%s/every-unit-of-the-pattern-is-a-documented-unit' % fn, not unknown, 'units without a specified factor: %r' % unknown, kind='scan'))
            units = [u for u in units if u in SPEC_FACTOR]
        c = value_contract(fn, regex_name, kind, [None] + sorted(units))
        eng = pyvc.Engine(ctx, c)

        def replayer(model, obl, fn=fn):
            return core.run_native(REPLAY, {'search': True, 'functions': [fn]})

        eng.replayer = replayer
        eng.run()
    ctx.witness_search = lambda: core.run_native(REPLAY, {'search': True})

    # server side: same pattern objects, fullmatch
    vsrc = core.read_repo(VALIDATE)
    vtree = ast.parse(vsrc)
    imported = set()
    for n in ast.walk(vtree):
        if isinstance(n, ast.ImportFrom) and n.module == 'hailtop.batch_client.parse':
            imported |= {a.name for a in n.names}
    uses = {}
    for n in ast.walk(vtree):
        if isinstance(n, ast.Dict):
            for k, v in zip(n.keys, n.values):
                if isinstance(k, ast.Constant) and k.value in ('cpu', 'memory', 'storage'):
                    uses[k.value] = ast.unparse(v)
    ctx.under_contract(VALIDATE, 'job validator (resources)')
    ok = (
        {'CPU_REGEX', 'CPU_REGEXPAT', 'MEMORY_REGEX', 'MEMORY_REGEXPAT', 'STORAGE_REGEX', 'STORAGE_REGEXPAT'} <= imported
        and uses.get('cpu') == 'regex(CPU_REGEXPAT, CPU_REGEX)'
        and uses.get('storage') == 'regex(STORAGE_REGEXPAT, STORAGE_REGEX)'
        and uses.get('memory', '').startswith('anyof(regex(MEMORY_REGEXPAT, MEMORY_REGEX)')
    )
    ctx.add(core.decided('server/validators-use-the-client-pattern-objects', ok, json.dumps(uses), kind='scan'))
    usrc = core.read_repo(VUTIL)
    utree = ast.parse(usrc)
    rv = pyvc.find_function(utree, 'RegexValidator.validate')
    ctx.under_contract(VUTIL, 'RegexValidator.validate')
    txt = ast.unparse(rv)
    ok2 = 'if not self.re_obj.fullmatch(obj):' in txt and 'raise ValidationError' in txt
    init = ast.unparse(pyvc.find_function(utree, 'RegexValidator.__init__'))
    ok2 = ok2 and 'self.re_obj = re_obj if re_obj is not None else re.compile(pattern)' in init
    ctx.add(core.decided('server/RegexValidator-rejects-iff-not-fullmatch', ok2, '', kind='scan'))
    ctx.undecided('that front_end passes exactly the validated strings to the parsers (checked under C12 call sites)')
