"""C01 layer 3, second part (wave 4): the bulk operations on the token-sharded counter tables that are written from Python.

Every function below is the REAL coroutine of the repository, executed by pyvc; each SQL string it passes to the database
layer is parsed and executed symbolically by sqlvc with the `%s` placeholders bound to the values the Python code passes.

 driver/main.py::delete_prev_cancelled_job_group_cancellable_resources_records
     G_* is claimed only for groups with not grp_cancelled(b, g) (DESIGN 7/C01), so the cleanup may delete exactly rows of groups
     that are cancelled themselves or through an ancestor:
        every row the DELETE removes has  grp_cancelled(row.batch_id, row.job_group_id)           (spec: contracts/sqlspec.py)
 driver/main.py::delete_committed_job_groups_inst_coll_staging_records
     staging rows are read by commit_batch_update only while the update is uncommitted:
        every row the DELETE removes belongs to a batch_updates row with committed = 1
 front_end.py::_create_jobs.insert_jobs_into_db
     the transaction of one bunch.  A re-sent bunch is recognised by ER_DUP_ENTRY on the jobs INSERT and ends in a normal
     return, i.e. the transaction COMMITS: every write of a counter table must therefore come after the jobs INSERT went
     through, and happen exactly once per accepted bunch.  The two counter upserts fan each (group, inst_coll) entry of
     inst_coll_resources out to exactly the ancestors of that group (anc* of the spec), under the key
     (batch, update, ancestor, inst_coll, token), adding the entry's own same-named totals (additive upsert).
"""
from __future__ import annotations

import ast as pyast

import z3

from contracts import sqlspec as SP
from vc import core, pyvc, sqlast as A, sqlparse, sqlvc
from vc.pyvc import Contract, Fork, LoopSpec, SExc, SList, SRecord
from vc.sqlvc import SV

DRV = 'batch/batch/driver/main.py'
FE = 'batch/batch/front_end/front_end.py'
CR = 'job_group_inst_coll_cancellable_resources'
STG = 'job_groups_inst_coll_staging'
UIR = 'user_inst_coll_resources'
COUNTER_TABLES = (UIR, CR, STG)


def _sql_text(v, node):
    if isinstance(v, str):
        return v
    a0 = node.args[0] if node.args else None
    if isinstance(a0, pyast.Constant) and isinstance(a0.value, str):
        return a0.value
    raise core.Undecided('embedded SQL is not a string literal (%s)' % pyast.unparse(node)[:60])


def _bind_params(sqlst, values):
    """placeholders %s, in order, are the values the Python code passes"""
    for i, v in enumerate(values):
        if isinstance(v, bool):
            v = z3.IntVal(int(v))
        elif isinstance(v, int):
            v = z3.IntVal(v)
        if not (isinstance(v, z3.ExprRef) and z3.is_int(v)):
            raise core.Undecided('SQL argument %d is not an integer-sorted value: %r' % (i, v))
        sqlst.uservars['%%param%d' % i] = SV(False, v)


def _n_params(stn):
    return len([n for n in stn.walk() if isinstance(n, A.Param)])


# ---------------------------------------------------------------------------------------------------------------------------
# cleanup loops of the driver


def _cleanup_contract(ctx, qualname, table, out_cols, row_spec, spec_name, vac_name, canary=None, canary_name=None):
    """`targets = db.execute_and_fetchall(SELECT ...)`, then one DELETE per target.
    row_spec(db, key_dict) -> z3 condition every deleted row (primary key -> term) must satisfy in the database the SELECT saw."""
    ex = sqlvc.Exec(inline_after=False)
    sqlst = ex.new_state()
    for t in (table, 'job_group_self_and_ancestors', 'job_groups_cancelled', 'batch_updates'):
        sqlst.db.tab(t)
    base = sqlst.db.fork()
    box = {'n_select': 0, 'n_delete': 0}

    def fetchall(eng, st, args, kw, node):
        sql = _sql_text(args[1] if len(args) > 1 else None, node)
        stn = sqlparse.parse_statement(sql)
        if not isinstance(stn, A.SelectStmt) or not isinstance(stn.select, A.Select):
            raise core.Undecided('%s: the target query is not a plain SELECT' % qualname)
        sel = stn.select
        if _n_params(stn) or len(args) > 2:
            raise core.Undecided('%s: target query with parameters' % qualname)
        # DISTINCT / GROUP BY on selected columns / ORDER BY / LIMIT only choose among the projections of the rows that satisfy
        # FROM..WHERE: every returned row is the projection of one such row.  Aggregates or HAVING would not be projections.
        names = [c.alias or (c.expr.parts[-1] if isinstance(c.expr, A.Name) else None) for c in sel.columns]
        plain = all(isinstance(c.expr, A.Name) for c in sel.columns) and sel.having is None
        if sel.group_by:
            gb = [g.to_sql() for g in sel.group_by]
            plain = plain and all(c.expr.to_sql() in gb for c in sel.columns)
        ctx.add(core.decided('%s/targets-are-projections-of-the-selected-rows' % eng.label, plain and None not in names, 'columns=%r' % names, kind='scan'))
        if not plain or None in names:
            raise core.Undecided('%s: target query selects something else than columns' % qualname)
        aliases, cond, kv = ex.bind_from(sel.from_, sel.where, sqlvc.Scope(sqlst), sqlst)
        sc = sqlvc.Scope(sqlst, aliases)
        cols = {nm: ex.ev(c.expr, sc) for nm, c in zip(names, sel.columns)}
        ctx.add(core.decided('%s/targets-carry-%s' % (eng.label, '-'.join(out_cols)), sorted(cols) == sorted(out_cols), repr(sorted(cols)), kind='scan'))
        box['n_select'] += 1
        box['sel'] = (cond, kv, cols)
        et = ('rec', tuple((nm, 'int') for nm in names))
        targets = pyvc.fresh_value(('list', et), 'targets')
        st.assume(targets.len >= 0)
        box['targets'] = targets
        box['et'] = et
        return targets

    def just_execute(eng, st, args, kw, node):
        sql = _sql_text(args[1] if len(args) > 1 else None, node)
        stn = sqlparse.parse_statement(sql)
        if not isinstance(stn, A.Delete):
            raise core.Undecided('%s: unexpected statement %s' % (qualname, type(stn).__name__))
        tname = stn.table if isinstance(stn.table, str) else stn.table.name
        ctx.add(core.decided('%s/deletes-from-%s-only' % (eng.label, table), tname == table, tname, kind='frame'))
        if 'sel' not in box:
            raise core.Undecided('%s: DELETE before the target query' % qualname)
        vals = args[2] if len(args) > 2 else ()
        if not isinstance(vals, tuple) or len(vals) != _n_params(stn):
            raise core.Undecided('%s: DELETE arguments do not match its placeholders' % qualname)
        cond, kv, cols = box['sel']
        # the target this iteration works on is a row the query returned: some row satisfying FROM..WHERE projects onto it
        tgt = st.env.get(box['loop_var'])
        cur = pyvc.from_z3(z3.Select(box['targets'].arr, st.env['ti']), box['et']) if 'ti' in st.env and 'targets' in box else None
        if not isinstance(tgt, SRecord) or cur is None or sorted(tgt.fields) != sorted(cur.fields) or not all(z3.simplify(tgt.fields[f]).eq(z3.simplify(cur.fields[f])) for f in cur.fields):
            raise core.Undecided('%s: at the DELETE the loop variable is not the current element of the query result' % qualname)
        is_result_row = [cond] + [z3.And(z3.Not(cols[nm].n), cols[nm].v == tgt.fields[nm]) for nm in cols]
        s2 = sqlst.fork()
        _bind_params(s2, list(vals))
        outs = ex.exec_stmt(stn, s2)
        effs = [e for s in outs for e in s.effects if e.kind in ('delete', 'delete-set')]
        if len(outs) != 1 or len(effs) != 1:
            raise core.Undecided('%s: DELETE with %d outcomes' % (qualname, len(outs)))
        e = effs[0]
        tab = base.tab(table)
        if e.kind == 'delete':
            key, removed = list(e.data['key']), z3.And(tab.has(e.data['key']), e.data['guard'])
        else:
            key, removed = list(e.data['kvars']), e.data['affected']
        kd = dict(zip(tab.pk, key))
        box['n_delete'] += 1
        eng.oblige(_assume_all(st, is_result_row), spec_name, z3.Implies(removed, row_spec(base, kd)))
        box.setdefault('reach', []).append(z3.And(*st.pc, *is_result_row, removed))
        if canary is not None:
            box.setdefault('canary', []).append(z3.And(*st.pc, *is_result_row, removed, z3.Not(canary(base, kd))))
        return None

    c = Contract(
        path=DRV,
        qualname=qualname,
        types={'db': 'U'},
        calls={'.execute_and_fetchall': fetchall, '.just_execute': just_execute},
        loops={0: LoopSpec(index='ti', invariants=[])},
        raises={'*': True},
        ensures=[],
    )
    eng = pyvc.Engine(ctx, c)
    loops = eng._loops_preorder(eng.fn)
    if len(loops) != 1 or not isinstance(loops[0].target, pyast.Name):
        raise core.Undecided('anchor-moved: %s is no longer one loop over the targets' % qualname)
    box['loop_var'] = loops[0].target.id
    eng.run()
    ctx.add(core.decided('%s/one-target-query-and-one-delete-per-target' % eng.label, box['n_select'] == 1 and box['n_delete'] >= 1, repr({k: v for k, v in box.items() if k.startswith('n_')}), kind='vacuity'))
    ctx.add(core.satisfiable('%s/vacuity/%s' % (eng.label, vac_name), z3.Or(*box['reach']) if box.get('reach') else z3.BoolVal(False)))
    if canary is not None:
        ctx.add(core.satisfiable('%s/canary/%s' % (eng.label, canary_name), z3.Or(*box['canary']) if box.get('canary') else z3.BoolVal(False), kind='canary'))
    return eng


def _assume_all(st, conds):
    s2 = st.fork()
    for c in conds:
        s2.assume(c)
    return s2


def _committed(db, kd):
    """the update (batch_id, update_id) of the row is committed (the primary key of batch_updates carries the two start ids too)"""
    bu = db.tab('batch_updates')
    free = [z3.Const(sqlvc.fresh('bu_' + c), bu.ksorts[i]) for i, c in enumerate(bu.pk) if c not in ('batch_id', 'update_id')]
    it = iter(free)
    k = [kd[c] if c in ('batch_id', 'update_id') else next(it) for c in bu.pk]
    c = bu.get(k, 'committed')
    body = z3.And(bu.has(k), z3.Not(c.n), c.v != 0)
    return z3.Exists(free, body) if free else body


def cleanup_loops(ctx):
    _cleanup_contract(
        ctx, 'delete_prev_cancelled_job_group_cancellable_resources_records', CR, ['batch_id', 'update_id', 'job_group_id'],
        lambda db, kd: SP.grp_cancelled(db, kd['batch_id'], kd['job_group_id']),
        'deletes-only-rows-of-groups-cancelled-themselves-or-through-an-ancestor', 'some-row-of-a-cancelled-group-is-deleted',
        canary=lambda db, kd: db.tab('job_groups_cancelled').has([kd['batch_id'], kd['job_group_id']]), canary_name='rows-of-groups-cancelled-only-through-an-ancestor-are-deleted-too')
    _cleanup_contract(
        ctx, 'delete_committed_job_groups_inst_coll_staging_records', STG, ['batch_id', 'update_id', 'job_group_id'],
        _committed, 'deletes-only-staging-rows-of-committed-updates', 'some-row-of-a-committed-update-is-deleted',
        canary=lambda db, kd: kd['job_group_id'] == 0, canary_name='rows-of-non-root-groups-are-deleted-too')
    ctx.assume('the cleanup loops run the target query and each DELETE as separate autocommit statements: the obligations are stated against the database the query saw and rely on monotonicity (a cancelled group stays cancelled, a committed update stays committed: closed-world/* obligations)')


# ---------------------------------------------------------------------------------------------------------------------------
# _create_jobs.insert_jobs_into_db: the transaction of one bunch

ICR_T = pyvc.rec_type(n_jobs='int', n_ready_jobs='int', ready_cores_mcpu='int', n_ready_cancellable_jobs='int', ready_cancellable_cores_mcpu='int')
ICR_DICT_T = ('dict', ('tuple', ('int', 'int')), ICR_T)
FANOUT = {  # counter table -> the entry totals it must receive (column == same-named total of the dictionary entry)
    STG: ['n_jobs', 'n_ready_jobs', 'ready_cores_mcpu'],
    CR: ['n_ready_cancellable_jobs', 'ready_cancellable_cores_mcpu'],
}


def _fanout_obligations(eng, st, stn, tname, rows):
    """INSERT INTO <counter table> ... SELECT %s.., ancestor_id, .. FROM job_group_self_and_ancestors WHERE .. executed once per
    tuple of `rows` (execute_many).  `rows` must be the list built from inst_coll_resources.items(); tuple I of it belongs to
    entry I = ((group, inst_coll), totals) of the dictionary."""
    ctx = eng.ctx
    d = st.env.get('inst_coll_resources')
    if not isinstance(d, pyvc.SDict) or not isinstance(rows, SList) or not (isinstance(rows.et, tuple) and rows.et[0] == 'tuple'):
        raise core.Undecided('%s: the rows written to %s are not a list of tuples' % (eng.label, tname))
    if len(rows.et[1]) != _n_params(stn):
        raise core.Undecided('%s: %s rows have %d fields for %d placeholders' % (eng.label, tname, len(rows.et[1]), _n_params(stn)))
    eng.oblige(st, '%s/one-row-per-(group, inst_coll)-entry' % tname, rows.len == d.items.len)
    I = z3.Int(pyvc.fresh_name('entry_i'))
    s1 = _assume_all(st, [I >= 0, I < rows.len])
    row = pyvc.from_z3(z3.simplify(z3.Select(rows.arr, I)), rows.et)
    (grp, ic), tot = pyvc.from_z3(z3.Select(d.items.arr, I), ('tuple', (d.kt, d.vt)))
    ex = sqlvc.Exec(inline_after=False)
    sqlst = ex.new_state()
    for t in (tname, 'job_group_self_and_ancestors'):
        sqlst.db.tab(t)
    base = sqlst.db.fork()
    _bind_params(sqlst, [z3.simplify(x) if isinstance(x, z3.ExprRef) else x for x in row])
    outs = ex.exec_stmt(stn, sqlst)
    ups = [e for s in outs for e in s.effects if e.kind == 'upsert-select']
    if len(outs) != 1 or len(ups) != 1:
        ctx.add(core.decided('%s/%s/is-an-additive-upsert' % (eng.label, tname), False, '; '.join(ex.notes)[:300], kind='scan'))
        return
    e = ups[0].data
    key, vals = e['key'], e['values']
    b, u, tok = st.env['batch_id'], st.env['update_id'], st.env['rand_token']
    jgsa = base.tab('job_group_self_and_ancestors')
    a = key['job_group_id']
    eng.oblige(_assume_all(s1, [e['cond']]), '%s/rows-only-for-the-ancestors-of-the-entrys-group' % tname, z3.And(z3.Not(a.n), jgsa.has([b, grp, a.v])))
    anc = z3.Int(pyvc.fresh_name('anc_any'))
    subst = [(k, anc) for k in e['kvars'] if z3.is_int(k)]
    eng.ctx.add(core.decided('%s/%s/source-rows-are-identified-by-the-ancestor-alone' % (eng.label, tname), len(subst) == 1, repr(e['kvars']), kind='scan'))
    at_anc = (lambda t: z3.substitute(t, *subst)) if subst else (lambda t: t)
    eng.oblige(_assume_all(s1, [jgsa.has([b, grp, anc])]), '%s/every-ancestor-of-the-entrys-group-gets-a-row-of-its-own' % tname, z3.And(at_anc(e['cond']), z3.Not(at_anc(a.n)), at_anc(a.v) == anc))
    eng.oblige(_assume_all(s1, [e['cond']]), '%s/key-is-(batch, update, ancestor, inst_coll, token)' % tname,
               z3.And(*[z3.Not(key[c].n) for c in key], key['batch_id'].v == b, key['update_id'].v == u, key['inst_coll'].v == ic, key['token'].v == tok))
    want = FANOUT[tname]
    ctx.add(core.decided('%s/%s/writes-and-updates-exactly-its-counter-columns' % (eng.label, tname), sorted(c for c in vals if c not in key) == sorted(want) and sorted(e['updated_cols']) == sorted(want), 'inserted=%r updated=%r' % (sorted(vals), sorted(e['updated_cols'])), kind='scan'))
    for col in want:
        if col in vals:
            eng.oblige(_assume_all(s1, [e['cond']]), '%s/adds-the-entrys-own-%s' % (tname, col), z3.And(z3.Not(vals[col].n), vals[col].v == tot.fields[col]))
    for col, goal in e['additivity_goals']:
        eng.oblige(_assume_all(s1, [e['cond']]), '%s/additive/%s' % (tname, col), goal)


def insert_jobs_contract(ctx):
    box = {'tables': []}

    def fail_alt(node, name='statement-fails'):
        return (name, None, 'raise', SExc(term=z3.Const(pyvc.fresh_name('db_exc'), pyvc.U)), None)

    def execute(eng, st, args, kw, node):
        sql = _sql_text(args[1] if len(args) > 1 else None, node)
        stn = sqlparse.parse_statement(sql)
        if not isinstance(stn, A.Insert):
            raise core.Undecided('%s: unexpected statement %s' % (eng.label, type(stn).__name__))
        tname = stn.table if isinstance(stn.table, str) else stn.table.name
        box['tables'].append(tname)
        if tname == 'jobs':
            if stn.on_duplicate or stn.ignore:
                raise core.Undecided('%s: the jobs INSERT no longer fails on a duplicate key' % eng.label)
            eng.oblige(st, 'the-jobs-insert-is-attempted-once', st.env['n_jobs_inserts'] == 0)
            st.env['n_jobs_inserts'] = st.env['n_jobs_inserts'] + 1
            code = z3.Int(pyvc.fresh_name('errno'))
            ocode = z3.Int(pyvc.fresh_name('op_errno'))
            omsg = z3.Const(pyvc.fresh_name('op_msg'), pyvc.U)
            raise Fork(node, [
                ('jobs-inserted', None, 'value', None, lambda s: s.env.__setitem__('jobs_inserted', True)),
                ('duplicate-bunch', None, 'raise', SExc('IntegrityError', args=(1062, z3.Const(pyvc.fresh_name('msg'), pyvc.U))), lambda s: s.env.__setitem__('duplicate', True)),
                ('other-integrity-error', code != 1062, 'raise', SExc('IntegrityError', args=(code, z3.Const(pyvc.fresh_name('msg'), pyvc.U))), None),
                ('operational-error', None, 'raise', SExc('OperationalError', args=(ocode, omsg)), None),
                fail_alt(node),
            ])
        if tname in COUNTER_TABLES:
            # the clause of C01: a duplicate bunch ends in a normal return (commit), so nothing may be added to a counter
            # before the jobs INSERT has shown that the bunch is new
            eng.oblige(st, 'counter-write-to-%s-only-after-the-jobs-insert-passed-the-duplicate-test' % tname, st.env['jobs_inserted'])
            st.env['n_writes_' + tname] = st.env['n_writes_' + tname] + 1
            if tname not in FANOUT:
                raise core.Undecided('%s writes %s directly' % (eng.label, tname))
            _fanout_obligations(eng, st, stn, tname, args[2] if len(args) > 2 else None)
        alts = [('statement-done', None, 'value', None, None), fail_alt(node)]
        if tname == 'job_parents':
            alts.insert(1, ('duplicate-parent', None, 'raise', SExc('IntegrityError', args=(1062, z3.Const(pyvc.fresh_name('msg'), pyvc.U))), None))
        raise Fork(node, alts)

    opaque = lambda name: (lambda eng, st, args, kw, node: z3.Const(pyvc.fresh_name(name), pyvc.U))  # noqa: E731
    c = Contract(
        path=FE,
        qualname='_create_jobs.insert_jobs_into_db',
        types={'tx': 'U'},
        extra_inputs={'batch_id': 'int', 'update_id': 'int', 'rand_token': 'int', 'bunch_start_job_id': 'int', 'inst_coll_resources': ICR_DICT_T,
                      'jobs_args': 'List[Tuple[int, int]]', 'job_parents_args': 'U', 'job_attributes_args': 'U', 'jobs_telemetry_args': 'U', 'spec_writer': 'U', 'batch_format_version': 'U'},
        requires=['len(jobs_args) > 0'],  # a key error on the jobs INSERT presupposes a row (the handlers name jobs_args[0] in their messages)
        ghost_init={'jobs_inserted': 'False', 'duplicate': 'False', 'n_jobs_inserts': '0', **{'n_writes_' + t: '0' for t in COUNTER_TABLES}},
        consts={'__exc_hierarchy__': {'IntegrityError': ['DatabaseError'], 'OperationalError': ['DatabaseError'], 'DatabaseError': ['Exception'], 'HTTPBadRequest': ['HTTPException'], 'HTTPException': ['Exception']}},
        calls={'.execute_many': execute, '.execute_update': execute, '.execute_insertone': execute, '.just_execute': execute,
               'log.info': lambda eng, st, args, kw, node: None, 'batch_format_version.has_full_spec_in_cloud': lambda eng, st, args, kw, node: z3.Bool(pyvc.fresh_name('full_spec_in_cloud')),
               'web.HTTPBadRequest': lambda eng, st, args, kw, node: SExc('HTTPBadRequest')},
        # any exception leaves the coroutine and rolls the transaction back (@transaction: C27); only a normal return commits
        raises={'*': True, 'IntegrityError': True, 'OperationalError': True, 'HTTPBadRequest': True},
        ensures=[
            ('a-re-sent-bunch-adds-nothing-to-any-counter', 'implies(not jobs_inserted, n_writes_%s == 0 and n_writes_%s == 0 and n_writes_%s == 0)' % COUNTER_TABLES),
            ('an-accepted-bunch-stages-its-totals-exactly-once', 'implies(jobs_inserted, n_writes_%s == 1 and n_writes_%s == 1 and n_writes_%s == 0)' % (STG, CR, UIR)),
            ('returns-normally-only-after-the-insert-or-on-the-duplicate-key-error', 'jobs_inserted or duplicate'),
        ],
        canaries=[('never-accepts-a-bunch', 'not jobs_inserted'), ('never-a-duplicate', 'jobs_inserted')],
    )
    eng = pyvc.Engine(ctx, c)
    eng.run()
    ctx.add(core.decided('%s/no-call-outside-the-contract' % eng.label, not [u for u in eng.unmodelled if not u.startswith('log.')], repr(eng.unmodelled), kind='frame'))
    ctx.add(core.decided('%s/both-counter-tables-are-written' % eng.label, STG in box['tables'] and CR in box['tables'] and 'jobs' in box['tables'], repr(sorted(set(box['tables']))), kind='vacuity'))
    ctx.assume('insert_jobs_into_db runs inside @transaction (commit on normal return, rollback on any exception: C27); execute_many runs its statement once per argument tuple; inst_coll names are interned to integers as in sqlvc; pymysql raises IntegrityError(1062) for a duplicate key')
    return eng


# ---------------------------------------------------------------------------------------------------------------------------
# commit_batch_update: staged ready totals of the update move into the user's live counters, once

COMMIT_MAP = {'n_ready_jobs': 'n_ready_jobs', 'ready_cores_mcpu': 'ready_cores_mcpu'}  # user counter <- staged column (root group)


def commit_transfer(ctx, ex, proc='commit_batch_update'):
    """commit_batch_update(b, p): U_ready(u, c) += sum over tokens of staging(b, p, ROOT, c).n_ready_jobs (and the core total), for
    the batch's user u and every inst_coll c - the root group's staging rows already contain every descendant group
    (fan-out of insert_jobs_into_db) - in the transaction that flips batch_updates.committed, and only if it was 0."""
    from contracts.cancel_counters import _decls, _row_key

    rt = ex.routines[proc]
    ctx.under_contract(SP.rel(rt.source_file), 'PROCEDURE ' + proc + ' (staging transfer)')
    st0 = ex.new_state()
    for t in (STG, 'batches', 'batch_updates', UIR):
        st0.db.tab(t)
    base = st0.db.fork()
    stg0, bt0 = base.tab(STG), base.tab('batches')
    reached = []
    n_transfers = 0
    for pi, s in enumerate(ex.run_procedure(proc, st0)):
        bb, pp = s.vars['in_batch_id'], s.vars['in_update_id']
        pre = [z3.Not(bb.n), z3.Not(pp.n)]
        if not sqlvc.feasible(list(s.pc) + pre, 2000):
            continue
        live = [e for e in s.effects if not e.data.get('rolled_back')]
        ups = [e for e in live if e.kind == 'upsert-select' and e.table == UIR]
        other = [e for e in live if e.table in COUNTER_TABLES and e.kind in ('insert', 'upsert', 'update', 'update-set', 'delete', 'delete-set') or (e.kind == 'upsert-select' and e.table in (CR, STG))]
        ctx.add(core.decided('%s/path%d/counters-are-written-by-the-one-transfer-only' % (proc, pi), len(ups) <= 1 and not other, repr([(e.kind, e.table, e.line) for e in ups + other]), kind='frame'))
        for e in ups:
            n_transfers += 1
            d = e.data
            pc_e = s.pc[: d['pc_len']]
            key, vals = d['key'], d['values']
            cc = s.vars['cur_update_committed']
            SP.add_valid(ctx, '%s/path%d/transfer-only-if-the-update-was-not-yet-committed' % (proc, pi), pc_e, pre, z3.Not(sqlvc.truthy(cc)))
            # the flag is set for exactly this update in the same transaction, before the transfer
            flips = [f for f in live if f.table == 'batch_updates' and f.kind in ('update', 'update-set') and 'committed' in f.data.get('assigned', []) and f.data['pc_len'] <= d['pc_len'] and s.effects.index(f) < s.effects.index(e)]
            ok_flip = len(flips) == 1
            ctx.add(core.decided('%s/path%d/transfer-follows-the-commit-flag-update-in-the-same-transaction' % (proc, pi), ok_flip, repr([(f.kind, f.line) for f in flips]), kind='scan'))
            if ok_flip and flips[0].kind == 'update-set':
                f = flips[0].data
                bu = base.tab('batch_updates')
                kd = dict(zip(bu.pk, f['kvars']))
                nv = f['new']['committed']
                SP.add_valid(ctx, '%s/path%d/the-flag-is-set-to-1-for-exactly-this-update' % (proc, pi), s.pc[: f['pc_len']], pre, z3.And(z3.Not(nv.n), nv.v == 1, z3.Implies(f['affected'], z3.And(kd['batch_id'] == bb.v, kd['update_id'] == pp.v))))
            user = bt0.get([bb.v], 'user')
            SP.add_valid(ctx, '%s/path%d/user-counters/key-is-(batch-user, inst_coll, token 0)' % (proc, pi), pc_e, pre + [d['cond']], z3.And(z3.Not(key['user'].n), key['user'].v == user.v, z3.Not(key['token'].n), key['token'].v == 0))
            for col, goal in d['additivity_goals']:
                SP.add_valid(ctx, '%s/path%d/user-counters/additive/%s' % (proc, pi, col), pc_e, pre + [d['cond']], goal)
            written = sorted(c for c in vals if c not in key)
            ctx.add(core.decided('%s/path%d/user-counters/exactly-the-ready-count-and-ready-cores-are-written' % (proc, pi), written == sorted(COMMIT_MAP) and sorted(d['updated_cols']) == sorted(COMMIT_MAP), 'inserted=%r updated=%r' % (written, sorted(d['updated_cols'])), kind='scan'))
            recs = [r for r in s.aggregates if 'symbol' in r]
            for col, scol in COMMIT_MAP.items():
                if col not in vals:
                    continue
                used = _decls(vals[col].v)
                mine = [r for r in recs if r['symbol'].decl().name() in used]
                if len(mine) != 1:
                    ctx.add(core.decided('%s/path%d/user-counters/%s/is-one-aggregate' % (proc, pi, col), False, '%d aggregates feed this column' % len(mine), kind='scan'))
                    continue
                r = mine[0]
                rk = r['kvars']
                keyt = _row_key(r['arg'].v, stg0, scol) if r['arg'] is not None else None
                ctx.add(core.decided('%s/path%d/user-counters/%s/sums-the-staged-column-%s' % (proc, pi, col, scol), keyt is not None, 'summand: %s' % (r['expr'],), kind='scan'))
                SP.add_valid(ctx, '%s/path%d/user-counters/%s/value-is-plus-the-sum' % (proc, pi, col), pc_e, pre + [d['cond']], z3.And(z3.Not(vals[col].n), vals[col].v == r['symbol']))
                if keyt is None:
                    continue
                kd = dict(zip(stg0.pk, keyt))
                gv = r['gvars']
                spec_pred = z3.And(stg0.has(keyt), kd['batch_id'] == bb.v, kd['update_id'] == pp.v, kd['job_group_id'] == 0, bt0.has([bb.v]))
                SP.add_valid(ctx, '%s/path%d/user-counters/%s/sums-only-the-root-group-rows-of-this-update' % (proc, pi, col), pc_e, pre, z3.ForAll(rk, z3.Implies(r['cond'], spec_pred)), dedupe_key='commit-rows-sub-' + col)
                if len(gv) == 2:
                    match = z3.And(gv[0] == user.v, gv[1] == kd['inst_coll'])
                    SP.add_valid(ctx, '%s/path%d/user-counters/%s/no-root-row-of-this-update-is-left-out' % (proc, pi, col), pc_e, pre + [z3.Not(user.n)], z3.ForAll(rk, z3.Implies(z3.And(spec_pred, match), r['cond'])), dedupe_key='commit-rows-sup-' + col)
                    # the group the sum is booked under is the inst_coll of the summed rows
                    SP.add_valid(ctx, '%s/path%d/user-counters/%s/booked-under-the-rows-own-inst_coll' % (proc, pi, col), pc_e, pre + [d['cond']], z3.ForAll(rk, z3.Implies(r['cond'], z3.And(key['inst_coll'].v == gv[1], kd['inst_coll'] == gv[1]))), dedupe_key='commit-ic-' + col)
                else:
                    ctx.add(core.decided('%s/path%d/user-counters/%s/grouped-by-user-and-inst_coll' % (proc, pi, col), False, repr(gv), kind='scan'))
            reached.append(z3.And(*pc_e, *pre))
    ctx.add(core.decided('%s/some-path-transfers-the-staged-totals' % proc, n_transfers >= 1, '%d' % n_transfers, kind='vacuity'))
    ctx.add(core.satisfiable('%s/vacuity/staging-transfer-reached' % proc, z3.Or(*reached) if reached else z3.BoolVal(False)))


# ---------------------------------------------------------------------------------------------------------------------------
# closed world: who writes the counter tables, and the monotone facts the cleanup loops rely on

ROUTINE_WRITERS = {'jobs_after_update', 'cancel_job_group', 'commit_batch_update', 'cancel_batch'}
PYTHON_WRITERS = {(FE, '_create_jobs.insert_jobs_into_db'), (DRV, 'delete_committed_job_groups_inst_coll_staging_records'), (DRV, 'delete_prev_cancelled_job_group_cancellable_resources_records')}
MONOTONE_TABLES = ('job_groups_cancelled', 'job_group_self_and_ancestors', 'batch_updates')


def _python_sql_strings():
    """(relative path, enclosing function qualname, lineno, normalised text) of every string constant under batch/batch"""
    import glob
    import os

    out = []
    for fp in sorted(glob.glob(os.path.join(core.REPO, 'batch', 'batch', '**', '*.py'), recursive=True)):
        try:
            tree = pyast.parse(open(fp).read())
        except SyntaxError:
            continue
        rel = os.path.relpath(fp, core.REPO)

        def rec(node, qual):
            for ch in pyast.iter_child_nodes(node):
                q = qual
                if isinstance(ch, (pyast.FunctionDef, pyast.AsyncFunctionDef, pyast.ClassDef)):
                    q = (qual + '.' if qual else '') + ch.name
                if isinstance(ch, pyast.Constant) and isinstance(ch.value, str) and len(ch.value) > 10:
                    out.append((rel, qual, ch.lineno, ' '.join(ch.value.lower().replace('`', '').split())))
                rec(ch, q)

        rec(tree, '')
    return out


def closed_world(ctx, ex):
    import re

    def tname(n):
        return n.table if isinstance(n.table, str) else n.table.name

    writers, deleters, callers, flag_sets = [], [], [], []
    for name, r in ex.routines.items():
        for n in r.body.walk():
            if isinstance(n, (A.Insert, A.Delete)) and tname(n) in COUNTER_TABLES:
                writers.append((name, type(n).__name__, tname(n), n.line))
            elif isinstance(n, A.Update):
                tabs = SP._tables_of(n.tables)
                for tg, val in n.assignments:
                    owner = tg.parts[0] if len(tg.parts) == 2 else ([t for t in tabs if t in ex.tables and tg.parts[0] in ex.tables[t].columns] or [None])[0]
                    if owner in COUNTER_TABLES:
                        writers.append((name, 'Update', owner, n.line))
                    if owner == 'batch_updates' and tg.parts[-1] == 'committed':
                        flag_sets.append((name, n.line, val.to_sql()))
            if isinstance(n, A.Delete) and tname(n) in MONOTONE_TABLES:
                deleters.append((name, tname(n), n.line))
            if isinstance(n, A.Call):
                callers.append((name, (n.name if isinstance(n.name, str) else n.name.parts[-1]).lower()))
    strings = _python_sql_strings()
    tabs_re = '|'.join(COUNTER_TABLES)
    py_writers = sorted({(rel, q) for rel, q, ln, s in strings if re.search(r'\b(insert( ignore)? into|replace into|update|delete from)\s+(%s)\b' % tabs_re, s)})
    py_deleters = [(rel, q, ln) for rel, q, ln, s in strings if re.search(r'\bdelete from\s+(%s)\b' % '|'.join(MONOTONE_TABLES), s)]
    py_flag = [(rel, q, ln) for rel, q, ln, s in strings if re.search(r'\bupdate\s+batch_updates\b', s) and re.search(r'\bcommitted\s*=', s.split(' where ')[0])]
    py_calls = [(rel, q, ln) for rel, q, ln, s in strings if re.search(r'\bcall\s+cancel_batch\b', s)]
    py_cancel = [(rel, q, ln) for rel, q, ln, s in strings if re.search(r'\bcall\s+cancel_job_group\b', s)]
    ctx.extra['counter_table_writers'] = {'routines': ['%s:%s %s@L%d' % w for w in writers], 'python': ['%s::%s' % w for w in py_writers]}
    bad_r = [w for w in writers if w[0] not in ROUTINE_WRITERS]
    bad_p = [w for w in py_writers if w not in PYTHON_WRITERS]
    ctx.add(core.decided('closed-world/every-writer-of-a-counter-table-is-under-contract', not bad_r and not bad_p and len(writers) >= 1 and len(py_writers) >= 1, 'routines=%r python=%r' % (bad_r, bad_p), kind='scan'))
    # cancel_batch (migration 119 keeps it) sums the cancellable rows of EVERY group of the batch, which counts a job of a nested group
    # once per ancestor; it is unreachable: the service cancels a batch with cancel_job_group(b, ROOT)
    dead = not py_calls and not [c for c in callers if c[1] == 'cancel_batch']
    ctx.add(core.decided('closed-world/procedure-cancel_batch-is-never-called (a batch is cancelled by cancel_job_group on its root group)', dead and len(py_cancel) >= 1, 'CALL cancel_batch at %r; CALL cancel_job_group at %d sites' % (py_calls, len(py_cancel)), kind='scan'))
    ctx.add(core.decided('closed-world/group-cancellation-ancestry-and-commit-records-are-never-deleted', not deleters and not py_deleters, repr(deleters + py_deleters), kind='scan'))
    ctx.add(core.decided('closed-world/the-commit-flag-is-only-ever-set-to-1', not py_flag and len(flag_sets) >= 1 and all(v.strip() in ('1', 'TRUE') for _, _, v in flag_sets), repr(flag_sets + py_flag), kind='scan'))
