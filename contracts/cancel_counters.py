"""Bulk counter transfer of cancel_job_group / cancel_batch (C01 layer 3, C41): pointwise obligations on the aggregates.

cancel_job_group(b, g), not yet cancelled:
  statement 1  for the batch's user u and every inst_coll c:   U_x(u, c) -= sum over COMMITTED updates p, all tokens, of G_x(b, p, g, c)
               and U_cancelled_x(u, c) += the same sum,   x in ready / running / creating (and the two core totals);
  statement 2  for every ancestor a of g (g included), every update p and inst_coll c:   G_x(b, p, a, c) -= sum over tokens of G_x(b, p, g, c).
Each SUM is recorded by sqlvc as (row predicate, summand); the obligations state that the predicate is EXACTLY the specified
row set and the summand the specified column (meta-lemma L2), and that the inserted value is -/+ that sum at the specified key.
"""
from __future__ import annotations

import z3

from contracts import sqlspec as SP
from vc import core, sqlvc

USER_MAP = {  # user counter column -> (sign, summed group column)
    'n_ready_jobs': (-1, 'n_ready_cancellable_jobs'),
    'ready_cores_mcpu': (-1, 'ready_cancellable_cores_mcpu'),
    'n_running_jobs': (-1, 'n_running_cancellable_jobs'),
    'running_cores_mcpu': (-1, 'running_cancellable_cores_mcpu'),
    'n_creating_jobs': (-1, 'n_creating_cancellable_jobs'),
    'n_cancelled_ready_jobs': (1, 'n_ready_cancellable_jobs'),
    'n_cancelled_running_jobs': (1, 'n_running_cancellable_jobs'),
    'n_cancelled_creating_jobs': (1, 'n_creating_cancellable_jobs'),
}
GROUP_COLS = ['n_ready_cancellable_jobs', 'ready_cancellable_cores_mcpu', 'n_creating_cancellable_jobs', 'n_running_cancellable_jobs', 'running_cancellable_cores_mcpu']
CR = 'job_group_inst_coll_cancellable_resources'


def _decls(term):
    out = set()
    stack = [term]
    seen = set()
    while stack:
        x = stack.pop()
        if x.get_id() in seen:
            continue
        seen.add(x.get_id())
        if z3.is_quantifier(x):
            stack.append(x.body())
            continue
        if z3.is_app(x):
            out.add(x.decl().name())
        stack.extend(x.children())
    return out


def _row_key(term, tab, col):
    """Select(tab.val[col], k...) -> key terms, else None"""
    t = z3.simplify(term)
    if z3.is_select(t) and t.arg(0).eq(tab.val[col]):
        return [t.arg(i) for i in range(1, t.num_args())]
    return None


def analyze(ctx, ex, proc, only_committed_clause=False):
    rt = ex.routines[proc]
    ctx.under_contract(SP.rel(rt.source_file), 'PROCEDURE ' + proc)
    st0 = ex.new_state()
    for t in (CR, 'batches', 'batch_updates', 'job_group_self_and_ancestors', 'job_groups_cancelled', 'user_inst_coll_resources'):
        st0.db.tab(t)
    base = st0.db.fork()
    outs = ex.run_procedure(proc, st0)
    cr0, bu0, bt0, jgsa0 = base.tab(CR), base.tab('batch_updates'), base.tab('batches'), base.tab('job_group_self_and_ancestors')
    reached = []
    for pi, s in enumerate(outs):
        bb = s.vars['in_batch_id']
        gg = s.vars['in_job_group_id'].v if 'in_job_group_id' in s.vars else z3.IntVal(0)
        pre = [z3.Not(bb.n)] + ([z3.Not(s.vars['in_job_group_id'].n)] if 'in_job_group_id' in s.vars else [])
        if not sqlvc.feasible(list(s.pc) + pre, 2000):
            continue
        ups = [e for e in s.effects if e.kind == 'upsert-select' and not e.data.get('rolled_back')]
        for e in ups:
            d = e.data
            pc_e = s.pc[: d['pc_len']]
            recs = [r for r in s.aggregates if 'symbol' in r]
            if e.table == 'user_inst_coll_resources':
                key, vals = d['key'], d['values']
                if not only_committed_clause:
                    # (wave 4) C01's own statement of the guard: the totals of a group that is already cancelled - itself or through
                    # an ancestor - were moved by that earlier cancellation; its rows are stale and must not be moved again
                    SP.add_valid(ctx, '%s/path%d/user-counters/moved-only-if-the-group-is-not-already-cancelled-itself-or-through-an-ancestor' % (proc, pi), pc_e, pre, z3.Not(SP.grp_cancelled(base, bb.v, gg)))
                    user = bt0.get([bb.v], 'user')
                    SP.add_valid(ctx, '%s/path%d/user-counters/key-is-(batch-user, inst_coll, token 0)' % (proc, pi), pc_e, pre + [d['cond']], z3.And(key['user'].v == user.v, z3.Not(key['user'].n), key['token'].v == 0))
                    for col, goal in d['additivity_goals']:
                        SP.add_valid(ctx, '%s/path%d/user-counters/additive/%s' % (proc, pi, col), pc_e, pre + [d['cond']], goal)
                    ctx.add(core.decided('%s/path%d/user-counters/all-eight-columns-written' % (proc, pi), sorted(c for c in vals if c in USER_MAP) == sorted(USER_MAP) and sorted(d['updated_cols']) == sorted(USER_MAP), repr(sorted(vals)), kind='scan'))
                for col, (sign, gcol) in USER_MAP.items():
                    if col not in vals:
                        continue
                    used = _decls(vals[col].v)
                    mine = [r for r in recs if r['symbol'].decl().name() in used]
                    if len(mine) != 1:
                        ctx.add(core.decided('%s/path%d/user-counters/%s/is-one-aggregate' % (proc, pi, col), False, '%d aggregates feed this column' % len(mine), kind='scan'))
                        continue
                    r = mine[0]
                    rk = r['kvars']
                    keyt = _row_key(r['arg'].v, cr0, gcol) if r['arg'] is not None else None
                    if not only_committed_clause:
                        ctx.add(core.decided('%s/path%d/user-counters/%s/sums-column-%s' % (proc, pi, col, gcol), keyt is not None, 'summand: %s' % (r['expr'],), kind='scan'))
                        SP.add_valid(ctx, '%s/path%d/user-counters/%s/value-is-%s-the-sum' % (proc, pi, col, 'minus' if sign < 0 else 'plus'), pc_e, pre + [d['cond']], z3.And(z3.Not(vals[col].n), vals[col].v == sign * r['symbol']))
                    if keyt is None:
                        continue
                    kd = dict(zip(cr0.pk, keyt))
                    # the joined batch_updates row: its free key columns are among rk
                    bu_free = [k for k in rk if 'batch_updates' in str(k)]
                    bu_key = [bb.v, kd['update_id']] + bu_free
                    if len(bu_key) != len(bu0.pk):
                        ctx.add(core.decided('%s/path%d/user-counters/%s/joined-with-the-update-row' % (proc, pi, col), False, 'batch_updates is not inner-joined on (batch_id, update_id)', kind='scan'))
                        continue
                    comm = bu0.get(bu_key, 'committed')
                    committed = z3.And(bu0.has(bu_key), z3.Not(comm.n), comm.v != 0)
                    # rows summed  ==>  they belong to a committed update  (C41: uncommitted updates are never subtracted)
                    SP.add_valid(ctx, '%s/path%d/user-counters/%s/only-committed-updates-are-transferred' % (proc, pi, col), pc_e, pre, z3.ForAll(rk, z3.Implies(r['cond'], committed)), dedupe_key='committed-' + col)
                    if only_committed_clause:
                        continue
                    gv = r['gvars']
                    inst = [g for g in gv if g.sort() == z3.IntSort()]
                    spec_pred = z3.And(cr0.has(keyt), kd['batch_id'] == bb.v, kd['job_group_id'] == gg, committed, bt0.has([bb.v]))
                    SP.add_valid(ctx, '%s/path%d/user-counters/%s/sums-exactly-the-cancelled-groups-rows-of-committed-updates' % (proc, pi, col), pc_e, pre, z3.ForAll(rk, z3.Implies(z3.And(*[z3.Or(g.eq(kd['inst_coll']), True) for g in gv]), z3.Implies(r['cond'], spec_pred))), dedupe_key='rows-sub-' + col)
                    # converse: every such row of the group's inst_coll is summed
                    grp_eq = z3.And(*[z3.Or(*[g == t for t in (kd['inst_coll'], bt0.get([bb.v], 'user').v)]) for g in gv])
                    SP.add_valid(ctx, '%s/path%d/user-counters/%s/no-row-of-the-group-is-left-out' % (proc, pi, col), pc_e, pre + [bt0.has([bb.v]), z3.Not(bt0.get([bb.v], 'user').n)], z3.ForAll(rk, z3.Implies(z3.And(spec_pred, _group_match(r, kd, bt0, bb)), r['cond'])), dedupe_key='rows-sup-' + col)
                reached.append(z3.And(*pc_e, *pre))
            elif e.table == CR and not only_committed_clause:
                key, vals = d['key'], d['values']
                for col, goal in d['additivity_goals']:
                    SP.add_valid(ctx, '%s/path%d/group-counters/additive/%s' % (proc, pi, col), pc_e, pre + [d['cond']], goal)
                ctx.add(core.decided('%s/path%d/group-counters/all-five-columns-written' % (proc, pi), sorted(c for c in vals if c in GROUP_COLS) == sorted(GROUP_COLS) and sorted(d['updated_cols']) == sorted(GROUP_COLS), repr(sorted(vals)), kind='scan'))
                anc = key['job_group_id'].v
                SP.add_valid(ctx, '%s/path%d/group-counters/rows-only-for-ancestors-of-the-cancelled-group' % (proc, pi), pc_e, pre + [d['cond']], z3.And(key['batch_id'].v == bb.v, jgsa0.has([bb.v, gg, anc]), key['token'].v == 0))
                a_any = z3.Int('anc_any')
                for col in GROUP_COLS:
                    if col not in vals:
                        continue
                    used = _decls(vals[col].v)
                    mine = [r for r in recs if r['symbol'].decl().name() in used]
                    if len(mine) != 1:
                        ctx.add(core.decided('%s/path%d/group-counters/%s/is-one-aggregate' % (proc, pi, col), False, '%d aggregates' % len(mine), kind='scan'))
                        continue
                    r = mine[0]
                    rk = r['kvars']
                    keyt = _row_key(r['arg'].v, cr0, col) if r['arg'] is not None else None
                    ctx.add(core.decided('%s/path%d/group-counters/%s/sums-the-same-column' % (proc, pi, col), keyt is not None, r['expr'], kind='scan'))
                    if keyt is None:
                        continue
                    kd = dict(zip(cr0.pk, keyt))
                    SP.add_valid(ctx, '%s/path%d/group-counters/%s/value-is-minus-the-sum' % (proc, pi, col), pc_e, pre + [d['cond']], z3.And(z3.Not(vals[col].n), vals[col].v == -r['symbol']))
                    gv = r['gvars']
                    spec_pred = z3.And(cr0.has(keyt), kd['batch_id'] == bb.v, kd['job_group_id'] == gg, kd['update_id'] == key['update_id'].v, kd['inst_coll'] == key['inst_coll'].v)
                    # the sum subtracted from ancestor a at (update, inst_coll) is the CANCELLED group's total at (update, inst_coll)
                    SP.add_valid(ctx, '%s/path%d/group-counters/%s/subtracts-the-cancelled-groups-own-total' % (proc, pi, col), pc_e, pre + [d['cond']], z3.ForAll(rk, r['cond'] == spec_pred), dedupe_key='grp-rows-' + col)
    ctx.add(core.satisfiable('%s/vacuity/transfer-reached' % proc, z3.Or(*reached) if reached else z3.BoolVal(False)))


def _group_match(r, kd, bt0, bb):
    """the group variables of the aggregate equal the row's inst_coll and the batch user"""
    gv = r['gvars']
    conds = []
    for g in gv:
        conds.append(z3.Or(g == kd['inst_coll'], g == bt0.get([bb.v], 'user').v))
    # exactly: one group variable is the user, the other the inst_coll (GROUP BY user, inst_coll)
    if len(gv) == 2:
        return z3.And(gv[0] == bt0.get([bb.v], 'user').v, gv[1] == kd['inst_coll'])
    return z3.And(*conds)
