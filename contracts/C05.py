"""C05 - dependencies gate readiness; failed parents cancel children.

Invariant N (committed Pending job c): n_pending_parents(c) = number of non-terminal parents; cancelled(c) = 1 if some terminal
parent did not succeed;  N': every child of a non-terminal parent is Pending.
Obligations, for all rows/arguments, on the real effective SQL and the real Python:
 * children statement of mark_job_complete (set-oriented UPDATE of jobs): it touches exactly the children of the completing
   job in its batch (edge (child, in_job_id) in job_parents); n' = n - 1; state' = Ready iff n = 1, else Pending;
   cancelled' = cancelled if new_state = 'Success' else 1; it is executed only on the paths where the parent itself moves from
   a non-terminal to a terminal state.  With the parent counted exactly once (C04) this preserves N by sum localisation (L1),
   and state' = Ready implies that no non-terminal parent is left.
 * recompute statement of commit_batch_update (updates other than the first): it touches exactly the jobs of the update's id
   range; its three aggregates are shown pointwise (L2) to range over exactly the edges of the job and to count all parents /
   the non-terminal parents / the succeeded parents; n' = #non-terminal parents; state' = Ready iff that is 0 else Pending;
   cancelled' = 1 iff some terminal parent did not succeed, else unchanged.
 * _create_jobs (Python): a job starts Ready only in the first update and without parents, n_pending_parents = number of
   parents, one job_parents row per parent - ONE fragment from the counter record to the job_parents loop (wave 4; the two
   fragments of contracts/create_jobs_frag.py could not see a value computed between them), the stored row is what is judged.
 * which jobs are the parents (wave 4): validate.handle_job_backwards_compatibility maps the legacy `parent_ids` key to
   `absolute_parent_ids` and never touches `in_update_parent_ids` (whole function, all dict shapes); every job of a bunch
   passes through it; _create_jobs reads the two keys by name and parent_ids = absolute ids + shifted in-update ids.
 * the canceller (wave 4, contracts/canceller_sel.py): the three selection generators of driver/canceller.py are executed on
   the real AST, their embedded SQL bound row-wise by sqlvc: a yielded (= cancelled) job is in the loop's state, NEVER
   always-run, and marked (cancelled flag or cancelled group/ancestor); the job completed as Cancelled is the job selected.
 * first reads of mark_job_complete / commit_batch_update take row locks (backs the atomicity assumption).
The scheduler-side guard (a cancelled, not always-run job is not started) is C07 (guards on is_job_cancelled).
"""
from __future__ import annotations

import z3

from contracts import canceller_sel, create_jobs_frag, sqlspec as SP
from vc import core, pyvc, sqlvc
from vc.sqlvc import intern

NONTERMINAL = ['Pending', 'Ready', 'Creating', 'Running']


def _decls(term):
    out = set()
    stack = [term]
    seen = set()
    while stack:
        x = stack.pop()
        if x.get_id() in seen:
            continue
        seen.add(x.get_id())
        if z3.is_quantifier(x):
            stack.append(x.body())
            continue
        if z3.is_app(x):
            out.add(x.decl().name())
        stack.extend(x.children())
    return out


# ---------------------------------------------------------------------------------------------
# _create_jobs: ONE fragment from the counter record to the job_parents loop (wave 4).  The two fragments of
# contracts/create_jobs_frag.py treat `state` (fragment B) as an input and stop at fixed statements; a value computed
# between them and stored in the jobs row (n_pending_parents, state) was out of reach.  Here everything from
# `icr = inst_coll_resources[...]` to the `for parent_id in parent_ids` loop is executed, so whatever the code stores is
# compared with len(parent_ids) / the Ready rule, however it is computed.

FE = 'batch/batch/front_end/front_end.py'


def _spec_get(eng, st, args, kw, node):
    """spec.get(<key>): an arbitrary value of the shape the job schema gives that key (only guards of rejections read it)"""
    key = args[0] if args and isinstance(args[0], str) else None
    if key == 'unconfined':
        return z3.Bool(pyvc.fresh_name('spec_unconfined'))
    return z3.String(pyvc.fresh_name('spec_' + (key or 'value')))


def create_jobs_contract():
    F = create_jobs_frag
    ens = [
        ('ready-iff-first-update-and-no-parents', "(state == 'Ready') == (update_id == 1 and len(parent_ids) == 0)"),
        ('otherwise-pending', "state == 'Ready' or (state == 'Pending' and time_ready is None)"),
        ('jobs-row-appended', "len(jobs_args) == len(old_jobs_args) + 1 and forall(lambda i: implies(0 <= i < len(old_jobs_args), jobs_args[i] == old_jobs_args[i]))"),
        ('the-stored-row-is-this-job-with-the-state-just-decided', "jobs_args[len(jobs_args) - 1][0] == batch_id and jobs_args[len(jobs_args) - 1][1] == job_id and jobs_args[len(jobs_args) - 1][2] == update_id and jobs_args[len(jobs_args) - 1][4] == state and jobs_args[len(jobs_args) - 1][6] == always_run"),
        ('stored-ready-only-in-the-first-update-without-parents', "(jobs_args[len(jobs_args) - 1][4] == 'Ready') == (update_id == 1 and len(parent_ids) == 0) and (jobs_args[len(jobs_args) - 1][4] == 'Ready' or jobs_args[len(jobs_args) - 1][4] == 'Pending')"),
        ('n_pending_parents-is-the-number-of-parents', "jobs_args[len(jobs_args) - 1][8] == len(parent_ids)"),
        ('one-parent-row-per-parent-in-order', "len(job_parents_args) == len(old_job_parents_args) + len(parent_ids) and forall(lambda i: implies(0 <= i < len(parent_ids), job_parents_args[len(old_job_parents_args) + i][0] == batch_id and job_parents_args[len(old_job_parents_args) + i][1] == job_id and job_parents_args[len(old_job_parents_args) + i][2] == parent_ids[i]))"),
        ('earlier-parent-rows-untouched', "forall(lambda i: implies(0 <= i < len(old_job_parents_args), job_parents_args[i] == old_job_parents_args[i]))"),
    ]
    inv = [
        ('rows-so-far', "0 <= k and k <= len(parent_ids) and len(job_parents_args) == len(old_job_parents_args) + k"),
        ('new-rows', "forall(lambda i: implies(0 <= i < k, job_parents_args[len(old_job_parents_args) + i][0] == batch_id and job_parents_args[len(old_job_parents_args) + i][1] == job_id and job_parents_args[len(old_job_parents_args) + i][2] == parent_ids[i]))"),
        ('old-rows', "forall(lambda i: implies(0 <= i < len(old_job_parents_args), job_parents_args[i] == old_job_parents_args[i]))"),
    ]

    def setup(eng, st):
        F._setup_a(eng, st)
        st.env['old_jobs_args'] = st.env['jobs_args']
        st.env['old_job_parents_args'] = st.env['job_parents_args']

    fresh_u = lambda base: (lambda eng, st, args, kw, node: z3.Const(pyvc.fresh_name(base), pyvc.U))
    return pyvc.Contract(
        path=FE,
        qualname='_create_jobs',
        label='_create_jobs[dependency-rows]',
        fragment=(r"re:^icr = inst_coll_resources\[", r"re:^for parent_id in "),
        extra_inputs={
            'batch_id': 'U', 'job_id': 'int', 'update_id': 'int', 'job_group_id': 'int', 'always_run': 'bool', 'cores_mcpu': 'int', 'user': 'str',
            'parent_ids': 'List[int]', 'in_update_parent_ids': 'List[int]', 'absolute_parent_ids': 'List[int]', 'update_start_job_id': 'int',
            'inst_coll_name': 'U', 'n_regions': 'int', 'regions_bits_rep': 'U', 'n_max_attempts': 'U',
            'jobs_args': 'List[%s]' % F.JOBS_ROW, 'job_parents_args': 'List[Tuple[U, int, int]]', 'jobs_telemetry_args': 'List[Tuple[U, int, U]]',
        },
        setup=setup,
        types={'state': 'str'},
        consts={'inst_coll_resources': pyvc.SDotted('inst_coll_resources'), 'spec': pyvc.SDotted('spec')},
        calls={
            'time_msecs': fresh_u('now'),
            'json.dumps': fresh_u('json'),
            'spec.get': _spec_get,
            'spec_writer.add': lambda eng, st, args, kw, node: None,
            'batch_format_version.db_spec': fresh_u('db_spec'),
        },
        raises={'HTTPBadRequest': True},
        loops={'re:^for parent_id in ': pyvc.LoopSpec(index='k', invariants=inv)},
        ensures=ens,
        canaries=[('always-pending', "state == 'Pending'"), ('no-parent-rows', "len(job_parents_args) == len(old_job_parents_args)")],
    )


# the same statements run natively (real AST of the scratch/real repository, /venv/bin/python): enumerated inputs, the rows
# handed to the INSERTs are compared with the rule of the property
REPLAY_CREATE = r'''
import sys, json, os, ast, re
src = open(os.path.join(os.environ['VERIF_REPO'], 'batch/batch/front_end/front_end.py')).read()
fn = [n for n in ast.walk(ast.parse(src)) if isinstance(n, ast.AsyncFunctionDef) and n.name == '_create_jobs'][0]
loop = [n for n in fn.body if isinstance(n, ast.For) and ast.unparse(n.iter) == 'job_specs'][0]
stmts = []; take = False
for st in loop.body:
    t = ast.unparse(st)
    if re.match(r'^icr = inst_coll_resources\[', t): take = True
    if take:
        stmts.append(st)
        if isinstance(st, ast.For) and ast.unparse(st.target) == 'parent_id': break
if not stmts or not isinstance(stmts[-1], ast.For):
    print(json.dumps({'confirmed': False, 'error': 'fragment not found'})); sys.exit(0)
class J:
    @staticmethod
    def dumps(x): return 'json'
class W:
    def add(self, x): pass
class V:
    def db_spec(self, s): return {}
class BadRequest(Exception): pass
class web:
    @staticmethod
    def HTTPBadRequest(reason=None): return BadRequest(reason)
import collections
res = {'confirmed': False, 'tried': 0}
for update_id, start in ((1, 1), (2, 5), (3, 9)):
    for absolute in ([], [1], [1, 2]):
        for in_update in ([], [1], [1, 2]):
          for always_run in (False, True):
            if update_id == 1 and absolute: continue
            parent_ids = list(absolute) + [start + p - 1 for p in in_update]
            icrs = collections.defaultdict(lambda: {'n_jobs': 0, 'n_ready_jobs': 0, 'ready_cores_mcpu': 0, 'n_ready_cancellable_jobs': 0, 'ready_cancellable_cores_mcpu': 0})
            env = {'batch_id': 7, 'job_id': start + 3, 'update_id': update_id, 'job_group_id': 0, 'always_run': always_run, 'cores_mcpu': 1000, 'user': 'u', 'parent_ids': list(parent_ids),
                   'in_update_parent_ids': list(in_update), 'absolute_parent_ids': list(absolute), 'update_start_job_id': start, 'inst_coll_name': 'standard', 'n_regions': None,
                   'regions_bits_rep': None, 'n_max_attempts': 20, 'jobs_args': [], 'job_parents_args': [], 'jobs_telemetry_args': [], 'json': J, 'spec': {}, 'spec_writer': W(),
                   'batch_format_version': V(), 'web': web, 'inst_coll_resources': icrs, 'time_msecs': lambda: 1}
            exec(compile(ast.Module(body=stmts, type_ignores=[]), 'front_end-fragment', 'exec'), env)
            res['tried'] += 1
            rows = env['job_parents_args']; jr = env['jobs_args'][-1]
            problems = []
            if rows != [(7, start + 3, p) for p in parent_ids]: problems.append('job_parents rows %r for parents %r' % (rows, parent_ids))
            if jr[8] != len(parent_ids): problems.append('n_pending_parents stored as %r for %d parents (update %d): a parent of an earlier update that is still running is not waited for / counted twice' % (jr[8], len(parent_ids), update_id))
            if (jr[4] == 'Ready') != (update_id == 1 and not parent_ids) or jr[4] not in ('Ready', 'Pending'): problems.append('state %r for update %d with parents %r' % (jr[4], update_id, parent_ids))
            if problems:
                res = {'confirmed': True, 'what': '_create_jobs row fragment', 'input': {'update_id': update_id, 'update_start_job_id': start, 'absolute_parent_ids': absolute, 'in_update_parent_ids': in_update, 'always_run': always_run}, 'problems': problems}
                print(json.dumps(res)); sys.exit(0)
print(json.dumps(res))
'''


def _create_jobs(ctx):
    eng = pyvc.Engine(ctx, create_jobs_contract())
    create_jobs_frag._subscript_icr(eng)
    eng.replayer = lambda model, obl: core.run_native(REPLAY_CREATE, {})
    _guarded(eng)
    ctx.assume('_create_jobs is verified on one fragment of its per-job loop body (counter record .. job_parents loop); the variables it reads are arbitrary symbolic inputs, spec.get() results are arbitrary, everything outside the fragment is dropped')


def _guarded(eng):
    """run a pyvc engine; an internal exception of the executor on code it was not written for (an unbound name reaching a
    z3 cast, ...) is `contracts no longer apply` (undecided -> native witness search), not a checker crash"""
    try:
        eng.run()
    except (core.Undecided, core.CheckerBug):
        raise
    except Exception as e:  # noqa: BLE001
        raise core.Undecided('%s: the symbolic executor failed on this code (%s: %s)' % (eng.label, type(e).__name__, str(e)[:120]))


# ---------------------------------------------------------------------------------------------
# which jobs are the parents: the path of a parent id from the request to the job_parents row (wave 4)
#   validate.handle_job_backwards_compatibility: the legacy key `parent_ids` (the job API before updates existed, where a job id
#   was its id in the batch) names BATCH job ids: it must arrive in `absolute_parent_ids`, never in `in_update_parent_ids`
#   (which _create_jobs shifts by the start of the update - the dependency would be recorded on another job, and the job
#   would not wait for the parent it named);  validate_and_clean_jobs applies it to every job;  _create_jobs reads exactly
#   these two keys and parent_ids = absolute ids followed by the shifted in-update ids.

VAL = 'batch/batch/front_end/validate.py'


def _same_entry(key):
    return "('%s' in job) == ('%s' in old(job)) and implies('%s' in job, job['%s'] == old(job)['%s'])" % ((key,) * 5)


def compat_contract():
    def pop(eng, st, args, kw, node):
        """dict.pop(key) on the job dict: the value under the key (KeyError obligation if it may be absent), key removed"""
        recv = args[0]
        if not isinstance(recv, pyvc.SMap) or len(args) != 2 or kw:
            raise core.Undecided('L%d: .pop() on %r' % (node.lineno, recv))
        v = eng.index(recv, args[1], st, node)
        eng.assign(node.func.value, pyvc.SMap(z3.Store(recv.has, pyvc.to_z3(args[1], recv.kt), False), recv.val, recv.size - 1, recv.kt, recv.vt), st)
        return v

    return pyvc.Contract(
        path=VAL,
        qualname='handle_job_backwards_compatibility',
        types={'job': 'Map[str, U]'},
        calls={'.pop': pop},
        consts={'ROOT_JOB_GROUP_ID': z3.Const('ROOT_JOB_GROUP_ID', pyvc.U)},
        ensures=[
            ('legacy-parent_ids-are-job-ids-of-the-batch-and-stay-absolute', "implies('parent_ids' in old(job), 'absolute_parent_ids' in job and job['absolute_parent_ids'] == old(job)['parent_ids'])"),
            ('legacy-key-is-consumed', "'parent_ids' not in job"),
            ('in-update-parent-ids-are-never-rewritten', _same_entry('in_update_parent_ids')),
            ('absolute-parent-ids-untouched-without-the-legacy-key', "implies('parent_ids' not in old(job), %s)" % _same_entry('absolute_parent_ids')),
            ('the-job-id-is-not-rewritten', _same_entry('job_id')),
        ],
        canaries=[('never-any-absolute-parents', "'absolute_parent_ids' not in job")],
    )


def _opaque_items(eng):
    """values of the job dict are opaque (U): Python constants stored into it are boxed, and a nested dict (job['process']) is
    an opaque object whose items are uninterpreted - its contents are no part of what is claimed here"""
    U = pyvc.U
    orig_store, orig_index, orig_contains = eng.store, eng.index, eng.contains

    def box(v):
        if isinstance(v, z3.ExprRef) and v.sort() == U:
            return v
        if isinstance(v, bool) or v is None:
            return z3.Const('py_%s' % v, U)
        return z3.Const(pyvc.fresh_name('boxed'), U)

    def store(cont, idx, v, st, node):
        if isinstance(cont, z3.ExprRef) and cont.sort() == U:
            return cont
        if isinstance(cont, pyvc.SMap) and cont.vt == 'U':
            v = box(v)
        return orig_store(cont, idx, v, st, node)

    def index(cont, idx, st, node=None):
        if isinstance(cont, z3.ExprRef) and cont.sort() == U and isinstance(idx, str):
            return eng.uf('item_' + idx, ['U'], 'U')(cont)
        return orig_index(cont, idx, st, node)

    def contains(cont, x, st):
        if isinstance(cont, z3.ExprRef) and cont.sort() == U and isinstance(x, str):
            return eng.uf('has_item_' + x, ['U'], 'bool')(cont)
        return orig_contains(cont, x, st)

    eng.store, eng.index, eng.contains = store, index, contains


REPLAY_COMPAT = r'''
import sys, json, os, ast
src = open(os.path.join(os.environ['VERIF_REPO'], 'batch/batch/front_end/validate.py')).read()
fn = [n for n in ast.parse(src).body if isinstance(n, ast.FunctionDef) and n.name == 'handle_job_backwards_compatibility'][0]
env = {'ROOT_JOB_GROUP_ID': 0}
exec(compile(ast.Module(body=[fn], type_ignores=[]), 'validate-fragment', 'exec'), env)
f = env['handle_job_backwards_compatibility']
res = {'confirmed': False}
for job in ({'job_id': 3, 'parent_ids': [1]}, {'job_id': 3, 'parent_ids': [1], 'absolute_parent_ids': [2]}, {'job_id': 3, 'parent_ids': [1, 2], 'in_update_parent_ids': [1]}, {'job_id': 2, 'absolute_parent_ids': [1]}, {'job_id': 2, 'in_update_parent_ids': [1]},
            {'job_id': 2, 'parent_ids': [], 'process': {'type': 'jvm'}}, {'job_id': 1}):
    before = json.loads(json.dumps(job))
    f(job)
    problems = []
    if 'parent_ids' in before and job.get('absolute_parent_ids') != before['parent_ids']:
        problems.append('legacy parent_ids %r (job ids of the batch) arrive as absolute_parent_ids=%r in_update_parent_ids=%r: in update u > 1 _create_jobs shifts in-update ids by the start of the update, so the job waits for job start+p-1 instead of job p' % (before['parent_ids'], job.get('absolute_parent_ids'), job.get('in_update_parent_ids')))
    if 'parent_ids' in job: problems.append('legacy key left in the spec')
    if job.get('in_update_parent_ids') != before.get('in_update_parent_ids'): problems.append('in_update_parent_ids rewritten: %r -> %r' % (before.get('in_update_parent_ids'), job.get('in_update_parent_ids')))
    if 'parent_ids' not in before and job.get('absolute_parent_ids') != before.get('absolute_parent_ids'): problems.append('absolute_parent_ids rewritten')
    if job.get('job_id') != before.get('job_id'): problems.append('job_id rewritten')
    if problems:
        res = {'confirmed': True, 'what': 'validate.handle_job_backwards_compatibility', 'input': before, 'result': job, 'problems': problems}; break
print(json.dumps(res, default=str))
'''


def parent_ids_contract():
    return pyvc.Contract(
        path=FE,
        qualname='_create_jobs',
        label='_create_jobs[parents-of-all-updates]',
        fragment=(r"re:^parent_ids = ", 1),
        extra_inputs={'absolute_parent_ids': 'List[int]', 'in_update_parent_ids': 'List[int]', 'update_start_job_id': 'int', 'job_id': 'int', 'batch_id': 'U'},
        ensures=[
            ('parents-are-the-absolute-ids-then-the-in-update-ids-shifted-by-the-start-of-the-update', "len(parent_ids) == len(absolute_parent_ids) + len(in_update_parent_ids) and forall(lambda i: implies(0 <= i < len(absolute_parent_ids), parent_ids[i] == absolute_parent_ids[i])) and forall(lambda i: implies(0 <= i < len(in_update_parent_ids), parent_ids[len(absolute_parent_ids) + i] == update_start_job_id + in_update_parent_ids[i] - 1))"),
        ],
        canaries=[('no-parents-ever', 'len(parent_ids) == 0')],
        consts={'spec': pyvc.SDotted('spec')},
    )


def _parent_id_path(ctx):
    import ast as pyast

    eng = pyvc.Engine(ctx, compat_contract())
    _opaque_items(eng)
    eng.replayer = lambda model, obl: core.run_native(REPLAY_COMPAT, {})
    _guarded(eng)
    # every job of a bunch goes through it: a statement of the per-job loop of validate_and_clean_jobs, applied to the loop's job
    vtree = pyast.parse(core.read_repo(VAL))
    vfn = [n for n in vtree.body if isinstance(n, pyast.FunctionDef) and n.name == 'validate_and_clean_jobs']
    ok, detail = False, 'validate_and_clean_jobs not found'
    if vfn:
        loops = [n for n in vfn[0].body if isinstance(n, pyast.For) and pyast.unparse(n.iter) in ('enumerate(jobs)', 'jobs')]
        detail = '%d loops over jobs' % len(loops)
        if len(loops) == 1:
            tgt = loops[0].target
            var = pyast.unparse(tgt.elts[-1] if isinstance(tgt, pyast.Tuple) else tgt)
            body = loops[0].body
            calls = [st for st in body if isinstance(st, pyast.Expr) and isinstance(st.value, pyast.Call) and pyast.unparse(st.value) == 'handle_job_backwards_compatibility(%s)' % var]
            after = body[body.index(calls[0]) + 1:] if calls else body
            later_writes = [pyast.unparse(n)[:60] for st in after for n in pyast.walk(st) if "_parent_ids'" in pyast.unparse(n) and ((isinstance(n, pyast.Subscript) and isinstance(n.ctx, (pyast.Store, pyast.Del))) or (isinstance(n, pyast.Call) and '.pop(' in pyast.unparse(n.func) + '('))]
            ok = len(calls) == 1 and not later_writes
            detail = 'unconditional calls on the loop variable: %d; later writes of parent-id keys: %r' % (len(calls), later_writes)
    ctx.add(core.decided('validate_and_clean_jobs/every-job-passes-through-the-compatibility-mapping-once', ok, detail, kind='scan'))
    ctx.under_contract(VAL, 'validate_and_clean_jobs (compatibility call)')
    # _create_jobs reads the two keys under their own names (the key text IS the fact) ...
    ftree = pyast.parse(core.read_repo(FE))
    fn = [n for n in pyast.walk(ftree) if isinstance(n, pyast.AsyncFunctionDef) and n.name == '_create_jobs'][0]
    reads = {}
    for n in pyast.walk(fn):
        if isinstance(n, pyast.Assign) and len(n.targets) == 1 and isinstance(n.targets[0], pyast.Name) and n.targets[0].id in ('absolute_parent_ids', 'in_update_parent_ids'):
            reads.setdefault(n.targets[0].id, []).append(pyast.unparse(n.value))
    want = {k: ["spec.pop('%s', [])" % k] for k in ('absolute_parent_ids', 'in_update_parent_ids')}
    ctx.add(core.decided('_create_jobs/parent-id-lists-are-read-from-the-spec-keys-of-the-same-name', reads == want, repr(reads), kind='scan'))
    # ... and combines them into the parents of the job
    eng = pyvc.Engine(ctx, parent_ids_contract())
    _guarded(eng)


def _canceller(ctx, ex=None):
    canceller_sel.add(ctx, ex, run=_guarded)


def native_witness(ctx):
    """used by vc.check only when the contracts cannot be applied to a changed source: failing inputs replayed on the real code"""
    for script in (REPLAY_CREATE, REPLAY_COMPAT):
        r = core.run_native(script, {})
        if isinstance(r, dict) and r.get('confirmed'):
            return r
    return {'confirmed': False}


def _schedulers_never_drop_always_run_for_cancelled(ctx):
    """always-run jobs run regardless of how their parents ended: mark_job_complete sets jobs.cancelled = 1 on EVERY child of a
    parent that did not succeed, always-run children included.  So no query by which the driver picks jobs to create instances
    for / to schedule (pool.py, job_private.py) may drop a job because of jobs.cancelled unless the same query is about
    non-always-run jobs only: a top-level WHERE conjunct that tests the jobs' cancelled flag must either mention always_run
    itself (`always_run OR NOT cancelled`) or stand next to a conjunct `always_run = 0` / `NOT always_run`."""
    import ast as pyast

    from vc import sqlast as A, sqlparse

    seen, bad = 0, []
    for rel in ('batch/batch/driver/instance_collection/pool.py', 'batch/batch/driver/instance_collection/job_private.py'):
        tree = pyast.parse(core.read_repo(rel))
        from contracts import sched_visibility as SV
        inside_fstring = {id(v) for f in pyast.walk(tree) if isinstance(f, pyast.JoinedStr) for v in pyast.walk(f) if v is not f}
        texts = []
        for n in pyast.walk(tree):
            if isinstance(n, pyast.Constant) and isinstance(n.value, str) and id(n) not in inside_fstring:
                texts.append((n, n.value))
            elif isinstance(n, pyast.JoinedStr) and id(n) not in inside_fstring:
                t_ = SV._sql_text(n)
                if t_:
                    texts.append((n, t_))
        for n, text in texts:
            if not ('SELECT' in text.upper() and 'cancelled' in text and ' jobs' in text.replace('\n', ' ')):
                continue
            try:
                stmts = sqlparse.parse_statements(text, rel, n.lineno)
            except Exception as e:  # pylint: disable=broad-except
                raise core.Undecided('embedded query at %s:%d is outside the SQL subset: %s' % (rel, n.lineno, str(e)[:100]))
            for stn in stmts:
                for sel in stn.walk():
                    if not (isinstance(sel, A.Select) and sel.where is not None):
                        continue
                    conj = []

                    def walk(e):
                        if isinstance(e, A.BinOp) and e.op == 'AND':
                            walk(e.left)
                            walk(e.right)
                        else:
                            conj.append(e)

                    walk(sel.where)

                    def names(e):
                        out, stack = [], [e]
                        import dataclasses
                        while stack:
                            x = stack.pop()
                            if isinstance(x, A.Name):
                                out.append(x.parts)
                            elif dataclasses.is_dataclass(x):
                                for f in dataclasses.fields(x):
                                    v = getattr(x, f.name)
                                    stack.extend(v if isinstance(v, (list, tuple)) else [v])
                        return out

                    def is_jobs_col(parts, col):
                        return parts[-1] == col and (len(parts) == 1 or parts[0] == 'jobs')

                    only_plain = any((isinstance(c, A.BinOp) and c.op == '=' and isinstance(c.left, A.Name) and is_jobs_col(c.left.parts, 'always_run') and isinstance(c.right, A.Lit) and c.right.value in (0, False))
                                     or (isinstance(c, A.UnOp) and c.op == 'NOT' and isinstance(c.operand, A.Name) and is_jobs_col(c.operand.parts, 'always_run')) for c in conj) if hasattr(A, 'UnOp') else False
                    for c in conj:
                        ns = names(c)
                        if any(is_jobs_col(p_, 'cancelled') for p_ in ns):
                            seen += 1
                            if not (any(is_jobs_col(p_, 'always_run') for p_ in ns) or only_plain):
                                bad.append('%s:%d' % (rel, getattr(sel, 'line', None) or n.lineno))
    ctx.add(core.decided('C05/schedulers/no-selection-drops-an-always-run-job-because-of-its-cancelled-flag', seen >= 3 and not bad, 'conjuncts testing jobs.cancelled: %d; dropping always-run jobs: %r' % (seen, bad), kind='scan'))


def build(ctx):
    _schedulers_never_drop_always_run_for_cancelled(ctx)
    ex = SP.proc_exec(inline_after=False)
    # ---------------- mark_job_complete: children statement
    name = 'mark_job_complete'
    rt = ex.routines[name]
    ctx.under_contract(SP.rel(rt.source_file), 'PROCEDURE ' + name)
    st0 = ex.new_state()
    for t in ('jobs', 'job_parents', 'jobs_telemetry'):
        st0.db.tab(t)
    base = st0.db.fork()
    outs = ex.run_procedure(name, st0)
    seen_children = []
    for pi, s in enumerate(outs):
        bb, jj, ns = s.vars['in_batch_id'], s.vars['in_job_id'], s.vars['new_state']
        pre = [z3.Not(bb.n), z3.Not(jj.n), SP.terminal(ns)]
        if not sqlvc.feasible(list(s.pc) + pre, 2000):
            continue
        jobs0, jp0 = base.tab('jobs'), base.tab('job_parents')
        child_updates = [e for e in s.effects if e.table == 'jobs' and e.kind == 'update-set' and 'n_pending_parents' in e.data.get('assigned', []) and not e.data.get('rolled_back')]
        parent_updates = [e for e in s.effects if e.table == 'jobs' and e.kind == 'update' and not e.data.get('rolled_back')]
        completes = z3.Or(*[z3.And(z3.Not(SP.terminal(e.data['old']['state'])), SP.terminal(e.data['new']['state']), e.data['key'][1] == jj.v) for e in parent_updates]) if parent_updates else z3.BoolVal(False)
        if not child_updates:
            SP.add_valid(ctx, '%s/path%d/no-children-statement-means-parent-did-not-complete-now' % (name, pi), s.pc, pre, z3.Not(completes))
            continue
        ctx.add(core.decided('%s/path%d/exactly-one-children-statement' % (name, pi), len(child_updates) == 1, '', kind='scan'))
        e = child_updates[0]
        pc_e = s.pc[: e.data['pc_len']]
        kv, aff, o, n_ = e.data['kvars'], e.data['affected'], e.data['old_row'], e.data['new_row']
        SP.add_valid(ctx, '%s/path%d/children-statement-only-when-the-parent-completes-in-this-call' % (name, pi), s.pc, pre, completes)
        want = z3.And(jobs0.has(kv), kv[0] == bb.v, jp0.has([kv[0], kv[1], jj.v]))
        SP.add_valid(ctx, '%s/path%d/touches-exactly-the-children-of-the-job' % (name, pi), pc_e, pre, aff == want)
        SP.add_valid(ctx, '%s/path%d/pending-parent-count-decremented-by-one' % (name, pi), pc_e, pre + [aff], z3.And(z3.Not(n_['n_pending_parents'].n), n_['n_pending_parents'].v == o['n_pending_parents'].v - 1))
        SP.add_valid(ctx, '%s/path%d/ready-iff-this-was-the-last-pending-parent' % (name, pi), pc_e, pre + [aff], z3.And(SP.is_state(n_['state'], 'Ready') == (o['n_pending_parents'].v == 1), z3.Or(SP.is_state(n_['state'], 'Ready'), SP.is_state(n_['state'], 'Pending'))))
        succ = SP.is_state(ns, 'Success')
        SP.add_valid(ctx, '%s/path%d/child-marked-cancelled-iff-parent-did-not-succeed' % (name, pi), pc_e, pre + [aff], z3.And(z3.Implies(succ, sqlvc.sv_eq_values(n_['cancelled'], o['cancelled'])), z3.Implies(z3.Not(succ), z3.And(z3.Not(n_['cancelled'].n), n_['cancelled'].v == 1))))
        SP.add_valid(ctx, '%s/path%d/children-statement-changes-nothing-else-of-jobs' % (name, pi), pc_e, pre + [aff], z3.And(*[sqlvc.sv_eq_values(n_[c], o[c]) for c in o if c not in ('state', 'n_pending_parents', 'cancelled')]))
        seen_children.append(z3.And(*pc_e, *pre, aff))
    ctx.add(core.satisfiable('%s/vacuity/children-statement-reached' % name, z3.Or(*seen_children) if seen_children else z3.BoolVal(False)))

    # ---------------- commit_batch_update: recompute for later updates
    name = 'commit_batch_update'
    rt = ex.routines[name]
    ctx.under_contract(SP.rel(rt.source_file), 'PROCEDURE ' + name)
    st0 = ex.new_state()
    for t in ('jobs', 'job_parents', 'batch_updates', 'jobs_telemetry', 'job_groups_inst_coll_staging'):
        st0.db.tab(t)
    base = st0.db.fork()
    outs = ex.run_procedure(name, st0)
    reached = []
    for pi, s in enumerate(outs):
        bb, uu = s.vars['in_batch_id'], s.vars['in_update_id']
        pre = [z3.Not(bb.n), z3.Not(uu.n)]
        if not sqlvc.feasible(list(s.pc) + pre, 2000):
            continue
        jobs0, jp0 = base.tab('jobs'), base.tab('job_parents')
        rec_updates = [e for e in s.effects if e.table == 'jobs' and e.kind == 'update-set' and 'n_pending_parents' in e.data.get('assigned', []) and not e.data.get('rolled_back')]
        committed_now = any(e.table == 'batch_updates' and e.kind in ('update', 'update-set') and not e.data.get('rolled_back') for e in s.effects)
        if not rec_updates:
            if committed_now:
                # the first update (or an update without jobs) is committed without a recompute: allowed only then
                exp = s.vars['expected_n_jobs']
                SP.add_valid(ctx, '%s/path%d/no-recompute-only-for-the-first-update-or-an-empty-update' % (name, pi), s.pc, pre, z3.Or(uu.v == 1, z3.Not(exp.v > 0), exp.n))
            continue
        ctx.add(core.decided('%s/path%d/exactly-one-recompute-statement' % (name, pi), len(rec_updates) == 1, '', kind='scan'))
        e = rec_updates[0]
        pc_e = s.pc[: e.data['pc_len']]
        kv, aff, o, n_ = e.data['kvars'], e.data['affected'], e.data['old_row'], e.data['new_row']
        start = s.vars['cur_update_start_job_id']
        cnt = s.vars['staging_n_jobs']
        want = z3.And(jobs0.has(kv), kv[0] == bb.v, kv[1] >= start.v, kv[1] < start.v + cnt.v)
        SP.add_valid(ctx, '%s/path%d/recompute-touches-exactly-the-id-range-of-the-update' % (name, pi), pc_e, pre + [z3.Not(start.n)], aff == want)
        used = _decls(n_['n_pending_parents'].v) | _decls(n_['cancelled'].v) | _decls(n_['state'].v)
        recs = [r for r in s.aggregates if r.get('gvars') and r['symbol'].decl().name() in used]
        byname = {}
        for r in recs:
            txt = r['expr'].upper().replace(' ', '')
            if txt.startswith('SUM(1)'):
                byname['n_parents'] = r
            elif 'SUCCESS' in txt:
                byname['n_succeeded'] = r
            elif 'PENDING' in txt:
                byname['n_pending'] = r
        ctx.add(core.decided('%s/path%d/three-aggregates-found' % (name, pi), sorted(byname) == ['n_parents', 'n_pending', 'n_succeeded'], repr(sorted(byname)), kind='scan'))
        if sorted(byname) != ['n_parents', 'n_pending', 'n_succeeded']:
            continue
        sub = lambda r: r.get('symbol_at_row', r['symbol'])
        P, NP, NS = sub(byname['n_pending']), sub(byname['n_parents']), sub(byname['n_succeeded'])
        # pointwise: the aggregated rows are exactly the edges (b, job, p) of the job, with the right summands
        for nm, r in byname.items():
            rk = r['kvars']
            p_terms = [k for k in rk if 'parent_id' in str(k)]
            if len(p_terms) != 1:
                raise core.Undecided('commit_batch_update: aggregate rows are not identified by the parent id')
            p = p_terms[0]
            gv = r.get('gvars_at_row', r['gvars'])
            kj = [k for k in rk if 'job_parents_job_id' in str(k)]
            kj = kj[0] if kj else gv[1]
            edge = z3.And(jp0.has([bb.v, kj, p]), kj == gv[1], gv[0] == bb.v, gv[1] >= start.v, gv[1] < start.v + cnt.v)
            SP.add_valid(ctx, '%s/path%d/aggregate-%s-ranges-over-exactly-the-edges-of-the-job' % (name, pi, nm), pc_e, pre + [z3.Not(start.n)], z3.ForAll(rk, r['cond'] == edge), dedupe_key='agg-range-' + nm)
            pst = jobs0.get([bb.v, p], 'state')
            pex = jobs0.has([bb.v, p])
            if nm == 'n_parents':
                summand = z3.IntVal(1)
            elif nm == 'n_pending':
                summand = z3.If(z3.And(pex, SP.is_state(pst, *NONTERMINAL)), 1, 0)
            else:
                summand = z3.If(z3.And(pex, SP.is_state(pst, 'Success')), 1, 0)
            arg = r['arg']
            SP.add_valid(ctx, '%s/path%d/aggregate-%s-summand' % (name, pi, nm), pc_e, pre + [r['cond']], z3.If(arg.n, 0, arg.v) == summand, dedupe_key='agg-summand-' + nm)
        nn = z3.ForAll([z3.Int('fx'), z3.Int('fy')], z3.And(byname['n_pending']['symbol'].decl()(z3.Int('fx'), z3.Int('fy')) >= 0))
        has_parents = z3.Exists([z3.Int('pp')], jp0.has([kv[0], kv[1], z3.Int('pp')]))
        # value semantics: LEFT JOIN of the aggregated table: a job without parents gets COALESCE(..., 0)
        npp = n_['n_pending_parents']
        SP.add_valid(ctx, '%s/path%d/n_pending_parents-is-the-number-of-non-terminal-parents' % (name, pi), pc_e, pre + [aff, z3.Not(start.n)], z3.And(z3.Not(npp.n), npp.v == z3.If(has_parents, P, 0)))
        SP.add_valid(ctx, '%s/path%d/ready-iff-no-non-terminal-parent' % (name, pi), pc_e, pre + [aff, z3.Not(start.n)], z3.And(SP.is_state(n_['state'], 'Ready') == (npp.v == 0), z3.Or(SP.is_state(n_['state'], 'Ready'), SP.is_state(n_['state'], 'Pending'))))
        failed_parent = z3.And(has_parents, NS != NP - P)
        SP.add_valid(ctx, '%s/path%d/cancelled-iff-a-terminal-parent-did-not-succeed' % (name, pi), pc_e, pre + [aff, z3.Not(start.n)], z3.And(z3.Implies(failed_parent, z3.And(z3.Not(n_['cancelled'].n), n_['cancelled'].v == 1)), z3.Implies(z3.Not(failed_parent), sqlvc.sv_eq_values(n_['cancelled'], o['cancelled']))))
        reached.append(z3.And(*pc_e, *pre, aff))
    ctx.add(core.satisfiable('%s/vacuity/recompute-reached' % name, z3.Or(*reached) if reached else z3.BoolVal(False)))
    SP.engine_obligations(ctx, ex)
    # the atomicity assumed below rests on row locks: a removed FOR UPDATE in the two routines is a failed obligation here too
    SP.lock_discipline(ctx, ex, ['mark_job_complete', 'commit_batch_update'])

    # ---------------- _create_jobs (Python)
    _create_jobs(ctx)
    _parent_id_path(ctx)
    # ---------------- the canceller's selection queries (embedded SQL)
    _canceller(ctx, ex)
    ctx.assume('each procedure call is atomic (serialisable isolation); MySQL NULL/boolean semantics as encoded in vc/sqlvc.py')
    ctx.assume('meta-lemmas L1 (sum localisation: one parent flips non-terminal -> terminal, the edge is unique by the primary key of job_parents) and L2 (pointwise equal predicates and summands give equal sums) lift the pointwise obligations to invariant N')
    ctx.assume('SUM over an aggregated LEFT-JOINed parent row whose jobs row is missing contributes 0 (state NULL); existence of parent rows is C08')
    ctx.undecided('always-run children "run regardless" is a liveness statement: only the safety half (cancelled does not block always_run jobs, C07) is covered')
