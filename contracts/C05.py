"""C05 - dependencies gate readiness; failed parents cancel children.

Invariant N (committed Pending job c): n_pending_parents(c) = number of non-terminal parents; cancelled(c) = 1 if some terminal
parent did not succeed;  N': every child of a non-terminal parent is Pending.
Obligations, for all rows/arguments, on the real effective SQL and the real Python:
 * children statement of mark_job_complete (set-oriented UPDATE of jobs): it touches exactly the children of the completing
   job in its batch (edge (child, in_job_id) in job_parents); n' = n - 1; state' = Ready iff n = 1, else Pending;
   cancelled' = cancelled if new_state = 'Success' else 1; it is executed only on the paths where the parent itself moves from
   a non-terminal to a terminal state.  With the parent counted exactly once (C04) this preserves N by sum localisation (L1),
   and state' = Ready implies that no non-terminal parent is left.
 * recompute statement of commit_batch_update (updates other than the first): it touches exactly the jobs of the update's id
   range; its three aggregates are shown pointwise (L2) to range over exactly the edges of the job and to count all parents /
   the non-terminal parents / the succeeded parents; n' = #non-terminal parents; state' = Ready iff that is 0 else Pending;
   cancelled' = 1 iff some terminal parent did not succeed, else unchanged.
 * _create_jobs (Python): a job starts Ready only in the first update and without parents, n_pending_parents = number of
   parents, one job_parents row per parent (fragment contracts, contracts/create_jobs_frag.py).
The cancelled-and-not-always-run => never runs clause is C07 (guards on is_job_cancelled).
"""
from __future__ import annotations

import z3

from contracts import create_jobs_frag, sqlspec as SP
from vc import core, sqlvc
from vc.sqlvc import intern

NONTERMINAL = ['Pending', 'Ready', 'Creating', 'Running']


def _decls(term):
    out = set()
    stack = [term]
    seen = set()
    while stack:
        x = stack.pop()
        if x.get_id() in seen:
            continue
        seen.add(x.get_id())
        if z3.is_quantifier(x):
            stack.append(x.body())
            continue
        if z3.is_app(x):
            out.add(x.decl().name())
        stack.extend(x.children())
    return out


def build(ctx):
    ex = SP.proc_exec(inline_after=False)
    # ---------------- mark_job_complete: children statement
    name = 'mark_job_complete'
    rt = ex.routines[name]
    ctx.under_contract(SP.rel(rt.source_file), 'PROCEDURE ' + name)
    st0 = ex.new_state()
    for t in ('jobs', 'job_parents', 'jobs_telemetry'):
        st0.db.tab(t)
    base = st0.db.fork()
    outs = ex.run_procedure(name, st0)
    seen_children = []
    for pi, s in enumerate(outs):
        bb, jj, ns = s.vars['in_batch_id'], s.vars['in_job_id'], s.vars['new_state']
        pre = [z3.Not(bb.n), z3.Not(jj.n), SP.terminal(ns)]
        if not sqlvc.feasible(list(s.pc) + pre, 2000):
            continue
        jobs0, jp0 = base.tab('jobs'), base.tab('job_parents')
        child_updates = [e for e in s.effects if e.table == 'jobs' and e.kind == 'update-set' and 'n_pending_parents' in e.data.get('assigned', []) and not e.data.get('rolled_back')]
        parent_updates = [e for e in s.effects if e.table == 'jobs' and e.kind == 'update' and not e.data.get('rolled_back')]
        completes = z3.Or(*[z3.And(z3.Not(SP.terminal(e.data['old']['state'])), SP.terminal(e.data['new']['state']), e.data['key'][1] == jj.v) for e in parent_updates]) if parent_updates else z3.BoolVal(False)
        if not child_updates:
            SP.add_valid(ctx, '%s/path%d/no-children-statement-means-parent-did-not-complete-now' % (name, pi), s.pc, pre, z3.Not(completes))
            continue
        ctx.add(core.decided('%s/path%d/exactly-one-children-statement' % (name, pi), len(child_updates) == 1, '', kind='scan'))
        e = child_updates[0]
        pc_e = s.pc[: e.data['pc_len']]
        kv, aff, o, n_ = e.data['kvars'], e.data['affected'], e.data['old_row'], e.data['new_row']
        SP.add_valid(ctx, '%s/path%d/children-statement-only-when-the-parent-completes-in-this-call' % (name, pi), s.pc, pre, completes)
        want = z3.And(jobs0.has(kv), kv[0] == bb.v, jp0.has([kv[0], kv[1], jj.v]))
        SP.add_valid(ctx, '%s/path%d/touches-exactly-the-children-of-the-job' % (name, pi), pc_e, pre, aff == want)
        SP.add_valid(ctx, '%s/path%d/pending-parent-count-decremented-by-one' % (name, pi), pc_e, pre + [aff], z3.And(z3.Not(n_['n_pending_parents'].n), n_['n_pending_parents'].v == o['n_pending_parents'].v - 1))
        SP.add_valid(ctx, '%s/path%d/ready-iff-this-was-the-last-pending-parent' % (name, pi), pc_e, pre + [aff], z3.And(SP.is_state(n_['state'], 'Ready') == (o['n_pending_parents'].v == 1), z3.Or(SP.is_state(n_['state'], 'Ready'), SP.is_state(n_['state'], 'Pending'))))
        succ = SP.is_state(ns, 'Success')
        SP.add_valid(ctx, '%s/path%d/child-marked-cancelled-iff-parent-did-not-succeed' % (name, pi), pc_e, pre + [aff], z3.And(z3.Implies(succ, sqlvc.sv_eq_values(n_['cancelled'], o['cancelled'])), z3.Implies(z3.Not(succ), z3.And(z3.Not(n_['cancelled'].n), n_['cancelled'].v == 1))))
        SP.add_valid(ctx, '%s/path%d/children-statement-changes-nothing-else-of-jobs' % (name, pi), pc_e, pre + [aff], z3.And(*[sqlvc.sv_eq_values(n_[c], o[c]) for c in o if c not in ('state', 'n_pending_parents', 'cancelled')]))
        seen_children.append(z3.And(*pc_e, *pre, aff))
    ctx.add(core.satisfiable('%s/vacuity/children-statement-reached' % name, z3.Or(*seen_children) if seen_children else z3.BoolVal(False)))

    # ---------------- commit_batch_update: recompute for later updates
    name = 'commit_batch_update'
    rt = ex.routines[name]
    ctx.under_contract(SP.rel(rt.source_file), 'PROCEDURE ' + name)
    st0 = ex.new_state()
    for t in ('jobs', 'job_parents', 'batch_updates', 'jobs_telemetry', 'job_groups_inst_coll_staging'):
        st0.db.tab(t)
    base = st0.db.fork()
    outs = ex.run_procedure(name, st0)
    reached = []
    for pi, s in enumerate(outs):
        bb, uu = s.vars['in_batch_id'], s.vars['in_update_id']
        pre = [z3.Not(bb.n), z3.Not(uu.n)]
        if not sqlvc.feasible(list(s.pc) + pre, 2000):
            continue
        jobs0, jp0 = base.tab('jobs'), base.tab('job_parents')
        rec_updates = [e for e in s.effects if e.table == 'jobs' and e.kind == 'update-set' and 'n_pending_parents' in e.data.get('assigned', []) and not e.data.get('rolled_back')]
        committed_now = any(e.table == 'batch_updates' and e.kind in ('update', 'update-set') and not e.data.get('rolled_back') for e in s.effects)
        if not rec_updates:
            if committed_now:
                # the first update (or an update without jobs) is committed without a recompute: allowed only then
                exp = s.vars['expected_n_jobs']
                SP.add_valid(ctx, '%s/path%d/no-recompute-only-for-the-first-update-or-an-empty-update' % (name, pi), s.pc, pre, z3.Or(uu.v == 1, z3.Not(exp.v > 0), exp.n))
            continue
        ctx.add(core.decided('%s/path%d/exactly-one-recompute-statement' % (name, pi), len(rec_updates) == 1, '', kind='scan'))
        e = rec_updates[0]
        pc_e = s.pc[: e.data['pc_len']]
        kv, aff, o, n_ = e.data['kvars'], e.data['affected'], e.data['old_row'], e.data['new_row']
        start = s.vars['cur_update_start_job_id']
        cnt = s.vars['staging_n_jobs']
        want = z3.And(jobs0.has(kv), kv[0] == bb.v, kv[1] >= start.v, kv[1] < start.v + cnt.v)
        SP.add_valid(ctx, '%s/path%d/recompute-touches-exactly-the-id-range-of-the-update' % (name, pi), pc_e, pre + [z3.Not(start.n)], aff == want)
        used = _decls(n_['n_pending_parents'].v) | _decls(n_['cancelled'].v) | _decls(n_['state'].v)
        recs = [r for r in s.aggregates if r.get('gvars') and r['symbol'].decl().name() in used]
        byname = {}
        for r in recs:
            txt = r['expr'].upper().replace(' ', '')
            if txt.startswith('SUM(1)'):
                byname['n_parents'] = r
            elif 'SUCCESS' in txt:
                byname['n_succeeded'] = r
            elif 'PENDING' in txt:
                byname['n_pending'] = r
        ctx.add(core.decided('%s/path%d/three-aggregates-found' % (name, pi), sorted(byname) == ['n_parents', 'n_pending', 'n_succeeded'], repr(sorted(byname)), kind='scan'))
        if sorted(byname) != ['n_parents', 'n_pending', 'n_succeeded']:
            continue
        sub = lambda r: r.get('symbol_at_row', r['symbol'])
        P, NP, NS = sub(byname['n_pending']), sub(byname['n_parents']), sub(byname['n_succeeded'])
        # pointwise: the aggregated rows are exactly the edges (b, job, p) of the job, with the right summands
        for nm, r in byname.items():
            rk = r['kvars']
            p_terms = [k for k in rk if 'parent_id' in str(k)]
            if len(p_terms) != 1:
                raise core.Undecided('commit_batch_update: aggregate rows are not identified by the parent id')
            p = p_terms[0]
            gv = r.get('gvars_at_row', r['gvars'])
            kj = [k for k in rk if 'job_parents_job_id' in str(k)]
            kj = kj[0] if kj else gv[1]
            edge = z3.And(jp0.has([bb.v, kj, p]), kj == gv[1], gv[0] == bb.v, gv[1] >= start.v, gv[1] < start.v + cnt.v)
            SP.add_valid(ctx, '%s/path%d/aggregate-%s-ranges-over-exactly-the-edges-of-the-job' % (name, pi, nm), pc_e, pre + [z3.Not(start.n)], z3.ForAll(rk, r['cond'] == edge), dedupe_key='agg-range-' + nm)
            pst = jobs0.get([bb.v, p], 'state')
            pex = jobs0.has([bb.v, p])
            if nm == 'n_parents':
                summand = z3.IntVal(1)
            elif nm == 'n_pending':
                summand = z3.If(z3.And(pex, SP.is_state(pst, *NONTERMINAL)), 1, 0)
            else:
                summand = z3.If(z3.And(pex, SP.is_state(pst, 'Success')), 1, 0)
            arg = r['arg']
            SP.add_valid(ctx, '%s/path%d/aggregate-%s-summand' % (name, pi, nm), pc_e, pre + [r['cond']], z3.If(arg.n, 0, arg.v) == summand, dedupe_key='agg-summand-' + nm)
        nn = z3.ForAll([z3.Int('fx'), z3.Int('fy')], z3.And(byname['n_pending']['symbol'].decl()(z3.Int('fx'), z3.Int('fy')) >= 0))
        has_parents = z3.Exists([z3.Int('pp')], jp0.has([kv[0], kv[1], z3.Int('pp')]))
        # value semantics: LEFT JOIN of the aggregated table: a job without parents gets COALESCE(..., 0)
        npp = n_['n_pending_parents']
        SP.add_valid(ctx, '%s/path%d/n_pending_parents-is-the-number-of-non-terminal-parents' % (name, pi), pc_e, pre + [aff, z3.Not(start.n)], z3.And(z3.Not(npp.n), npp.v == z3.If(has_parents, P, 0)))
        SP.add_valid(ctx, '%s/path%d/ready-iff-no-non-terminal-parent' % (name, pi), pc_e, pre + [aff, z3.Not(start.n)], z3.And(SP.is_state(n_['state'], 'Ready') == (npp.v == 0), z3.Or(SP.is_state(n_['state'], 'Ready'), SP.is_state(n_['state'], 'Pending'))))
        failed_parent = z3.And(has_parents, NS != NP - P)
        SP.add_valid(ctx, '%s/path%d/cancelled-iff-a-terminal-parent-did-not-succeed' % (name, pi), pc_e, pre + [aff, z3.Not(start.n)], z3.And(z3.Implies(failed_parent, z3.And(z3.Not(n_['cancelled'].n), n_['cancelled'].v == 1)), z3.Implies(z3.Not(failed_parent), sqlvc.sv_eq_values(n_['cancelled'], o['cancelled']))))
        reached.append(z3.And(*pc_e, *pre, aff))
    ctx.add(core.satisfiable('%s/vacuity/recompute-reached' % name, z3.Or(*reached) if reached else z3.BoolVal(False)))
    SP.engine_obligations(ctx, ex)

    # ---------------- _create_jobs (Python)
    create_jobs_frag.add(ctx, a=['ready-iff-first-update-and-no-parents', 'otherwise-pending'], b=['jobs-row-appended', 'n_pending_parents-is-the-number-of-parents', 'one-parent-row-per-parent-in-order', 'earlier-parent-rows-untouched'])
    ctx.assume('each procedure call is atomic (serialisable isolation); MySQL NULL/boolean semantics as encoded in vc/sqlvc.py')
    ctx.assume('meta-lemmas L1 (sum localisation: one parent flips non-terminal -> terminal, the edge is unique by the primary key of job_parents) and L2 (pointwise equal predicates and summands give equal sums) lift the pointwise obligations to invariant N')
    ctx.assume('SUM over an aggregated LEFT-JOINed parent row whose jobs row is missing contributes 0 (state NULL); existence of parent rows is C08')
    ctx.undecided('always-run children "run regardless" is a liveness statement: only the safety half (cancelled does not block always_run jobs, C07) is covered')
