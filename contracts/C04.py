"""C04 - jobs follow the lifecycle and complete at most once.

Every stored procedure that assigns jobs.state (closed-world scan of the effective routines) is executed symbolically; for
every path, every row and every argument:
  * each point UPDATE of jobs.state is an allowed transition (Pending->Ready->Creating->Running->terminal, Ready/Creating/
    Running -> terminal, Creating/Running -> Ready) or leaves the state unchanged; terminal states are absorbing; a Pending job
    is only ever rewritten to Pending or Ready;
  * set-oriented updates: deactivate_instance rewrites only Creating/Running jobs to Ready; the children statement of
    mark_job_complete rewrites a child to Pending/Ready, which is an allowed transition under invariant N' of C05 (a child of
    an unfinished parent is Pending) - N' is taken as hypothesis here and preserved under C05;
  * mark_job_complete: the tally statement on job_groups_n_jobs_in_complete_states is executed on exactly the paths that
    move the job from a non-terminal to a terminal state (so per job at most once over any history, because terminal is
    absorbing); it touches exactly the ancestors anc*(b, group of the job), adds 1 to n_completed and 1 to exactly one of
    n_succeeded / n_failed / n_cancelled; the stale-attempt path (rc = 2) and the already-complete path write no job/tally row.
Precondition terminal(new_state) of mark_job_complete is discharged at the Python call sites (AST obligations).
"""
from __future__ import annotations

import ast as pyast
import glob
import os

import z3

from contracts import sqlspec as SP
from vc import core, sqlast as A, sqlvc
from vc.sqlvc import intern


def _state_writers(ex):
    out = []
    for name, r in ex.routines.items():
        if r.kind != 'procedure':
            continue
        for n in r.body.walk():
            if isinstance(n, A.Update):
                tabs = [t.name for t in ([n.tables] if isinstance(n.tables, A.TableRef) else n.tables.walk()) if isinstance(t, A.TableRef)]
                if 'jobs' in tabs and any(t.parts[-1] == 'state' and (len(t.parts) == 1 or t.parts[0] == 'jobs') for t, _ in n.assignments):
                    # `state` could belong to another joined table: keep only if jobs has the column and no other table does unqualified
                    out.append(name)
                    break
    return sorted(set(out))


def build(ctx):
    ex = SP.proc_exec(inline_after=False)
    writers = _state_writers(ex)
    ctx.extra['procedures_assigning_jobs_state'] = writers
    expected = {'schedule_job', 'mark_job_creating', 'mark_job_started', 'unschedule_job', 'deactivate_instance', 'mark_job_complete', 'commit_batch_update'}
    ctx.add(core.decided('closed-world/procedures-assigning-jobs.state', set(writers) <= expected and {'mark_job_complete', 'schedule_job'} <= set(writers), repr(writers), kind='scan'))
    for name in writers:
        if name == 'commit_batch_update':
            ctx.undecided('commit_batch_update (derived tables with GROUP BY are outside the sqlvc subset): its Pending->Ready rewrite is covered under C05 when brought into reach')
            continue
        rt = ex.routines[name]
        ctx.under_contract(SP.rel(rt.source_file), 'PROCEDURE ' + name)
        st0 = ex.new_state()
        for t in ('jobs', 'job_parents', 'job_group_self_and_ancestors', 'job_groups_n_jobs_in_complete_states'):
            st0.db.tab(t)
        base = st0.db.fork()
        outs = ex.run_procedure(name, st0)
        n_trans = []
        for pi, s in enumerate(outs):
            pre = []
            if name == 'mark_job_complete':
                pre.append(SP.terminal(s.vars['new_state']))
            jobs_updates = [e for e in s.effects if e.table == 'jobs' and e.kind in ('update', 'update-set') and not e.data.get('rolled_back')]
            tally_updates = [e for e in s.effects if e.table == 'job_groups_n_jobs_in_complete_states' and e.kind in ('update', 'update-set') and not e.data.get('rolled_back')]
            hyps_all = list(s.pc) + pre
            if not sqlvc.feasible(hyps_all, 3000):
                continue
            to_terminal = []
            for ei, e in enumerate(jobs_updates):
                hyps = list(s.pc[: e.data['pc_len']]) + pre
                if e.kind == 'update':
                    o, n_ = e.data['old']['state'], e.data['new']['state']
                    ctx.add(core.valid('%s/path%d/jobs-update%d/allowed-transition' % (name, pi, ei), hyps, SP.allowed_transition(o, n_)))
                    ctx.add(core.valid('%s/path%d/jobs-update%d/terminal-is-absorbing' % (name, pi, ei), hyps + [SP.terminal(o)], sqlvc.sv_eq_values(o, n_)))
                    n_trans.append(z3.And(*hyps, z3.Not(sqlvc.sv_eq_values(o, n_))))
                    to_terminal.append(z3.And(z3.Not(SP.terminal(o)), SP.terminal(n_)))
                else:
                    o, n_ = e.data['old_row']['state'], e.data['new_row']['state']
                    aff = e.data['affected']
                    extra = []
                    if name == 'mark_job_complete':
                        # invariant N' (C05): a child whose parent is not terminal is Pending.  The statement is reached only
                        # when the parent (the completing job) was Ready/Creating/Running before this call.
                        extra.append(SP.is_state(o, 'Pending'))
                        ctx.add(core.valid('%s/path%d/jobs-update%d/children-statement-reached-only-for-a-non-terminal-parent' % (name, pi, ei), hyps, SP.is_state(base.tab('jobs').get([s.vars['in_batch_id'].v, s.vars['in_job_id'].v], 'state'), 'Ready', 'Creating', 'Running')))
                        kv = e.data['kvars']
                        jp = base.tab('job_parents')
                        ctx.add(core.valid('%s/path%d/jobs-update%d/children-statement-touches-children-only' % (name, pi, ei), hyps + [aff], z3.And(kv[0] == s.vars['in_batch_id'].v, jp.has([kv[0], kv[1], s.vars['in_job_id'].v]))))
                    n_trans.append(z3.And(*hyps, aff, z3.Not(sqlvc.sv_eq_values(o, n_))))
                    ctx.add(core.valid('%s/path%d/jobs-update%d/set-update-allowed-transition' % (name, pi, ei), hyps + [aff] + extra, SP.allowed_transition(o, n_)))
                    ctx.add(core.valid('%s/path%d/jobs-update%d/set-update-terminal-is-absorbing' % (name, pi, ei), hyps + [aff, SP.terminal(o)] + extra, sqlvc.sv_eq_values(o, n_)))
            if name == 'mark_job_complete':
                completes = z3.Or(*to_terminal) if to_terminal else z3.BoolVal(False)
                if tally_updates:
                    ctx.add(core.valid('%s/path%d/tally-only-together-with-the-transition-to-terminal' % (name, pi), hyps_all, completes))
                    ctx.add(core.decided('%s/path%d/exactly-one-tally-statement' % (name, pi), len(tally_updates) == 1 and tally_updates[0].kind == 'update-set', repr([(e.kind, e.line) for e in tally_updates]), kind='scan'))
                    e = tally_updates[0]
                    kv, aff, o, n_ = e.data['kvars'], e.data['affected'], e.data['old_row'], e.data['new_row']
                    hyps = list(s.pc[: e.data['pc_len']]) + pre
                    bb, jj = s.vars['in_batch_id'], s.vars['in_job_id']
                    grp = base.tab('jobs').get([bb.v, jj.v], 'job_group_id')
                    jgsa = base.tab('job_group_self_and_ancestors')
                    tall = base.tab('job_groups_n_jobs_in_complete_states')
                    want = z3.And(kv[0] == bb.v, jgsa.has([bb.v, grp.v, kv[1]]), tall.has(kv))
                    ctx.add(core.valid('%s/path%d/tally-touches-exactly-the-ancestors-of-the-jobs-group' % (name, pi), hyps, aff == want))
                    d = lambda c: n_[c].v - o[c].v
                    ctx.add(core.valid('%s/path%d/tally-adds-one-completed-and-one-outcome' % (name, pi), hyps + [aff], z3.And(d('n_completed') == 1, d('n_succeeded') + d('n_failed') + d('n_cancelled') == 1, d('n_succeeded') >= 0, d('n_failed') >= 0, d('n_cancelled') >= 0)))
                    ns = s.vars['new_state']
                    ctx.add(core.valid('%s/path%d/tally-outcome-matches-the-new-state' % (name, pi), hyps + [aff], z3.And((d('n_succeeded') == 1) == SP.is_state(ns, 'Success'), (d('n_cancelled') == 1) == SP.is_state(ns, 'Cancelled'), (d('n_failed') == 1) == SP.is_state(ns, 'Failed', 'Error'))))
                else:
                    ctx.add(core.valid('%s/path%d/no-tally-means-no-transition-to-terminal' % (name, pi), hyps_all, z3.Not(completes)))
        ctx.add(core.satisfiable('%s/vacuity/some-path-changes-a-state' % name, z3.Or(*n_trans) if n_trans else z3.BoolVal(False)))
    SP.lock_discipline(ctx, ex, [w for w in writers])
    _call_sites(ctx)
    from contracts import sqlspec as _SP
    _SP.engine_obligations(ctx, ex)
    ctx.assume('each procedure call is atomic (serialisable isolation); MySQL NULL/boolean semantics as encoded in vc/sqlvc.py')
    ctx.assume("invariant N' (a child of a non-terminal parent is Pending) is a hypothesis of the children statement here; its preservation is C05's obligation")
    ctx.assume('"at most once per job over any history" follows from: the tally statement runs only together with a non-terminal -> terminal transition of that job, and terminal states are absorbing (ranking argument)')
    ctx.undecided('worker-side message generation; uniqueness of attempt ids')


def _call_sites(ctx):
    """terminal(new_state) at every Python call of driver.job.mark_job_complete"""
    src = core.read_repo('batch/batch/driver/job.py')
    tree = pyast.parse(src)
    fn = [n for n in pyast.walk(tree) if isinstance(n, pyast.AsyncFunctionDef) and n.name == 'mark_job_complete'][0]
    params = [a.arg for a in fn.args.args]
    idx = params.index('new_state')
    sites = []
    ok = True
    for fp in sorted(glob.glob(os.path.join(core.REPO, 'batch', 'batch', '**', '*.py'), recursive=True)):
        t = pyast.parse(open(fp).read())
        for f in pyast.walk(t):
            if not isinstance(f, (pyast.AsyncFunctionDef, pyast.FunctionDef)):
                continue
            for n in pyast.walk(f):
                if isinstance(n, pyast.Call) and getattr(n.func, 'id', getattr(n.func, 'attr', None)) == 'mark_job_complete' and len(n.args) > idx:
                    a = n.args[idx]
                    txt = pyast.unparse(a)
                    if isinstance(a, pyast.Constant):
                        good = a.value in SP.TERMINAL
                    elif isinstance(a, pyast.Name):
                        # a local variable: every assignment to it in the enclosing function must be a terminal literal
                        assigns = [x for x in pyast.walk(f) if isinstance(x, pyast.Assign) and any(isinstance(tg, pyast.Name) and tg.id == a.id for tg in x.targets)]
                        good = bool(assigns) and all(isinstance(x.value, pyast.Constant) and x.value.value in SP.TERMINAL for x in assigns)
                    else:
                        good = False
                    sites.append((os.path.relpath(fp, core.REPO), n.lineno, txt, good))
                    ok = ok and good
    ctx.add(core.decided('call-sites/mark_job_complete-new_state-is-terminal', ok and len(sites) >= 3, repr(sites), kind='scan'))
    ctx.under_contract('batch/batch/driver/job.py', 'mark_job_complete (new_state argument at all call sites)')
    # the Python wrapper passes new_state through unchanged to the CALL
    call = [n for n in pyast.walk(fn) if isinstance(n, pyast.Constant) and isinstance(n.value, str) and 'CALL mark_job_complete' in n.value]
    ctx.add(core.decided('wrapper/passes-new_state-through', bool(call) and 'new_state,' in src[src.index('CALL mark_job_complete'):src.index('CALL mark_job_complete') + 400], '', kind='scan'))
