"""C04 - jobs follow the lifecycle and complete at most once.

Every stored procedure that assigns jobs.state (closed-world scan of the effective routines) is executed symbolically; for
every path, every row and every argument:
  * each point UPDATE of jobs.state is an allowed transition (Pending->Ready->Creating->Running->terminal, Ready/Creating/
    Running -> terminal, Creating/Running -> Ready) or leaves the state unchanged; terminal states are absorbing; a Pending job
    is only ever rewritten to Pending or Ready;
  * set-oriented updates: deactivate_instance rewrites only Creating/Running jobs to Ready; the children statement of
    mark_job_complete rewrites a child to Pending/Ready, which is an allowed transition under invariant N' of C05 (a child of
    an unfinished parent is Pending) - N' is taken as hypothesis here and preserved under C05;
  * mark_job_complete: the tally statement on job_groups_n_jobs_in_complete_states is executed on exactly the paths that
    move the job from a non-terminal to a terminal state (so per job at most once over any history, because terminal is
    absorbing); it touches exactly the ancestors anc*(b, group of the job), adds 1 to n_completed and 1 to exactly one of
    n_succeeded / n_failed / n_cancelled; the stale-attempt path (rc = 2) and the already-complete path write no job/tally row.
  * fall-back: a rewrite Creating/Running -> Ready (any statement, any writer) happens only when the job's OWN CURRENT attempt
    (jobs.attempt_id before the rewrite) is one of the attempts the call withdraws - unschedule_job(b, j, a): attempt a of job
    (b, j); deactivate_instance(i): the attempts placed on instance i; any other procedure: none (oracle `_withdrawn`) - and that
    attempt is ended in the final database of the same call;
  * the result row of mark_job_complete says `rc = 0 and old_state not terminal` on exactly the completing paths.
Precondition terminal(new_state) of mark_job_complete is discharged at the Python call sites (AST obligations).
Python side (pyvc, `mark_job_complete_py_contract`): the real coroutine driver.job.mark_job_complete calls the procedure exactly
once with the reported job, attempt and state; its completion effects (batch callback, job-group callbacks, killing the
job-private instance) happen at most once and only for a row that says this call completed the job - never for a duplicate,
late (whatever terminal state it carries) or stale report; also on exceptional exits.  Failing Python obligations are replayed
on the real coroutine (contracts/native/c04_replay.py).
"""
from __future__ import annotations

import ast as pyast
import glob
import os

import z3

from contracts import sqlspec as SP
from vc import core, pyvc, sqlast as A, sqlvc
from vc.pyvc import Contract, Fork, SRecord, to_z3
from vc.sqlvc import intern


def _state_writers(ex):
    out = []
    for name, r in ex.routines.items():
        if r.kind != 'procedure':
            continue
        for n in r.body.walk():
            if isinstance(n, A.Update):
                tabs = [t.name for t in ([n.tables] if isinstance(n.tables, A.TableRef) else n.tables.walk()) if isinstance(t, A.TableRef)]
                if 'jobs' in tabs and any(t.parts[-1] == 'state' and (len(t.parts) == 1 or t.parts[0] == 'jobs') for t, _ in n.assignments):
                    # `state` could belong to another joined table: keep only if jobs has the column and no other table does unqualified
                    out.append(name)
                    break
    return sorted(set(out))


# procedures that withdraw attempts -> their time-of-withdrawal parameter (non-NULL at the call sites: C03)
WITHDRAWS = {'unschedule_job': 'new_end_time', 'deactivate_instance': 'in_timestamp'}


def _falls_back(o, n_):
    return z3.And(SP.is_state(o, 'Creating', 'Running'), SP.is_state(n_, 'Ready'))


def _fallback_obligation(ctx, oname, pc, local, goal, aff=None):
    """pc /\\ [aff] /\\ local => goal.  Most statements can never produce the rewrite at all (a literal new state other than
    'Ready', a terminal new_state, a Pending child): when `local` alone is contradictory the obligation is stated without the path
    condition (valid a fortiori, and cheap)"""
    if not sqlvc.feasible(local, 1000):
        ctx.add(core.valid(oname, list(local), goal))
    else:
        SP.add_valid(ctx, oname, list(pc), ([aff] if aff is not None else []) + list(local), goal)


def _withdrawn(name, vars_, base, jobkey, att):
    """ORACLE (from the meaning of the calls, not from their text): is attempt `att` of job `jobkey` - the job's own current
    attempt, jobs.attempt_id before the rewrite - one of the attempts that a call of procedure `name` withdraws?
      unschedule_job(b, j, a, ..)      withdraws exactly attempt a of job (b, j);
      deactivate_instance(i, ..)       withdraws exactly the attempts placed on instance i (attempts.instance_name = i);
      every other procedure            withdraws nothing (so it may never move a Creating/Running job back to Ready)."""
    if name == 'unschedule_job':
        a = vars_['in_attempt_id']
        return z3.And(jobkey[0] == vars_['in_batch_id'].v, jobkey[1] == vars_['in_job_id'].v, z3.Not(att.n), z3.Not(a.n), att.v == a.v)
    if name == 'deactivate_instance':
        at = base.tab('attempts')
        akey = list(jobkey) + [att.v]
        inst = at.get(akey, 'instance_name')
        i = vars_['in_instance_name']
        return z3.And(z3.Not(att.n), at.has(akey), z3.Not(inst.n), z3.Not(i.n), inst.v == i.v)
    return z3.BoolVal(False)


def build(ctx):
    ex = SP.proc_exec(inline_after=False)
    writers = _state_writers(ex)
    row_shapes = set()  # (column names, constant rc or None) of the result rows of PROCEDURE mark_job_complete, read off its paths
    ctx.extra['procedures_assigning_jobs_state'] = writers
    expected = {'schedule_job', 'mark_job_creating', 'mark_job_started', 'unschedule_job', 'deactivate_instance', 'mark_job_complete', 'commit_batch_update'}
    ctx.add(core.decided('closed-world/procedures-assigning-jobs.state', set(writers) <= expected and {'mark_job_complete', 'schedule_job'} <= set(writers), repr(writers), kind='scan'))
    for name in writers:
        if name == 'commit_batch_update':
            ctx.undecided('commit_batch_update (derived tables with GROUP BY are outside the sqlvc subset): its Pending->Ready rewrite is covered under C05 when brought into reach')
            continue
        rt = ex.routines[name]
        ctx.under_contract(SP.rel(rt.source_file), 'PROCEDURE ' + name)
        st0 = ex.new_state()
        for t in ('jobs', 'job_parents', 'job_group_self_and_ancestors', 'job_groups_n_jobs_in_complete_states', 'attempts'):
            st0.db.tab(t)
        base = st0.db.fork()
        outs = ex.run_procedure(name, st0)
        n_trans = []
        fallbacks = []
        said = []
        for pi, s in enumerate(outs):
            pre = []
            if name == 'mark_job_complete':
                pre.append(SP.terminal(s.vars['new_state']))
            jobs_updates = [e for e in s.effects if e.table == 'jobs' and e.kind in ('update', 'update-set') and not e.data.get('rolled_back')]
            tally_updates = [e for e in s.effects if e.table == 'job_groups_n_jobs_in_complete_states' and e.kind in ('update', 'update-set') and not e.data.get('rolled_back')]
            hyps_all = list(s.pc) + pre
            if not sqlvc.feasible(hyps_all, 3000):
                continue
            to_terminal = []
            for ei, e in enumerate(jobs_updates):
                hyps = list(s.pc[: e.data['pc_len']]) + pre
                if e.kind == 'update':
                    o, n_ = e.data['old']['state'], e.data['new']['state']
                    ctx.add(core.valid('%s/path%d/jobs-update%d/allowed-transition' % (name, pi, ei), hyps, SP.allowed_transition(o, n_)))
                    ctx.add(core.valid('%s/path%d/jobs-update%d/terminal-is-absorbing' % (name, pi, ei), hyps + [SP.terminal(o)], sqlvc.sv_eq_values(o, n_)))
                    n_trans.append(z3.And(*hyps, z3.Not(sqlvc.sv_eq_values(o, n_))))
                    to_terminal.append(z3.And(z3.Not(SP.terminal(o)), SP.terminal(n_)))
                    fb = _falls_back(o, n_)
                    _fallback_obligation(ctx, '%s/path%d/jobs-update%d/falls-back-to-ready-only-when-its-own-current-attempt-is-the-one-withdrawn' % (name, pi, ei), s.pc[: e.data['pc_len']], pre + [fb], _withdrawn(name, s.vars, base, e.data['key'], e.data['old']['attempt_id']))
                    fallbacks.append((z3.And(*hyps, fb), e.data['key'], e.data['old']['attempt_id'], s))
                else:
                    o, n_ = e.data['old_row']['state'], e.data['new_row']['state']
                    aff = e.data['affected']
                    extra = []
                    if name == 'mark_job_complete':
                        # invariant N' (C05): a child whose parent is not terminal is Pending.  The statement is reached only
                        # when the parent (the completing job) was Ready/Creating/Running before this call.
                        extra.append(SP.is_state(o, 'Pending'))
                        ctx.add(core.valid('%s/path%d/jobs-update%d/children-statement-reached-only-for-a-non-terminal-parent' % (name, pi, ei), hyps, SP.is_state(base.tab('jobs').get([s.vars['in_batch_id'].v, s.vars['in_job_id'].v], 'state'), 'Ready', 'Creating', 'Running')))
                        kv = e.data['kvars']
                        jp = base.tab('job_parents')
                        ctx.add(core.valid('%s/path%d/jobs-update%d/children-statement-touches-children-only' % (name, pi, ei), hyps + [aff], z3.And(kv[0] == s.vars['in_batch_id'].v, jp.has([kv[0], kv[1], s.vars['in_job_id'].v]))))
                    n_trans.append(z3.And(*hyps, aff, z3.Not(sqlvc.sv_eq_values(o, n_))))
                    fb = _falls_back(o, n_)
                    _fallback_obligation(ctx, '%s/path%d/jobs-update%d/set-update-falls-back-to-ready-only-when-its-own-current-attempt-is-the-one-withdrawn' % (name, pi, ei), s.pc[: e.data['pc_len']], pre + [fb] + extra, _withdrawn(name, s.vars, base, e.data['kvars'], e.data['old_row']['attempt_id']), aff)
                    fallbacks.append((z3.And(*hyps, aff, fb, *extra), e.data['kvars'], e.data['old_row']['attempt_id'], s))
                    ctx.add(core.valid('%s/path%d/jobs-update%d/set-update-allowed-transition' % (name, pi, ei), hyps + [aff] + extra, SP.allowed_transition(o, n_)))
                    ctx.add(core.valid('%s/path%d/jobs-update%d/set-update-terminal-is-absorbing' % (name, pi, ei), hyps + [aff, SP.terminal(o)] + extra, sqlvc.sv_eq_values(o, n_)))
            if name == 'mark_job_complete':
                completes = z3.Or(*to_terminal) if to_terminal else z3.BoolVal(False)
                if tally_updates:
                    ctx.add(core.valid('%s/path%d/tally-only-together-with-the-transition-to-terminal' % (name, pi), hyps_all, completes))
                    ctx.add(core.decided('%s/path%d/exactly-one-tally-statement' % (name, pi), len(tally_updates) == 1 and tally_updates[0].kind == 'update-set', repr([(e.kind, e.line) for e in tally_updates]), kind='scan'))
                    e = tally_updates[0]
                    kv, aff, o, n_ = e.data['kvars'], e.data['affected'], e.data['old_row'], e.data['new_row']
                    hyps = list(s.pc[: e.data['pc_len']]) + pre
                    bb, jj = s.vars['in_batch_id'], s.vars['in_job_id']
                    grp = base.tab('jobs').get([bb.v, jj.v], 'job_group_id')
                    jgsa = base.tab('job_group_self_and_ancestors')
                    tall = base.tab('job_groups_n_jobs_in_complete_states')
                    want = z3.And(kv[0] == bb.v, jgsa.has([bb.v, grp.v, kv[1]]), tall.has(kv))
                    ctx.add(core.valid('%s/path%d/tally-touches-exactly-the-ancestors-of-the-jobs-group' % (name, pi), hyps, aff == want))
                    d = lambda c: n_[c].v - o[c].v
                    ctx.add(core.valid('%s/path%d/tally-adds-one-completed-and-one-outcome' % (name, pi), hyps + [aff], z3.And(d('n_completed') == 1, d('n_succeeded') + d('n_failed') + d('n_cancelled') == 1, d('n_succeeded') >= 0, d('n_failed') >= 0, d('n_cancelled') >= 0)))
                    ns = s.vars['new_state']
                    ctx.add(core.valid('%s/path%d/tally-outcome-matches-the-new-state' % (name, pi), hyps + [aff], z3.And((d('n_succeeded') == 1) == SP.is_state(ns, 'Success'), (d('n_cancelled') == 1) == SP.is_state(ns, 'Cancelled'), (d('n_failed') == 1) == SP.is_state(ns, 'Failed', 'Error'))))
                else:
                    ctx.add(core.valid('%s/path%d/no-tally-means-no-transition-to-terminal' % (name, pi), hyps_all, z3.Not(completes)))
                # what the driver is told: the row answers `rc = 0 and an old_state that is not terminal` on exactly the paths that
                # completed the job (the Python caller keys its completion effects on that: mark_job_complete_py_contract)
                res = dict(s.results[-1]) if s.results else {}
                rc_, old_ = res.get('rc'), res.get('old_state')
                if s.results:
                    rcv = z3.simplify(rc_.v) if rc_ is not None and z3.is_false(z3.simplify(rc_.n)) else None
                    row_shapes.add((tuple(c for c, _ in s.results[-1]), rcv.as_long() if rcv is not None and z3.is_int_value(rcv) else None))
                ctx.add(core.decided('%s/path%d/answers-with-exactly-one-result-row-carrying-rc' % (name, pi), len(s.results) == 1 and rc_ is not None, repr([[c for c, _ in r] for r in s.results]), kind='scan'))
                if rc_ is not None:
                    is0 = z3.And(z3.Not(rc_.n), rc_.v == 0)
                    says = z3.And(is0, z3.Not(SP.terminal(old_))) if old_ is not None else z3.BoolVal(False)
                    SP.add_valid(ctx, '%s/path%d/result-row-says-completed-exactly-when-this-call-completed-the-job' % (name, pi), hyps_all, [], says == completes)
                    if old_ is None:  # the driver reads old_state from every rc = 0 row
                        SP.add_valid(ctx, '%s/path%d/an-rc-0-row-carries-old_state' % (name, pi), hyps_all, [], z3.Not(is0))
                    said.append(z3.And(*hyps_all, says))
        ctx.add(core.satisfiable('%s/vacuity/some-path-changes-a-state' % name, z3.Or(*n_trans) if n_trans else z3.BoolVal(False)))
        if name == 'mark_job_complete':
            ctx.add(core.satisfiable('%s/vacuity/some-path-answers-that-this-call-completed-the-job' % name, z3.Or(*said) if said else z3.BoolVal(False)))
        if name in WITHDRAWS:
            # the clause is not vacuous: the withdrawing procedures do reset a job, and then the attempt that justified the reset
            # is really taken away by the same call (its row is ended in the final database)
            ctx.add(core.satisfiable('%s/vacuity/some-path-lets-a-job-fall-back-to-ready' % name, z3.Or(*[f[0] for f in fallbacks]) if fallbacks else z3.BoolVal(False)))
            for fi, (cond, key, att, s) in enumerate(fallbacks):
                akey = list(key) + [att.v]
                t_end = s.vars[WITHDRAWS[name]]
                post = s.db.tab('attempts')
                # ended = carries a reason or an end time (an attempt that was given a reason without an end time stays so: C03 (d))
                SP.add_valid(ctx, '%s/fallback%d/the-attempt-whose-withdrawal-resets-the-job-is-ended-by-the-same-call' % (name, fi), [cond], [z3.Not(att.n), base.tab('attempts').has(akey), z3.Not(t_end.n)], z3.Or(z3.Not(post.get(akey, 'end_time').n), z3.Not(post.get(akey, 'reason').n)), dedupe_key=name + '/withdrawn-attempt-ended')
    SP.lock_discipline(ctx, ex, [w for w in writers])
    _call_sites(ctx)
    _python_side(ctx, row_shapes)
    from contracts import sqlspec as _SP
    _SP.engine_obligations(ctx, ex)
    ctx.assume('each procedure call is atomic (serialisable isolation); MySQL NULL/boolean semantics as encoded in vc/sqlvc.py')
    ctx.assume("invariant N' (a child of a non-terminal parent is Pending) is a hypothesis of the children statement here; its preservation is C05's obligation")
    ctx.assume('"at most once per job over any history" follows from: the tally statement runs only together with a non-terminal -> terminal transition of that job, and terminal states are absorbing (ranking argument)')
    ctx.undecided('worker-side message generation; uniqueness of attempt ids')


JOB_PY = 'batch/batch/driver/job.py'


def _imported_constants(path, tree):
    """names that `path` imports with `from <relative module> import NAME`, resolved to the module-level constants of the REAL
    imported module (re-read on every run): e.g. job.py's complete_states is batch/batch/globals.py's tuple"""
    out = {}
    base = os.path.dirname(path)
    for n in tree.body:
        if isinstance(n, pyast.ImportFrom) and n.level >= 1 and n.module:
            d = base
            for _ in range(n.level - 1):
                d = os.path.dirname(d)
            cand = os.path.join(d, *n.module.split('.')) + '.py'
            if not os.path.exists(os.path.join(core.REPO, cand)):
                continue
            consts = pyvc.module_constants(pyast.parse(core.read_repo(cand)))
            for a in n.names:
                if a.name in consts and isinstance(consts[a.name], (tuple, str, int, frozenset)):
                    out[a.asname or a.name] = consts[a.name]
    return out


def mark_job_complete_py_contract(row_shapes):
    """driver.job.mark_job_complete (the real coroutine): the stored procedure is called exactly once with the caller's
    new_state; the row it answers with decides everything else.  The COMPLETION EFFECTS - the batch callback, the job-group
    callbacks and killing the job-private instance - happen only for the one report that moved the job into its terminal state
    (rc = 0 and an old_state that is not terminal: exactly the paths of the procedure that run the tally statement, see
    `result-row-says-completed-exactly-when-this-call-completed-the-job`), each at most once; a duplicate, late (already
    complete, whatever terminal state the late report carries) or stale-attempt (rc = 2) report triggers none of them."""
    src = core.read_repo(JOB_PY)
    tree = pyast.parse(src)

    def fetchone(eng, st, args, kw, node):
        sql = args[1] if len(args) > 1 else None
        if not (isinstance(sql, str) and sql.strip().upper().startswith('CALL MARK_JOB_COMPLETE')):
            raise core.Undecided('unrecognised statement in driver.job.mark_job_complete: %r' % (sql,))
        vals = args[2] if len(args) > 2 else None
        proc_params = [p_.name for p_ in SP.proc_exec().routines['mark_job_complete'].params]
        if not isinstance(vals, tuple) or len(vals) != len(proc_params) or sql.count('%s') != len(proc_params):
            raise core.Undecided('CALL mark_job_complete arguments do not match the parameters of the procedure')
        eng.oblige(st, 'the-procedure-is-called-before-any-completion-effect', z3.And(st.env['n_batch_callbacks'] == 0, st.env['n_group_callbacks'] == 0, st.env['n_kills'] == 0))
        st.env['n_db_calls'] = st.env['n_db_calls'] + 1
        sent = dict(zip(proc_params, vals))
        for k in ('in_batch_id', 'in_job_id', 'in_attempt_id', 'new_state'):
            st.env['sent_' + k] = to_z3(sent[k], 'U')
        # one alternative per kind of result row of the REAL procedure (columns and rc as selected on its paths): the columns the
        # coroutine may read are exactly those the procedure selects
        rc = z3.Int('db_rc')
        alts = []
        # (columns whose name occurs nowhere in the coroutine as a string literal cannot be read by it: rows that differ only
        # in such columns are one alternative; a computed key makes the subscript undecided in the executor)
        fn_node = pyvc.find_function(tree, 'mark_job_complete')
        literals = {n.value for n in pyast.walk(fn_node) if isinstance(n, pyast.Constant) and isinstance(n.value, str)}
        for cols, rcv in sorted({(tuple(c for c in cols if c in literals or c == 'rc'), rcv) for cols, rcv in row_shapes}, key=repr):
            if 'rc' not in cols:
                raise core.Undecided('a result row of PROCEDURE mark_job_complete has no rc column: %r' % (cols,))
            row = SRecord('row', {c: (rc if c == 'rc' else z3.Const('db_old_state', pyvc.U) if c == 'old_state' else z3.Int('db_delta_cores_mcpu') if c == 'delta_cores_mcpu' else z3.Const(pyvc.fresh_name('db_' + c), pyvc.U)) for c in cols})
            alts.append(('row(%s)%s' % (','.join(cols), '' if rcv is None else '[rc=%d]' % rcv), rc == rcv if rcv is not None else None, 'value', row, None))
        if not alts:
            raise core.Undecided('PROCEDURE mark_job_complete answers with no result row')
        e = z3.Const(pyvc.fresh_name('db_exc'), pyvc.U)
        raise Fork(node, alts + [('db-error', None, 'raise', pyvc.SExc(term=e), None)])

    def effect(counter, may_raise=True):
        def model(eng, st, args, kw, node):
            st.env[counter] = st.env[counter] + 1
            if not may_raise:
                return None
            e = z3.Const(pyvc.fresh_name('exc_' + counter), pyvc.U)
            raise Fork(node, [('done', None, 'value', None, None), ('fails', None, 'raise', pyvc.SExc(term=e), None)])
        return model

    def aar(eng, st, args, kw, node):
        e = z3.Const(pyvc.fresh_name('aar_exc'), pyvc.U)
        raise Fork(node, [('resources-recorded', None, 'value', None, None), ('resources-fail', None, 'raise', pyvc.SExc(term=e), None)])

    nop = lambda eng, st, args, kw, node: None  # noqa: E731
    opaque = lambda name: (lambda eng, st, args, kw, node: z3.Const(pyvc.fresh_name(name), pyvc.U))  # noqa: E731
    completed = 'db_rc == 0 and not (db_old_state in TERMINAL)'
    none_unless = 'implies(n_batch_callbacks + n_group_callbacks + n_kills > 0, n_db_calls == 1 and %s)' % completed
    consts = _imported_constants(JOB_PY, tree)
    # app[CommonAiohttpAppKeys.CLIENT_SESSION]: an application key object; which key it is does not matter here
    consts.update({'CommonAiohttpAppKeys': SRecord('AppKeys', {'CLIENT_SESSION': 'CommonAiohttpAppKeys.CLIENT_SESSION'})})
    consts.update({'TERMINAL': tuple(SP.TERMINAL), 'db_rc': z3.Int('db_rc'), 'db_old_state': z3.Const('db_old_state', pyvc.U)})
    return Contract(
        path=JOB_PY,
        qualname='mark_job_complete',
        label='driver.job.mark_job_complete',
        types={'new_state': 'U', 'batch_id': 'U', 'job_id': 'U', 'attempt_id': 'U', 'resources': 'U', 'marked_job_started': 'bool', 'instance_name': 'U',
               '.state': 'U', '.inst_coll': 'U', '.is_pool': 'bool', '.inst_coll_manager': 'U'},
        requires=['new_state in TERMINAL'],
        consts=consts,
        ghost_init={'n_db_calls': '0', 'n_batch_callbacks': '0', 'n_group_callbacks': '0', 'n_kills': '0'},
        setup=lambda eng, st: st.env.update({'sent_' + k: z3.Const('nosent_' + k, pyvc.U) for k in ('in_batch_id', 'in_job_id', 'in_attempt_id', 'new_state')}),
        calls={
            '.execute_and_fetchone': fetchone, 'notify_batch_job_complete': effect('n_batch_callbacks'), 'notify_job_group_on_job_complete': effect('n_group_callbacks'),
            '.kill': effect('n_kills', may_raise=False), 'add_attempt_resources': aar, 'time_msecs': lambda eng, st, args, kw, node: z3.Int(pyvc.fresh_name('now')),
            'json.dumps': opaque('json'), 'log.info': nop, 'log.warning': nop, 'log.exception': nop, 'log.error': nop,
            '.notify': nop, '.set': nop, '.get_instance': opaque('instance'), '.adjust_free_cores_in_memory': nop, '.ensure_future': nop,
        },
        raises={'*': True},  # a failing statement / callback propagates; what must hold then is `on_raise`
        on_raise=[('no-completion-effect-unless-this-call-completed-the-job', none_unless)],
        ensures=[
            ('the-procedure-is-called-exactly-once', 'n_db_calls == 1'),
            ('the-procedure-is-called-for-the-reported-job-attempt-and-state', 'sent_in_batch_id == batch_id and sent_in_job_id == job_id and sent_in_attempt_id == attempt_id and sent_new_state == new_state'),
            ('no-completion-effect-unless-this-call-completed-the-job', none_unless),
            ('each-completion-effect-at-most-once', 'n_batch_callbacks <= 1 and n_group_callbacks <= 1 and n_kills <= 1'),
        ],
        canaries=[('no-callback-ever', 'n_batch_callbacks == 0 and n_group_callbacks == 0'), ('no-instance-ever-killed', 'n_kills == 0'), ('every-report-notifies', 'n_batch_callbacks == 1')],
    )


_REPLAY = {}


def native_witness(ctx=None):
    """bounded enumeration of result rows / reports on the REAL driver.job.mark_job_complete (contracts/native/c04_replay.py);
    confirmed only for an input whose completion effects were observed on the real coroutine"""
    if 'r' not in _REPLAY:
        _REPLAY['r'] = core.run_native(open(os.path.join(os.path.dirname(__file__), 'native', 'c04_replay.py')).read(), {})
    return _REPLAY['r']


def sql_row_shapes(ex=None):
    """(column names, constant rc or None) of every result row the REAL procedure mark_job_complete can answer with"""
    ex = ex or SP.proc_exec(inline_after=False)
    shapes = set()
    for s in ex.run_procedure('mark_job_complete', ex.new_state()):
        if s.results:
            rc_ = dict(s.results[-1]).get('rc')
            rcv = z3.simplify(rc_.v) if rc_ is not None and z3.is_false(z3.simplify(rc_.n)) else None
            shapes.add((tuple(c for c, _ in s.results[-1]), rcv.as_long() if rcv is not None and z3.is_int_value(rcv) else None))
    return shapes


def _python_side(ctx, row_shapes=None):
    row_shapes = row_shapes if row_shapes else sql_row_shapes()
    ctx.extra['mark_job_complete_result_row_shapes'] = sorted(map(repr, row_shapes))
    eng = pyvc.Engine(ctx, mark_job_complete_py_contract(row_shapes))
    eng.replayer = lambda model, obl: native_witness()
    eng.run()
    ctx.add(core.decided('driver.job.mark_job_complete/no-call-outside-the-contract', not eng.unmodelled, repr(eng.unmodelled), kind='frame'))
    ctx.assume('db.execute_and_fetchone returns the single result row of the CALL (rc, old_state, delta_cores_mcpu as selected by the procedure) or raises; notify_batch_job_complete / notify_job_group_on_job_complete / Instance.kill are the completion effects (their bodies - callback delivery - are not verified)')


def _call_sites(ctx):
    """terminal(new_state) at every Python call of driver.job.mark_job_complete"""
    src = core.read_repo('batch/batch/driver/job.py')
    tree = pyast.parse(src)
    fn = [n for n in pyast.walk(tree) if isinstance(n, pyast.AsyncFunctionDef) and n.name == 'mark_job_complete'][0]
    params = [a.arg for a in fn.args.args]
    idx = params.index('new_state')
    sites = []
    ok = True
    for fp in sorted(glob.glob(os.path.join(core.REPO, 'batch', 'batch', '**', '*.py'), recursive=True)):
        t = pyast.parse(open(fp).read())
        for f in pyast.walk(t):
            if not isinstance(f, (pyast.AsyncFunctionDef, pyast.FunctionDef)):
                continue
            for n in pyast.walk(f):
                if isinstance(n, pyast.Call) and getattr(n.func, 'id', getattr(n.func, 'attr', None)) == 'mark_job_complete' and len(n.args) > idx:
                    a = n.args[idx]
                    txt = pyast.unparse(a)
                    if isinstance(a, pyast.Constant):
                        good = a.value in SP.TERMINAL
                    elif isinstance(a, pyast.Name):
                        # a local variable: every assignment to it in the enclosing function must be a terminal literal
                        assigns = [x for x in pyast.walk(f) if isinstance(x, pyast.Assign) and any(isinstance(tg, pyast.Name) and tg.id == a.id for tg in x.targets)]
                        good = bool(assigns) and all(isinstance(x.value, pyast.Constant) and x.value.value in SP.TERMINAL for x in assigns)
                    else:
                        good = False
                    sites.append((os.path.relpath(fp, core.REPO), n.lineno, txt, good))
                    ok = ok and good
    ctx.add(core.decided('call-sites/mark_job_complete-new_state-is-terminal', ok and len(sites) >= 3, repr(sites), kind='scan'))
    ctx.under_contract('batch/batch/driver/job.py', 'mark_job_complete (new_state argument at all call sites)')
    # the Python wrapper passes new_state through unchanged to the CALL
    call = [n for n in pyast.walk(fn) if isinstance(n, pyast.Constant) and isinstance(n.value, str) and 'CALL mark_job_complete' in n.value]
    ctx.add(core.decided('wrapper/passes-new_state-through', bool(call) and 'new_state,' in src[src.index('CALL mark_job_complete'):src.index('CALL mark_job_complete') + 400], '', kind='scan'))
