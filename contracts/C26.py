"""C26 - the service cache is bounded, fresh and single-flight.

Target: gear/gear/time_limited_max_size_cache.py  TimeLimitedMaxSizeCache.lookup with its helpers _put / _remove /
_over_capacity / _evict_oldest (real bodies, inlined), __init__ (scan).

Atomic segments (asyncio switches tasks only at an await): shared state = the four containers, modelled as finite maps
(membership array, value array, cardinality maintained by every insertion / deletion); _keys_by_expiry[0] is "a member with
minimal expiry time".  Ghost state: tlast (last clock reading, time.monotonic_ns() is assumed non-decreasing), PUT[k] (clock
reading when k was stored), owner[k] (task that created _futures[k]), nload[k] (loads of k in flight).

Invariant at every await and every exit of lookup, for all schedules and any number of tasks:
  * _cache, _expiry_time and _keys_by_expiry have the same keys and the same cardinality, which is <= num_slots   (bounded);
  * _expiry_time[k] = PUT[k] + lifetime_ns and PUT[k] <= tlast;
  * nload[k] = 1 if k in _futures else 0                                                                        (single flight).
Guarantee of every segment of task `me` (= rely of the others): it neither removes, replaces nor re-owns a future created by
another task, and it does not store a key whose load another task owns.
Obligations: a hit is returned only with _expiry_time[k] > now, hence now - PUT[k] < lifetime_ns (fresh); create_task(load(k))
only with nload[k] = 0 (at most one load per key among concurrent lookups); _put only stores a key that is absent
(a SortedSet.add of a present key with a changed sort key would corrupt it); the value returned on a miss is the loaded one.
Failure isolation: the creator awaits the shared task directly, so cancelling the creator cancels the load and every other
waiter of that key fails with CancelledError although neither its load failed nor it was cancelled - obligation
`creator-cancellation-does-not-cancel-the-shared-load`, which FAILS on the unchanged tree (known finding F7, replayed natively).
"""
from __future__ import annotations

import ast as pyast
import os

import z3

from vc import core, pyvc
from vc.pyclass import ClassIndex, Inliner
from vc.pyvc import Contract, Fork, SExc, SMap, SRecord, to_z3
from vc.segments import Monitor

PATH = 'gear/gear/time_limited_max_size_cache.py'
CLS = 'TimeLimitedMaxSizeCache'

INV = [
    ('parameters', 'self.lifetime_ns > 0 and self.num_slots > 0'),
    ('containers-have-the-same-keys', "forall('U', lambda q: (q in self._cache) == (q in self._expiry_time) and (q in self._cache) == (q in self._keys_by_expiry))"),
    ('containers-have-the-same-size', 'len(self._cache) == len(self._keys_by_expiry) and len(self._expiry_time) == len(self._keys_by_expiry) and len(self._keys_by_expiry) >= 0'),
    ('bounded-by-num_slots', 'len(self._keys_by_expiry) <= self.num_slots'),
    ('expiry-is-store-time-plus-lifetime', "forall('U', lambda q: implies(q in self._cache, self._expiry_time[q] == PUT[q] + self.lifetime_ns and PUT[q] <= tlast))"),
    ('one-load-in-flight-exactly-for-the-keys-in-_futures', "forall('U', lambda q: nload[q] == (1 if q in self._futures else 0))"),
]
GUAR = [
    ('clock-monotone', 'tlast >= seg_tlast'),
    ('futures-of-other-tasks-untouched', "forall('U', lambda q: implies(q in seg_self__futures and seg_owner[q] != me, q in self._futures and owner[q] == seg_owner[q] and self._futures[q] == seg_self__futures[q]))"),
    ('keys-loading-elsewhere-are-not-stored', "forall('U', lambda q: implies(q in seg_self__futures and seg_owner[q] != me, implies(q in self._cache, q in seg_self__cache)))"),
]
MON = Monitor(
    fields={'_futures': 'Map[U, U]', '_cache': 'Map[U, U]', '_expiry_time': 'Map[U, int]', '_keys_by_expiry': 'Map[U, bool]', '_shutting_down': 'bool', 'lifetime_ns': 'int', 'num_slots': 'int', 'load': 'U', 'cache_name': 'U'},
    ghosts={'tlast': 'int', 'PUT': 'Array[U, int]', 'owner': 'Array[U, int]', 'nload': 'Array[U, int]'},
    inv=INV,
    guar=GUAR,
    frozen=['lifetime_ns', 'num_slots', 'load', 'cache_name'],
)
RELY_ALWAYS = ['tlast >= cut_tlast']
RELY_CREATOR = RELY_ALWAYS + ['k in self._futures and owner[k] == me and self._futures[k] == cut_self__futures[k]', 'implies(k in self._cache, k in cut_self__cache)']


class SegEngine(pyvc.Engine):
    top = False

    def at_return(self, st, res):
        if self.top:
            MON.end_segment(self, st, 'return')
        super().at_return(st, res)

    def at_raise(self, st, exc):
        if self.top:
            MON.end_segment(self, st, 'raise-%s' % (exc.cls or 'exc'))
        super().at_raise(st, exc)

    def index(self, cont, idx, st, node=None):
        # SortedSet[0]: a member whose sort key (_expiry_time) is minimal
        if isinstance(cont, SMap) and cont.vt == 'bool' and isinstance(idx, int) and idx == 0:
            self.oblige(st, 'safety/oldest-of-a-non-empty-set@L%d' % getattr(node, 'lineno', 0), cont.size > 0, kind='safety')
            o = z3.Const(pyvc.fresh_name('oldest'), pyvc.U)
            q = z3.Const(pyvc.fresh_name('q_old'), pyvc.U)
            exp = st.env['self'].fields['_expiry_time']
            st.assume(z3.Select(cont.has, o))  # cardinality > 0: some member exists (size is the cardinality by construction)
            st.assume(z3.ForAll([q], z3.Implies(z3.Select(cont.has, q), z3.Select(exp.val, o) <= z3.Select(exp.val, q))))
            return o
        return super().index(cont, idx, st, node)


def _clock(eng, st, args, kw, node):
    t = z3.Int(pyvc.fresh_name('clock'))
    st.assume(t >= st.env['tlast'])
    st.env['tlast'] = t
    return t


def _metric(name):
    return lambda eng, st, args, kw, node: SRecord('metric', {'name': name})


def _inc(eng, st, args, kw, node):
    rec = args[0]
    if isinstance(rec, SRecord) and rec.fields.get('name') == 'hits':
        st.env['hit'] = True
    if isinstance(rec, SRecord) and rec.fields.get('name') == 'evictions':
        st.env['evicted'] = True
    return None


def _create_task(eng, st, args, kw, node):
    k = to_z3(st.env['k'], 'U')
    eng.oblige(st, 'single-flight/no-load-of-this-key-in-flight-when-a-load-is-started', z3.Select(st.env['nload'], k) == 0)
    eng.oblige(st, 'single-flight/loads-the-key-that-was-looked-up', to_z3(args[0], 'U') == eng.uf('load_of', ['U'], 'U')(k))
    st.env['nload'] = z3.Store(st.env['nload'], k, z3.Select(st.env['nload'], k) + 1)
    st.env['owner'] = z3.Store(st.env['owner'], k, st.env['me'])
    st.env['i_created'] = True
    return z3.Const(pyvc.fresh_name('task'), pyvc.U)


def _await(eng, st, args, kw, node):
    v = args[0]
    shielded = False
    if isinstance(v, tuple) and v and v[0] == 'timed':
        v = v[1]
    if isinstance(v, tuple) and v and v[0] == 'shielded':
        shielded, v = True, v[1]
    fut = to_z3(v, 'U')
    k = to_z3(st.env['k'], 'U')
    futs = st.env['self'].fields['_futures']
    eng.oblige(st, 'awaits-the-future-registered-for-the-key', z3.And(z3.Select(futs.has, k), fut == z3.Select(futs.val, k)))
    creator = bool(st.env.get('i_created'))
    if creator:
        eng.oblige(st, 'isolation/creator-cancellation-does-not-cancel-the-shared-load', z3.BoolVal(shielded))
    MON.end_segment(eng, st, ('creator-await' if creator else 'waiter-await') + '@L%d' % node.lineno)
    val = z3.Const(pyvc.fresh_name('loaded'), pyvc.U)
    err = z3.Const(pyvc.fresh_name('load_exc'), pyvc.U)
    rely = RELY_CREATOR if creator else RELY_ALWAYS

    def done(s):
        # the load of k has ended (value, exception, or cancellation that reached the task)
        kk = to_z3(s.env['k'], 'U')
        s.env['nload'] = z3.Store(s.env['nload'], kk, z3.Select(s.env['nload'], kk) - 1)

    def resume(s):
        MON.interfere(eng, s, rely)
        if creator:
            done(s)
        s.env['LOADED'] = val

    def failed(s):
        MON.interfere(eng, s, rely)
        if creator:
            done(s)
        s.env['last_exc'] = err

    def cancelled(s):
        MON.interfere(eng, s, rely)
        if creator and not shielded:
            done(s)  # asyncio: cancelling a task that awaits a future cancels that future too
        s.env['self_cancelled'] = True

    raise Fork(node, [('resumes-with-the-loaded-value', None, 'value', val, resume), ('load-raised', None, 'raise', SExc(term=err), failed), ('cancelled-at-await', None, 'raise', SExc('CancelledError'), cancelled)])


def _setup(eng, st):
    MON.setup(eng, st)
    st.env['me'] = z3.Int('me')
    MON.assume_inv(eng, st)
    MON.begin_segment(eng, st)


def lookup_contract(inl):
    calls = {
        'time.monotonic_ns': _clock,
        'CACHE_HITS.labels': _metric('hits'), 'CACHE_MISSES.labels': _metric('misses'), 'CACHE_EVICTIONS.labels': _metric('evictions'), 'CACHE_LOAD_LATENCY.labels': _metric('latency'),
        '.inc': _inc,
        'self.load': lambda eng, st, args, kw, node: eng.uf('load_of', ['U'], 'U')(to_z3(args[0], 'U')),
        'asyncio.create_task': _create_task,
        'asyncio.shield': lambda eng, st, args, kw, node: ('shielded', args[0]),
        'prom_async_time': lambda eng, st, args, kw, node: ('timed', args[1]),
        'await': _await,
        'ValueError': lambda eng, st, args, kw, node: SExc('ValueError'),
    }
    helpers = [n.name for n in inl.cx.classes[CLS].body if isinstance(n, pyast.FunctionDef) and not n.name.startswith('__')]  # every synchronous helper: real body, inlined
    for m in helpers:
        calls['self.' + m] = (lambda m: lambda eng, st, args, kw, node: inl.call(CLS, m, st.env['self'], args, kw, st, node))(m)
    return Contract(
        path=PATH,
        qualname=CLS + '.lookup',
        types={'k': 'U'},
        self_fields=MON.fields,
        setup=_setup,
        calls=calls,
        ghost_init={'hit': 'False', 'evicted': 'False', 'i_created': 'False', 'self_cancelled': 'False', 'LOADED': 'NOVAL', 'last_exc': 'NOVAL'},
        consts={'NOVAL': z3.Const('no_value', pyvc.U)},
        ensures=[
            ('a-hit-returns-a-stored-value-younger-than-its-lifetime', 'implies(hit, k in self._cache and result == self._cache[k] and self._expiry_time[k] > tlast and tlast - PUT[k] < self.lifetime_ns)'),
            ('a-miss-returns-the-value-just-loaded', 'implies(not hit, result == LOADED)'),
        ],
        raises={'ValueError': 'self._shutting_down', 'CancelledError': 'self_cancelled', '*': 'exc == last_exc'},
        canaries=[('never-hits', 'not hit'), ('never-evicts', 'not evicted')],
    )


def helper_models():
    """call models shared with the inlined helpers"""
    return {'time.monotonic_ns': _clock}


def _lemmas(ctx):
    """rely of the creator = guarantee of any other task (stability), and it is preserved over several steps"""
    Us = pyvc.U
    A = lambda n, r: z3.Array(n, Us, r)
    fh0, fh1, ch0, ch1 = A('fh0', z3.BoolSort()), A('fh1', z3.BoolSort()), A('ch0', z3.BoolSort()), A('ch1', z3.BoolSort())
    fv0, fv1 = A('fv0', Us), A('fv1', Us)
    ow0, ow1 = A('ow0', z3.IntSort()), A('ow1', z3.IntSort())
    me, other = z3.Ints('me other')
    q, K = z3.Const('q', Us), z3.Const('K', Us)
    guar_other = z3.ForAll([q], z3.Implies(z3.And(fh0[q], ow0[q] != other), z3.And(fh1[q], ow1[q] == ow0[q], fv1[q] == fv0[q], z3.Implies(ch1[q], ch0[q]))))
    rely_me = z3.And(fh1[K], ow1[K] == me, fv1[K] == fv0[K], z3.Implies(ch1[K], ch0[K]))
    ctx.add(core.valid('C26/lemma/creator-rely-follows-from-any-other-task-guarantee', [guar_other, me != other, fh0[K], ow0[K] == me], rely_me))
    fh2, ch2, fv2, ow2 = A('fh2', z3.BoolSort()), A('ch2', z3.BoolSort()), A('fv2', Us), A('ow2', z3.IntSort())
    step2 = z3.And(fh2[K], ow2[K] == me, fv2[K] == fv1[K], z3.Implies(ch2[K], ch1[K]))
    ctx.add(core.valid('C26/lemma/creator-rely-is-transitive', [rely_me, step2], z3.And(fh2[K], ow2[K] == me, fv2[K] == fv0[K], z3.Implies(ch2[K], ch0[K]))))


def _scans(ctx):
    tree = pyast.parse(core.read_repo(PATH))
    init = pyvc.find_function(tree, CLS + '.__init__')
    txt = [pyast.unparse(s) for s in init.body]
    empty = all(any(t.startswith(p) for t in txt) for p in ('self._futures: Dict[T, asyncio.Future] = {}', 'self._cache: Dict[T, U] = {}', 'self._expiry_time: Dict[T, int] = {}', 'self._keys_by_expiry = sortedcontainers.SortedSet(key=lambda k: self._expiry_time[k])'))
    pos = 'assert lifetime_ns > 0' in txt and 'assert num_slots > 0' in txt
    ctx.add(core.decided('C26/__init__/establishes-the-invariant (empty containers, positive parameters)', empty and pos, repr(txt), kind='scan'))
    ctx.under_contract(PATH, CLS + '.__init__')
    cls = [n for n in tree.body if isinstance(n, pyast.ClassDef) and n.name == CLS][0]
    shared = ('_futures', '_cache', '_expiry_time', '_keys_by_expiry')
    writers = set()
    for fn in cls.body:
        if isinstance(fn, pyast.AsyncFunctionDef):  # synchronous helpers are inlined where they are called
            for n in pyast.walk(fn):
                if isinstance(n, pyast.Attribute) and n.attr in shared and isinstance(n.value, pyast.Name) and n.value.id == 'self':
                    writers.add(fn.name)
    ctx.add(core.decided('C26/closed-world/only-lookup-and-shutdown-are-coroutines-that-touch-the-containers', writers <= {'lookup', 'shutdown'}, repr(sorted(writers)), kind='scan'))
    frozen = [pyast.unparse(n) for n in pyast.walk(cls) if isinstance(n, pyast.Attribute) and n.attr in ('lifetime_ns', 'num_slots') and isinstance(n.ctx, pyast.Store)]
    ctx.add(core.decided('C26/frozen/parameters-assigned-only-in-__init__', len(frozen) == 2, repr(frozen), kind='scan'))


def native_witness(ctx):
    """concrete search on the real code, usable when the contracts no longer apply to a changed source (vc/check.py)"""
    return core.run_native(open(os.path.join(os.path.dirname(__file__), 'native', 'c26_replay.py')).read(), {'skip_kinds': ['isolation']})


def _clock_scan(ctx):
    """entry age is elapsed time: every clock the cache reads is a monotonic one (a wall clock can be stepped backwards, which
    would keep entries alive beyond their lifetime; the contract below models the clock as non-decreasing)"""
    import ast as pyast

    tree = pyast.parse(core.read_repo(PATH))
    reads = sorted({pyast.unparse(n.func) for n in pyast.walk(tree) if isinstance(n, pyast.Call) and isinstance(n.func, pyast.Attribute) and pyast.unparse(n.func.value) in ('time', 'datetime', 'datetime.datetime')})
    imported = sorted({a.name for n in pyast.walk(tree) if isinstance(n, pyast.ImportFrom) and n.module in ('time', 'datetime') for a in n.names})
    ok = bool(reads) and set(reads) <= {'time.monotonic_ns', 'time.monotonic'} and not imported
    ctx.add(core.decided('C26/clock/entry-age-is-measured-on-a-monotonic-clock', ok, 'clock reads: %r; names imported from time/datetime: %r' % (reads, imported), kind='scan'))


def build(ctx):
    _clock_scan(ctx)  # first: stands even if a changed body leaves the executor's subset
    cx = ClassIndex([PATH])
    inl = Inliner(ctx, cx, calls=helper_models(), types={'k': 'U', 'v': 'U'}, shared=['tlast', 'PUT', 'owner', 'nload', 'me', 'put_fresh'])
    inl.engine_cls = SegEngine
    orig_put = inl.call

    def call(cls, meth, self_rec, args, kw, st, node, after=None):
        if meth == '_put':
            # storing a key that is already present would re-add it to the SortedSet under a changed sort key
            top.oblige(st, 'put/stores-only-an-absent-key', z3.Not(z3.Select(st.env['self'].fields['_cache'].has, to_z3(args[0], 'U'))))
            # the lifetime clock starts when the value is LOADED: only a value this lookup has just awaited from load() may be
            # stored (re-storing a cached value would restart its clock and let it outlive its lifetime)
            top.oblige(st, 'put/stores-only-the-value-this-lookup-just-loaded', to_z3(args[1], 'U') == to_z3(st.env['LOADED'], 'U'))
        return orig_put(cls, meth, self_rec, args, kw, st, node, after)

    inl.call = call
    c = lookup_contract(inl)
    # PUT[k] := clock reading of the store, recorded right after the real _put ran
    c.ghosts = [pyvc.Ghost(anchor='self._put(k, v)', where='after', code='PUT = store(PUT, k, tlast)')]
    script = open(os.path.join(os.path.dirname(__file__), 'native', 'c26_replay.py')).read()
    top = SegEngine(ctx, c)
    top.top = True
    # the isolation obligation has its own two-task history; every other obligation is searched without it (a known finding
    # must not be attached to a different obligation)
    top.replayer = lambda model, obl: core.run_native(script, {'only': 'isolation'}) if '/isolation/' in obl.name else None
    top.run()
    ctx.add(core.decided('C26/lookup/no-call-outside-the-contract', not top.unmodelled, repr(top.unmodelled), kind='frame'))
    _lemmas(ctx)
    _scans(ctx)
    ctx.witness_search = lambda: core.run_native(script, {'skip_kinds': ['isolation']})
    ctx.assume('asyncio: tasks switch only at await; cancelling a task that awaits a future cancels that future; a shielded await does not')
    ctx.assume('time.monotonic_ns() is non-decreasing; prom_async_time(metric, fut) awaits fut and passes its outcome through')
    ctx.assume('cardinalities: len() of the containers is modelled by a counter updated on every insertion of a new key / deletion of a present key (equal to the cardinality by induction over the operations); size > 0 implies a member exists')
    ctx.assume('between _put and _evict_oldest (one atomic segment) the cache holds num_slots + 1 entries; no other task can observe that state')
    ctx.undecided('shutdown(): waits for outstanding futures; not part of the property')
