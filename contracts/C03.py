"""C03 - billed attempt time is monotone and bounded by the attempt.

Targets: trigger attempts_before_update (effective definition: last migration that defines it) as it is fired by EVERY
statement that writes the `attempts` table - the real UPDATE statements of the stored procedures and the embedded SQL of
the driver (closed-world scan; a new writer appears as a new obligation group, an unparsable writer is `undecided`).

Spec (from the property text), with billed(a) = max(coalesce(rollup - start, 0), 0), for every row OLD satisfying the table
invariant Inv (rollup <= end when both are set), every statement shape and all argument values, R = row after the trigger:
  (b) R.end, R.start set          =>  billed(R) <= max(R.end - R.start, 0)
  (c) billed(R) >= billed(OLD)    unless the report moves the end earlier (R.end set and (OLD.end unset or R.end < OLD.end))
                                  or marks an activation timeout (the written reason is 'activation_timeout')
  (d) OLD.reason set              =>  R.reason set, and OLD.end set => R.end set and R.end <= OLD.end, and OLD.end NULL => R.end NULL
  (e) OLD.start set and not activation_timeout  =>  R.start set and R.start <= OLD.start
  (f) Inv(R)
Wave 4 - the two clauses that speak about an activation timeout AFTER it has been marked (the reason column is sticky, so
"marks an activation timeout (which bills nothing)" and "the start time only ever moves earlier" are facts about every LATER
report as well; clause (e) alone says nothing once the start has been wiped to NULL).  Row invariant
Inv2: reason = 'activation_timeout' => start_time IS NULL (hence billed = 0); for every OLD with Inv and Inv2:
  (g) Inv2(R)                                  - an attempt marked as an activation timeout bills nothing, now and after any report
  (h) OLD.reason = 'activation_timeout' => R.start IS NULL   - the start wiped by the timeout never comes back (100 -> NULL -> 300
                                                 would be a start that moved later), whatever happens to the reason
Interpretation stated openly: "never exceeds end - start" is read as max(end - start, 0).
"""
from __future__ import annotations

import z3

from vc import core, sqlast as A, sqlparse, sqlvc
from vc.sqlvc import SV, intern

TIMEOUT = 'activation_timeout'


def billed(row):
    s, r = row['start_time'], row['rollup_time']
    d = z3.If(z3.Or(s.n, r.n), z3.IntVal(0), r.v - s.v)
    return z3.If(d > 0, d, z3.IntVal(0))


def inv(row):
    r, e = row['rollup_time'], row['end_time']
    return z3.Implies(z3.And(z3.Not(r.n), z3.Not(e.n)), r.v <= e.v)


def is_timeout(sv):
    return z3.And(z3.Not(sv.n), sv.v == intern(TIMEOUT))


def inv2(row):
    """an attempt whose end reason is the activation timeout has no start time (so it bills nothing)"""
    return z3.Implies(is_timeout(row['reason']), row['start_time'].n)


_TO_REACH = {}


def timeout_clauses(ctx, label, h, old, new, replay=None, suffix='', extra=()):
    """(g), (h) and their vacuity; `h` already contains Inv(OLD); Inv2(OLD) is added here only (the older clauses keep their
    weaker hypotheses)"""
    h2 = list(h) + [inv2(old)] + list(extra)
    ctx.add(core.valid('%s/g-activation-timeout-bills-nothing-start-stays-null%s' % (label, suffix), h2, inv2(new)), replay=replay)
    ctx.add(core.valid('%s/h-start-wiped-by-activation-timeout-never-comes-back%s' % (label, suffix), h2 + [is_timeout(old['reason'])], new['start_time'].n), replay=replay)
    # vacuity is per writer, not per path: along the paths on which add_attempt has just inserted the row OLD.reason is NULL
    import re as _re

    _TO_REACH.setdefault(_re.sub(r'(@L\d+(#\d+)?|/path\d+)$', '', label) + suffix, []).append(z3.And(*h2, is_timeout(old['reason'])))


_SEEN = set()


def obligations(ctx, label, hyps, old, new, written_reason: SV, replay=None, timeout_cases=None):
    # cone of influence + de-duplication: the same statement reached along different procedure paths yields the same VCs
    rows_term = z3.And(*[z3.And(x[c].n == x[c].n, x[c].v == x[c].v) for x in (old, new) for c in ('start_time', 'rollup_time', 'end_time', 'reason')] + [written_reason.v == written_reason.v])
    hyps = core.slice_hyps(hyps, rows_term)
    if not sqlvc.feasible(hyps + [inv(old)], 3000):
        return
    sig = (label.split('#')[0], z3.And(*hyps, rows_term).sexpr())
    if sig in _SEEN:
        return
    _SEEN.add(sig)
    to = z3.And(z3.Not(written_reason.n), written_reason.v == intern(TIMEOUT))
    oe, ne, os_, ns = old['end_time'], new['end_time'], old['start_time'], new['start_time']
    orr, nrr = old['reason'], new['reason']
    h = list(hyps) + [inv(old)]
    bound = z3.If(ne.v - ns.v > 0, ne.v - ns.v, z3.IntVal(0))
    ctx.add(core.valid('%s/b-billed-bounded-by-end-minus-start' % label, h + [z3.Not(ne.n), z3.Not(ns.n)], billed(new) <= bound), replay=replay)
    end_earlier = z3.And(z3.Not(ne.n), z3.Or(oe.n, ne.v < oe.v))
    ctx.add(core.valid('%s/c-billed-monotone-unless-end-earlier-or-activation-timeout' % label, h, z3.Or(billed(new) >= billed(old), end_earlier, to)), replay=replay)
    ctx.add(core.valid('%s/d-reason-and-end-frozen-except-earlier-end' % label, h + [z3.Not(orr.n)], z3.And(z3.Not(nrr.n), z3.Implies(z3.Not(oe.n), z3.And(z3.Not(ne.n), ne.v <= oe.v)), z3.Implies(oe.n, ne.n))), replay=replay)  # an ended attempt without an end time stays without one: a later report has nothing earlier to offer
    ctx.add(core.valid('%s/e-start-only-moves-earlier' % label, h + [z3.Not(os_.n), z3.Not(to)], z3.And(z3.Not(ns.n), ns.v <= os_.v)), replay=replay)
    ctx.add(core.valid('%s/f-rollup-not-after-end' % label, h, inv(new)), replay=replay)
    ctx.add(core.satisfiable('%s/vacuity/reachable' % label, h))
    timeout_clauses(ctx, label, h, old, new, replay=replay)
    for suffix, extra in timeout_cases or ():
        timeout_clauses(ctx, label, h, old, new, replay=replay, suffix='/' + suffix, extra=extra)


def _written_reason(effect, old) -> SV:
    """the reason value the statement writes (before the trigger); OLD.reason if the statement does not assign it"""
    return effect.data.get('written_reason') or old['reason']


def _procedures_writing(ex, table):
    out = []
    for name, r in ex.routines.items():
        if r.kind != 'procedure':
            continue
        for n in r.body.walk():
            if isinstance(n, A.Update) and any(isinstance(t, A.TableRef) and t.name == table for t in ([n.tables] if isinstance(n.tables, A.TableRef) else n.tables.walk())):
                out.append(name)
                break
    return sorted(set(out))


NONNULL_REASON_PARAMS = {'mark_job_complete': 'new_reason', 'unschedule_job': 'new_reason', 'deactivate_instance': 'in_reason'}
# call-site facts about the time arguments (Python callers pass time_msecs() / worker-reported times)
NONNULL_TIME_PARAMS = {'unschedule_job': ['new_end_time'], 'deactivate_instance': ['in_timestamp'], 'mark_job_started': ['new_start_time'], 'mark_job_creating': ['new_start_time']}


def build(ctx):
    ex = sqlvc.Exec(inline_after=False)
    trg = ex.triggers.get(('attempts', 'BEFORE', 'UPDATE'))
    if trg is None:
        raise core.Undecided('anchor-moved: no BEFORE UPDATE trigger on attempts')
    ctx.under_contract(trg.source_file.replace(core.REPO + '/', ''), 'TRIGGER ' + trg.name)
    ctx.extra['effective_trigger'] = {'name': trg.name, 'file': trg.source_file.replace(core.REPO + '/', ''), 'lines': [trg.first_line, trg.last_line]}

    # (0) the trigger alone, for a completely arbitrary UPDATE (all four columns rewritten): clauses that hold for every shape
    st = ex.new_state()
    old = ex.symbolic_row('attempts', 'OLD')
    new = ex.symbolic_row('attempts', 'NEW')
    for c in ('batch_id', 'job_id', 'attempt_id', 'instance_name'):
        new[c] = old[c]
    outs = ex.run_trigger(trg.name, st, old, new)
    for i, s in enumerate(outs):
        R = s.rows['NEW']
        label = 'trigger/any-update/path%d' % i
        h = list(s.pc) + [inv(old)]
        ne, ns = R['end_time'], R['start_time']
        bound = z3.If(ne.v - ns.v > 0, ne.v - ns.v, z3.IntVal(0))
        ctx.add(core.valid(label + '/b-billed-bounded', h + [z3.Not(ne.n), z3.Not(ns.n)], billed(R) <= bound))
        ctx.add(core.valid(label + '/f-rollup-not-after-end', h, inv(R)))
        to = z3.And(z3.Not(new['reason'].n), new['reason'].v == intern(TIMEOUT))
        ctx.add(core.valid(label + '/e-start-only-moves-earlier', h + [z3.Not(old['start_time'].n), z3.Not(to)], z3.And(z3.Not(ns.n), ns.v <= old['start_time'].v)))
        # (g), (h) for ANY statement that leaves the reason column alone (NEW.reason = OLD.reason when the trigger starts):
        # every creating / started / heartbeat report after the timeout, present or future
        timeout_clauses(ctx, label, h, old, R, suffix='/statement-does-not-assign-reason', extra=[sqlvc.sv_eq_values(new['reason'], old['reason'])])
    ctx.add(core.decided('trigger/paths-generated', len(outs) >= 8, '%d paths' % len(outs), kind='vacuity'))
    # canary: "billed never decreases, full stop" is false (an earlier end legitimately lowers it) and must be refuted
    to0 = z3.And(z3.Not(new['reason'].n), new['reason'].v == intern(TIMEOUT))
    bad = [z3.And(*(list(s.pc) + [inv(old), z3.Not(to0), billed(s.rows['NEW']) < billed(old)])) for s in outs]
    ctx.add(core.satisfiable('trigger/canary/billed-can-decrease-on-an-earlier-end', z3.Or(*bad), kind='canary'))

    # (1) every real statement that updates attempts, in its procedure context
    writers = _procedures_writing(ex, 'attempts')
    ctx.extra['procedures_updating_attempts'] = writers
    seen = set()
    n_stmt = 0
    for name in writers:
        r = ex.routines[name]
        ctx.under_contract(r.source_file.replace(core.REPO + '/', ''), 'PROCEDURE ' + name)
        st = ex.new_state()
        args = {}
        p_reason = NONNULL_REASON_PARAMS.get(name)
        outs = ex.run_procedure(name, st)
        for s in outs:
            for e in s.effects:
                if e.table != 'attempts' or e.kind not in ('update', 'update-set'):
                    continue
                key = (name, e.line, e.data['trace'])
                if key in seen:
                    continue
                seen.add(key)
                n_stmt += 1
                hyps = list(s.pc[: e.data['pc_len']])
                if e.kind == 'update':
                    o, n_ = e.data['old'], e.data['new']
                else:
                    o, n_ = e.data['old_row'], e.data['new_row']
                    hyps.append(e.data['affected'] if not z3.is_quantifier(e.data['affected']) else z3.BoolVal(True))
                # written reason = the procedure's reason argument when the statement assigns `reason`
                wr = o['reason']
                if 'reason' in e.data.get('assigned', []):
                    pv = [v for k, v in s.vars.items() if k == p_reason]
                    if pv:
                        wr = pv[0]
                        hyps.append(z3.Not(wr.n))  # call-site obligation below: callers never pass NULL
                for pn in NONNULL_TIME_PARAMS.get(name, []):
                    hyps.extend(z3.Not(v.n) for k, v in s.vars.items() if k == pn)
                if name == 'mark_job_complete':
                    # mark_job_errored is the only caller that passes end_time = None, and only for an attempt without
                    # recorded times (assumption, listed): a NULL end report reaches a row whose times are all NULL
                    ne_ = [v for k, v in s.vars.items() if k == 'new_end_time'][0]
                    hyps.append(z3.Implies(ne_.n, z3.And(o['start_time'].n, o['rollup_time'].n, o['end_time'].n)))
                label = '%s@L%d#%d' % (name, e.line, n_stmt)
                tc = None
                if name == 'mark_job_complete':
                    # the general (g)/(h) fail for this statement on the unchanged tree (known finding F-C03-1: the only writer
                    # that assigns start_time AND reason); the part that holds - a report without a start time, as sent by
                    # mark_job_errored / cancellation - stays under obligation so that the known entry cannot mask more
                    nst = [v for k, v in s.vars.items() if k == 'new_start_time'][0]
                    tc = [('report-without-start-time', [nst.n])]
                obligations(ctx, label, hyps, o, n_, wr, timeout_cases=tc)
    ctx.add(core.decided('closed-world/procedures-updating-attempts', set(writers) == {'deactivate_instance', 'mark_job_complete', 'mark_job_creating', 'mark_job_started', 'unschedule_job'}, repr(writers), kind='scan'))

    # (2) embedded SQL in the services that writes attempts
    py_writers = []
    for path, line, text in _python_sql():
        if 'attempts' not in text.lower():
            continue
        try:
            stmts = sqlparse.parse_statements(text, file=path, line=line)
        except Exception as exn:
            if 'update attempts' in text.lower() or 'into attempts' in text.lower():
                raise core.Undecided('embedded SQL writing attempts does not parse: %s:%d %s' % (path, line, exn))
            continue
        for stn in stmts:
            if isinstance(stn, A.Update) and any(isinstance(t, A.TableRef) and t.name == 'attempts' for t in ([stn.tables] if isinstance(stn.tables, A.TableRef) else stn.tables.walk())):
                py_writers.append((path, line))
                ctx.under_contract(path.replace(core.REPO + '/', ''), 'embedded UPDATE attempts @L%d' % line)
                st = ex.new_state()
                for s in ex.exec_stmt(stn, st):
                    for e in s.effects:
                        if e.table == 'attempts' and e.kind in ('update', 'update-set'):
                            o, n_ = (e.data['old'], e.data['new']) if e.kind == 'update' else (e.data['old_row'], e.data['new_row'])
                            hyps = list(s.pc[: e.data['pc_len']])
                            if e.kind == 'update-set' and not z3.is_quantifier(e.data['affected']):
                                hyps.append(e.data['affected'])
                            hyps.extend(z3.Not(v.n) for k, v in s.uservars.items() if k.startswith('%param'))
                            obligations(ctx, 'python:%s@L%d' % (path.split('/')[-1], line), hyps, o, n_, o['reason'])
            elif isinstance(stn, (A.Insert, A.Delete)) and getattr(stn, 'table', None) in ('attempts',):
                py_writers.append((path, line))
    ctx.extra['python_statements_updating_attempts'] = ['%s:%d' % (p.replace(core.REPO + '/', ''), l) for p, l in py_writers]
    ctx.add(core.decided('closed-world/python-writers-of-attempts', len(py_writers) == 1, repr(ctx.extra['python_statements_updating_attempts']), kind='scan'))

    for grp, terms in sorted(_TO_REACH.items()):
        ctx.add(core.satisfiable('%s/vacuity/reachable-after-an-activation-timeout' % grp, z3.Or(*terms)))
    _TO_REACH.clear()

    # (3) call sites: the reason argument is never NULL
    _reason_call_sites(ctx)
    from contracts import sqlspec as _SP
    _SP.engine_obligations(ctx, ex)
    ctx.assume('each procedure call is atomic with respect to the others (serialisable isolation); integer widths sufficient')
    ctx.assume('table invariant Inv (rollup_time <= end_time when both set) holds for rows created by add_attempt (all three NULL) and is re-established by obligation (f) for every writer')
    ctx.assume('call-site facts taken as preconditions (checked only syntactically): time arguments of unschedule_job, deactivate_instance, mark_job_started, mark_job_creating and billing_update are non-NULL (time_msecs() / worker-reported); mark_job_complete receives end_time = NULL only from mark_job_errored, for an attempt with no recorded times')
    ctx.assume('SQL cannot be executed in this sandbox: counter-models are rows, reported with no-failing-input-found')
    ctx.assume('row invariant Inv2 (reason = activation_timeout implies start_time IS NULL) is a hypothesis of clauses (g)/(h) only; it holds for rows created by add_attempt (reason NULL) and is re-established by (g) for every writer except the known finding on mark_job_complete')
    ctx.undecided("'the start time only ever moves earlier' across a start wiped by a STALE activation timeout: deactivate_instance(.., 'activation_timeout', ..) also reaches attempts of the instance that already ended with another reason; their start is wiped while the latched reason stays, so clause (h) does not apply and a later creating/started report may set a start later than the wiped one (billing stays within (b); not claimed)")


def _python_sql():
    import ast as pyast, glob, os

    out = []
    for fp in sorted(glob.glob(os.path.join(core.REPO, 'batch', 'batch', '**', '*.py'), recursive=True)):
        try:
            tree = pyast.parse(open(fp).read())
        except SyntaxError:
            continue
        for n in pyast.walk(tree):
            if isinstance(n, pyast.Constant) and isinstance(n.value, str):
                t = n.value.strip()
                if t[:6].upper() in ('UPDATE', 'INSERT', 'DELETE'):
                    out.append((fp, n.lineno, n.value))
    return out


def _reason_call_sites(ctx):
    import ast as pyast

    src = core.read_repo('batch/batch/driver/job.py')
    tree = pyast.parse(src)
    # mark_job_complete(app, batch_id, job_id, attempt_id, instance_name, new_state, status, start_time, end_time, reason, resources, ...)
    fn = [n for n in pyast.walk(tree) if isinstance(n, pyast.AsyncFunctionDef) and n.name == 'mark_job_complete'][0]
    params = [a.arg for a in fn.args.args]
    ok = 'reason' in params
    calls = []
    import glob, os

    for fp in sorted(glob.glob(os.path.join(core.REPO, 'batch', 'batch', '**', '*.py'), recursive=True)):
        t = pyast.parse(open(fp).read())
        for n in pyast.walk(t):
            if isinstance(n, pyast.Call) and getattr(n.func, 'id', getattr(n.func, 'attr', None)) == 'mark_job_complete' and len(n.args) >= 8:
                idx = params.index('reason')
                arg = n.args[idx] if idx < len(n.args) else None
                calls.append((os.path.relpath(fp, core.REPO), n.lineno, pyast.unparse(arg) if arg is not None else None))
    lit_ok = all(a is not None and (a.startswith("'") or a == 'reason') for _, _, a in calls)
    ctx.add(core.decided('call-sites/mark_job_complete-reason-is-a-string', ok and bool(calls) and lit_ok, repr(calls), kind='scan'))
    ctx.under_contract('batch/batch/driver/job.py', 'mark_job_complete (reason argument)')
    ctx.undecided('that every Python caller of unschedule_job / Instance.deactivate passes a non-None reason is checked only syntactically (string literals / annotated str parameters)')
