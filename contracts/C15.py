"""C15 - stored job specs and region sets round-trip.

(a) batch/utils.py regions_to_bits_rep / regions_bits_rep_to_regions, for every mapping region -> id that is injective into
    [1, 63] and every selection (with repetitions) of mapped regions:
      encode: bit b of the result is set  <=>  some selected region has id b + 1           (loop invariant, 64-bit vectors)
      decode: the result is exactly the sub-sequence of the mapping's regions whose bit is set (loop invariant with a ghost index map)
      lemma : decode(encode(S)) contains a mapped region r  <=>  r in S                     (z3, over the two contracts)
(b) batch_format_version.py BatchFormatVersion.db_spec against get_spec_secrets / get_spec_service_account /
    get_spec_has_input_files / get_spec_has_output_files / get_spec_machine_spec, for every format version 1..7 (symbolic):
    the getters applied to the stored form return the original secrets (mount_in_copy defaulting to False, [] / missing -> None),
    service account, file flags and machine spec - decided by symbolic execution of the real writer followed by the real
    readers on the writer's symbolic result.
(c) contracts/C15_sites.py: the store site (front_end.py::_create_jobs: the bits written for a job are the encoding of THAT job's
    regions), the decode site (job_private.py: the per-job coroutine decodes ITS record) and the stability of the region ids
    (table `regions` is only ever extended, never rewritten).
"""
from __future__ import annotations

import z3

from vc import core, pyvc
from vc.pyvc import Contract, Ghost, LoopSpec, SRecord, SList, rec_type

UT = 'batch/batch/utils.py'
BFV = 'batch/batch/batch_format_version.py'

MAP_PRE = [
    "forall('U', lambda r: implies(r in all_regions_mapping, 1 <= all_regions_mapping[r] and all_regions_mapping[r] <= 63))",
]


def encode_contract():
    return Contract(
        path=UT,
        qualname='regions_to_bits_rep',
        types={'selected_regions': 'List[U]', 'all_regions_mapping': 'Dict[U, int]', 'result': 'bv64'},
        consts={'__shift_as_bv__': True},
        requires=MAP_PRE + ["forall(lambda i: implies(0 <= i < len(selected_regions), selected_regions[i] in all_regions_mapping))"],
        loops={0: LoopSpec(index='k', invariants=[
            ('bits-are-the-ids-seen-so-far', "forall(lambda b: implies(0 <= b < 64, bit(result, b) == exists(lambda i: 0 <= i < k and all_regions_mapping[selected_regions[i]] - 1 == b)))"),
        ])},
        raises={'AssertionError': 'False'},
        ensures=[('bit-b-set-iff-some-selected-region-has-id-b-plus-1', "forall(lambda b: implies(0 <= b < 64, bit(result, b) == exists(lambda i: 0 <= i < len(selected_regions) and all_regions_mapping[selected_regions[i]] - 1 == b)))")],
        canaries=[('result-always-zero', 'not bit(result, 0)')],
    )


def decode_contract():
    items = "all_regions_mapping.items()"
    return Contract(
        path=UT,
        qualname='regions_bits_rep_to_regions',
        types={'regions_bits_rep': 'bv64', 'all_regions_mapping': 'Dict[U, int]', 'result': 'List[U]'},
        requires=MAP_PRE,
        ghost_init={'src': 'SRC0'},
        consts={'SRC0': z3.Const('src0', z3.ArraySort(z3.IntSort(), z3.IntSort()))},
        ghosts=[Ghost(anchor='result.append(region)', where='after', code="src = store(src, len(result) - 1, k)")],
        loops={0: LoopSpec(index='k', invariants=[
            ('result-elements-are-set-regions-in-mapping-order', "forall(lambda j: implies(0 <= j < len(result), 0 <= src[j] and src[j] < k and result[j] == %s[src[j]][0] and bit(regions_bits_rep, %s[src[j]][1] - 1)))" % (items, items)),
            ('order-preserved', "forall(lambda i, j: implies(0 <= i < j and j < len(result), src[i] < src[j]))"),
            ('every-set-region-so-far-is-in-the-result', "forall(lambda t: implies(0 <= t < k and bit(regions_bits_rep, %s[t][1] - 1), exists(lambda j: 0 <= j < len(result) and src[j] == t)))" % items),
        ])},
        ensures=[
            ('result-is-the-subsequence-of-set-regions', "forall(lambda j: implies(0 <= j < len(result), 0 <= src[j] and src[j] < len(%s) and result[j] == %s[src[j]][0] and bit(regions_bits_rep, %s[src[j]][1] - 1)))" % (items, items, items)),
            ('in-mapping-order-without-repetition', "forall(lambda i, j: implies(0 <= i < j and j < len(result), src[i] < src[j]))"),
            ('no-set-region-is-missing', "forall(lambda t: implies(0 <= t < len(%s) and bit(regions_bits_rep, %s[t][1] - 1), exists(lambda j: 0 <= j < len(result) and src[j] == t)))" % (items, items)),
        ],
        canaries=[('result-always-empty', 'len(result) == 0')],
    )


def _roundtrip_lemma(ctx):
    Us = pyvc.U
    inSel = z3.Function('inSel', Us, z3.BoolSort())
    has = z3.Function('has', Us, z3.BoolSort())
    inRes = z3.Function('inRes', Us, z3.BoolSort())
    val = z3.Function('val', Us, z3.IntSort())
    bitset = z3.Function('bitset', z3.IntSort(), z3.BoolSort())
    r, r2, b = z3.Const('r', Us), z3.Const('r2', Us), z3.Int('b')
    hyps = [
        z3.ForAll([b], z3.Implies(z3.And(0 <= b, b < 64), bitset(b) == z3.Exists([r], z3.And(inSel(r), val(r) - 1 == b)))),  # encode
        z3.ForAll([r], z3.Implies(has(r), inRes(r) == bitset(val(r) - 1))),  # decode
        z3.ForAll([r], z3.Implies(inSel(r), has(r))),
        z3.ForAll([r], z3.Implies(has(r), z3.And(1 <= val(r), val(r) <= 63))),
        z3.ForAll([r, r2], z3.Implies(z3.And(has(r), has(r2), val(r) == val(r2)), r == r2)),
    ]
    q = z3.Const('q', Us)
    ctx.add(core.valid('lemma/decode-of-encode-recovers-exactly-the-selected-regions', hyps + [has(q)], inRes(q) == inSel(q)))
    ctx.add(core.satisfiable('lemma/vacuity', z3.And(*hyps, has(q), inSel(q))))


REPLAY = r'''
import sys, json, os, ast, itertools
src = open(os.path.join(os.environ['VERIF_REPO'], 'batch/batch/utils.py')).read()
tree = ast.parse(src)
fns = [n for n in tree.body if isinstance(n, ast.FunctionDef) and n.name in ('regions_to_bits_rep', 'regions_bits_rep_to_regions') and not n.decorator_list]
ns = {'Optional': None, 'Dict': dict, 'List': list}
import typing
ns.update({'Optional': typing.Optional, 'Dict': typing.Dict, 'List': typing.List})
exec(compile(ast.Module(body=fns, type_ignores=[]), 'utils-extract', 'exec'), ns)
enc, dec = ns['regions_to_bits_rep'], ns['regions_bits_rep_to_regions']
res = {'confirmed': False}
maps = [{'a': 1, 'b': 2, 'c': 3}, {'a': 3, 'b': 1, 'c': 63}, {'x%d' % i: i for i in range(1, 64)}]
done = False
for m in maps:
    keys = list(m)[:4] + list(m)[-1:]
    for L in range(0, 4):
        for sel in itertools.product(keys, repeat=L):
            bits = enc(list(sel), m)
            back = dec(bits, m)
            want = [r for r in m if r in sel]
            if back != want:
                res = {'confirmed': True, 'input': {'selected': list(sel), 'mapping': m if len(m) < 10 else 'ids 1..63'}, 'stored_bits': bits, 'recovered': back, 'expected': want}
                done = True; break
        if done: break
    if done: break
if not done and dec(None, maps[0]) is not None:
    res = {'confirmed': True, 'input': {'bits': None}, 'recovered': dec(None, maps[0])}
# ---- (b) db_spec / get_spec_* of the real BatchFormatVersion class (its module-level import of the client is not needed)
if not res['confirmed']:
    src = open(os.path.join(os.environ['VERIF_REPO'], 'batch/batch/batch_format_version.py')).read()
    tree = ast.parse(src)
    cls = [n for n in tree.body if isinstance(n, ast.ClassDef) and n.name == 'BatchFormatVersion']
    ns = {'Optional': typing.Optional, 'Tuple': typing.Tuple, 'Job': None}
    exec(compile(ast.Module(body=cls, type_ignores=[]), 'bfv-extract', 'exec'), ns)
    BFV = ns['BatchFormatVersion']
    secret_sets = [None, [], [{'namespace': 'n', 'name': 's', 'mount_path': '/p'}], [{'namespace': 'n', 'name': 's', 'mount_path': '/p', 'mount_in_copy': False}, {'namespace': 'm', 'name': 't', 'mount_path': '/q', 'mount_in_copy': True}]]
    sas = [None, {'namespace': 'ns', 'name': 'sa'}]
    ress = [{'preemptible': True, 'storage_gib': 10}, {'machine_type': 'n1-standard-4', 'preemptible': False, 'storage_gib': 375}]
    files = [None, [], [('a', 'b')]]
    for v, sec, sa, rs, fin, fout in itertools.product(range(2, 8), secret_sets, sas, ress, files, files):
        spec = {'resources': dict(rs)}
        if sec is not None: spec['secrets'] = [dict(x) for x in sec]
        if sa is not None: spec['service_account'] = dict(sa)
        if fin is not None: spec['input_files'] = list(fin)
        if fout is not None: spec['output_files'] = list(fout)
        b = BFV(v)
        want = {
            'secrets': ([dict(x, mount_in_copy=bool(x.get('mount_in_copy', False))) for x in sec] if sec else None),
            'service_account': sa,
            'has_input_files': bool(fin), 'has_output_files': bool(fout),
            'machine_spec': ({'machine_type': rs['machine_type'], 'preemptible': rs['preemptible'], 'storage_gib': rs['storage_gib']} if ('machine_type' in rs and v >= 5) else None),
        }
        try:
            stored = json.loads(json.dumps(b.db_spec(spec)))
            got = {'secrets': b.get_spec_secrets(stored), 'service_account': b.get_spec_service_account(stored), 'has_input_files': b.get_spec_has_input_files(stored), 'has_output_files': b.get_spec_has_output_files(stored), 'machine_spec': b.get_spec_machine_spec(stored)}
        except Exception as e:
            res = {'confirmed': True, 'input': {'format_version': v, 'spec': spec}, 'raised': repr(e)}
            break
        if got != want:
            res = {'confirmed': True, 'input': {'format_version': v, 'spec': spec}, 'stored': stored, 'read_back': got, 'expected': want}
            break
print(json.dumps(res))
'''


def native_witness(ctx):
    """concrete search on the real code, usable when the contracts no longer apply to a changed source (vc/check.py)"""
    r = core.run_native(REPLAY, {})
    if r and r.get('confirmed'):
        return r
    from contracts import C15_sites
    return C15_sites.native_witness()


def build(ctx):
    for c in (encode_contract(), decode_contract()):
        eng = pyvc.Engine(ctx, c)
        eng.replayer = lambda model, obl: core.run_native(REPLAY, {})
        eng.run()
    _roundtrip_lemma(ctx)
    ctx.witness_search = lambda: core.run_native(REPLAY, {})
    from contracts import C15_spec
    C15_spec.build(ctx)
    # (c) the sites the round trip of a stored job depends on: the bits stored for a job are those of ITS spec, the bits decoded
    # for a job are ITS stored bits, and the region -> id mapping is stable across driver starts (contracts/C15_sites.py)
    from contracts import C15_sites
    C15_sites.build(ctx)
    ctx.assume('region ids are unique and lie in [1, 63] (AUTO_INCREMENT primary key of the regions table; the code asserts idx < 64 only): precondition of both contracts')
    ctx.assume('the stored bitset is a 64-bit vector (MySQL BIGINT); Python ints are unbounded but the encoded value stays below 2**63 under the precondition')
    ctx.assume('selected regions are keys of the mapping: precondition of the encoder contract, DISCHARGED at its only call site (obligation _create_jobs[region-bits/spec-with-regions]/pre/regions_to_bits_rep/selected-regions-are-keys-of-the-mapping)')
