"""C24 - rate limiter never exceeds its rate.

Target: hailtop/utils/rate_limiter.py  RateLimiter.__aenter__ (+ __init__, __aexit__).

Atomic segments.  Shared: self._items (deque of admission times); frozen: _count, _window_seconds.
Ghost: A[0..n) all admission times in admission order (real clock readings), off (A[off..n) is exactly _items),
tlast (last clock reading; time.time() is assumed non-decreasing).
Invariant at every await/return, all schedules, any number of tasks:
  _items == A[off..n), sorted, every time <= tlast, len(_items) <= count, every admission no longer in _items is
  <= tlast - window (expired).
Obligations at the admission `self._items.append(now)`:
  recorded time == current clock reading;  every admission not in _items is <= now - window;  len(_items) < count
  => the admissions in (now - window, now] number at most count  => (paper lemma: any half-open window of length
  `window` that contains admissions is contained in (t - window, t] for its last admission t) at most count per window.
Obligations at the sleep: the window is full and nothing in it has expired (admission impossible now), and the argument
is exactly oldest + window - now > 0, the earliest instant at which admission becomes possible; after the sleep the loop
re-reads the clock (no further delay is added).
"""
from __future__ import annotations

import ast

import z3

from vc import core, pyvc
from vc.pyvc import Contract, Ghost, LoopSpec, SList, to_z3, fresh_name
from vc.segments import Monitor

PATH = 'hail/python/hailtop/utils/rate_limiter.py'

INV = [
    ('shape', "0 <= off and off <= n and len(self._items) == n - off and self._count >= 1 and self._window_seconds > 0"),
    ('items-are-the-recent-admissions', "forall(lambda i: implies(0 <= i < n - off, self._items[i] == A[off + i]))"),
    ('admissions-sorted', "forall(lambda i, j: implies(0 <= i <= j and j < n, A[i] <= A[j]))"),
    ('admissions-not-in-the-future', "forall(lambda i: implies(0 <= i < n, A[i] <= tlast))"),
    ('forgotten-admissions-are-expired', "forall(lambda i: implies(0 <= i < off, A[i] <= tlast - self._window_seconds))"),
    ('capacity', "len(self._items) <= self._count"),
]
GUAR = [
    ('history-only-grows', "n >= seg_n and off >= seg_off and tlast >= seg_tlast and forall(lambda i: implies(0 <= i < seg_n, A[i] == seg_A[i]))"),
]
MON = Monitor(
    fields={'_items': 'List[real]', '_count': 'int', '_window_seconds': 'real'},
    ghosts={'A': 'Array[int, real]', 'n': 'int', 'off': 'int', 'tlast': 'real'},
    inv=INV,
    guar=GUAR,
    frozen=['_count', '_window_seconds'],
)


def _time(eng, st, args, kw, node):
    t = z3.Real(fresh_name('clock'))
    st.assume(t >= st.env['tlast'])
    st.env['tlast'] = t
    return t


def _admit(eng, st, args, kw, node):
    """ghost, right after `self._items.append(now)`"""
    now = eng.num(args[0])
    items = st.env['self'].fields['_items']  # already appended
    W = st.env['self'].fields['_window_seconds']
    eng.oblige(st, 'admit/recorded-time-is-the-current-clock-reading', now == st.env['tlast'])
    i = z3.Int(fresh_name('adm_i'))
    eng.oblige(st, 'admit/all-forgotten-admissions-are-outside-the-window', z3.ForAll([i], z3.Implies(z3.And(i >= 0, i < st.env['off']), z3.Select(st.env['A'], i) <= now - W)))
    eng.oblige(st, 'admit/fewer-than-count-admissions-in-the-window-before-this-one', st.env['n'] - st.env['off'] < st.env['self'].fields['_count'])
    st.env['A'] = z3.Store(st.env['A'], st.env['n'], st.env['tlast'])
    st.env['n'] = st.env['n'] + 1
    return None


def _before_sleep(eng, st, args):
    d = eng.num(args[0])
    rec = st.env['self']
    items, W, cnt = rec.fields['_items'], rec.fields['_window_seconds'], rec.fields['_count']
    now = st.env['tlast']
    eng.oblige(st, 'sleep/window-is-full', items.len >= cnt)
    i = z3.Int(fresh_name('sl_i'))
    eng.oblige(st, 'sleep/nothing-in-the-window-has-expired', z3.ForAll([i], z3.Implies(z3.And(i >= 0, i < items.len), z3.Select(items.arr, i) > now - W)))
    eng.oblige(st, 'sleep/duration-is-until-the-oldest-entry-expires', d == z3.Select(items.arr, 0) + W - now)
    eng.oblige(st, 'sleep/duration-positive', d > 0)


SLEEP = MON.cut_model('await-sleep', rely_normal=["tlast >= cut_tlast"], cancellable=True, before=_before_sleep)


def _setup(eng, st):
    MON.setup(eng, st)
    MON.assume_inv(eng, st)
    MON.begin_segment(eng, st)


class SegEngine(pyvc.Engine):
    def at_return(self, st, res):
        MON.end_segment(self, st, 'return')
        super().at_return(st, res)

    def at_raise(self, st, exc):
        MON.end_segment(self, st, 'raise-%s' % (exc.cls or 'exc'))
        super().at_raise(st, exc)


SNAP = ['%s_%s' % (p, g) for p in ('seg', 'cut') for g in ('A', 'n', 'off', 'tlast', 'self__items')]
INNER = INV + [
    ('now-is-the-clock', 'now == tlast'),
    ('history-so-far', "n == seg_n and off >= seg_off and forall(lambda i: implies(0 <= i < seg_n, A[i] == seg_A[i]))"),
]


def aenter_contract():
    return Contract(
        path=PATH,
        qualname='RateLimiter.__aenter__',
        self_fields=MON.fields,
        float_as_real=True,
        setup=_setup,
        calls={'time.time': _time, 'asyncio.sleep': SLEEP, 'ghost_admit': _admit},
        ghosts=[
            Ghost(anchor='self._items.popleft()', where='after', code="off = off + 1"),
            Ghost(anchor='self._items.append(now)', where='after', code="ghost_admit(now)"),
        ],
        loops={
            0: LoopSpec(invariants=INV + [('history', "n == seg_n and off >= seg_off and tlast >= seg_tlast and forall(lambda i: implies(0 <= i < seg_n, A[i] == seg_A[i]))")], modifies=['A', 'n', 'off', 'tlast', 'now'] + SNAP),
            1: LoopSpec(invariants=INNER, modifies=['off']),
        },
        types={'now': 'real'},
        raises={'CancelledError': True},
        ensures=[('admitted-exactly-once', "n == seg_n + 1 and A[n - 1] == tlast and self._items[len(self._items) - 1] == tlast")],
        canaries=[('window-always-holds-one-entry', 'len(self._items) == 1')],
    )


def _scans(ctx):
    src = core.read_repo(PATH)
    tree = ast.parse(src)
    init = [ast.unparse(s) for s in pyvc.find_function(tree, 'RateLimiter.__init__').body]
    ok = 'self._count = rate_limit.count' in init and 'self._window_seconds = rate_limit.window_seconds' in init and 'self._items = collections.deque()' in init
    ctx.add(core.decided('__init__/establishes-invariant (empty history)', ok, repr(init), kind='scan'))
    ctx.under_contract(PATH, 'RateLimiter.__init__')
    ex = [ast.unparse(s) for s in pyvc.find_function(tree, 'RateLimiter.__aexit__').body]
    ctx.add(core.decided('__aexit__/does-not-touch-the-window', ex == ['pass'], repr(ex), kind='scan'))
    ctx.under_contract(PATH, 'RateLimiter.__aexit__')
    writers = [ast.unparse(n) for n in ast.walk(tree) if isinstance(n, ast.Attribute) and n.attr in ('_count', '_window_seconds') and isinstance(n.ctx, ast.Store)]
    ctx.add(core.decided('frozen/count-and-window-assigned-only-in-__init__', len(writers) == 2, repr(writers), kind='scan'))


REPLAY = r'''
import sys, json, os, asyncio, importlib.util, itertools, heapq
import time as _real_time
try:
    spec = importlib.util.spec_from_file_location('rl_real', os.path.join(os.environ['VERIF_REPO'], 'hail/python/hailtop/utils/rate_limiter.py'))
    m = importlib.util.module_from_spec(spec); spec.loader.exec_module(m)
except ImportError:
    # the file no longer loads stand-alone (a relative import): load it as hailtop.utils.rate_limiter of the tree under test
    from contracts.native import stubimport
    stubimport.install()
    m = importlib.import_module('hailtop.utils.rate_limiter')
class Clock:
    def __init__(self): self.t = 0.0; self.sleepers = []; self.k = 0
    def time(self): return self.t
    async def sleep(self, d):
        fut = asyncio.get_event_loop().create_future(); self.k += 1
        heapq.heappush(self.sleepers, (self.t + max(d, 0), self.k, fut)); await fut
async def run(count, window, arrivals, lateness):
    clk = Clock()
    import types
    m.time = types.SimpleNamespace(time=clk.time); m.asyncio = types.SimpleNamespace(sleep=clk.sleep)
    # any other wall-clock reader the code may reach (helpers reading time.time / time.time_ns of the real module) sees the same clock
    _real_time.time = clk.time; _real_time.time_ns = lambda: int(round(clk.t * 1e9))
    rl = m.RateLimiter(m.RateLimit(count, window)); admitted = []
    async def user(i):
        async with rl: admitted.append(clk.t)
    tasks = []; arr = sorted(arrivals); ai = 0; woken = [0]
    for step in range(200):
        for _ in range(5): await asyncio.sleep(0)
        nxt = []
        if ai < len(arr): nxt.append(arr[ai])
        late = lateness[min(woken[0], len(lateness) - 1)]
        if clk.sleepers: nxt.append(clk.sleepers[0][0] + late)
        if not nxt: break
        clk.t = max(clk.t, min(nxt))
        while ai < len(arr) and arr[ai] <= clk.t:
            tasks.append(asyncio.ensure_future(user(ai))); ai += 1
        while clk.sleepers and clk.sleepers[0][0] + late <= clk.t:
            _, _, fut = heapq.heappop(clk.sleepers); woken[0] += 1
            if not fut.done(): fut.set_result(None)
    for _ in range(5): await asyncio.sleep(0)
    for t in tasks: t.cancel()
    await asyncio.gather(*tasks, return_exceptions=True)
    return sorted(admitted)
res = {'confirmed': False}
found = False
LATE = ((0.0,), (5.0,), (5.0, 0.0), (0.0, 5.0, 0.0))
CASES = [(c, w, list(a), LATE) for c, w in ((1, 10.0), (2, 10.0)) for a in itertools.combinations_with_replacement((0.0, 1.0, 5.0, 6.0, 7.0, 16.0), 4)]
# arrivals off the whole-millisecond grid, the second one within the last millisecond before the first expires
# (sleepers woken 10 us late: an exact wake-up would make the verdict depend on float rounding of oldest + window - now)
CASES += [(1, 1.0, [0.0009, 1.0002], ((1e-5,),)), (2, 1.0, [0.0009, 0.0009, 1.0002], ((1e-5,),)), (1, 0.5, [0.00075, 0.5005], ((1e-5,),))]
for count, window, arrivals, lates in CASES:
    if True:
        for lateness in lates:
            adm = asyncio.run(run(count, window, list(arrivals), lateness))
            bad = None
            for i, t in enumerate(adm):
                inwin = [x for x in adm if t - window + 1e-9 < x <= t]
                if len(inwin) > count: bad = {'window_end': t, 'admissions_in_window': inwin}
            if len(adm) != len(arrivals): bad = {'admitted': len(adm), 'arrived': len(arrivals)}
            if bad:
                res = {'confirmed': True, 'input': {'count': count, 'window': window, 'arrivals': list(arrivals), 'sleepers_woken_late_by': list(lateness)}, 'admission_times': adm, 'violation': bad}
                found = True; break
        if found: break
    if found: break
print(json.dumps(res))
'''
_CACHE = {}


def _search():
    if 'r' not in _CACHE:
        _CACHE['r'] = core.run_native(REPLAY, {}, timeout=240)
    return _CACHE['r']


def native_witness(ctx):
    return _search()


def build(ctx):
    eng = SegEngine(ctx, aenter_contract())
    eng.replayer = lambda model, obl: _search()
    eng.run()
    _scans(ctx)
    ctx.witness_search = _search
    ctx.assume('asyncio runs one coroutine at a time and switches tasks only at an await (atomic segments)')
    ctx.assume('time.time() is non-decreasing; asyncio.sleep(d) suspends the task (any amount of time may pass: only tlast monotone is relied on)')
    ctx.assume('float time arithmetic (now - window, oldest + window - now) treated as exact real arithmetic')
    ctx.assume('paper lemma: if for every admission t the admissions in (t - W, t] number at most count, then every half-open window of length W holds at most count admissions')
    ctx.assume('"as soon as possible": the sleep lasts exactly until the oldest entry in a full window expires and the loop then re-reads the clock; scheduler latency after the sleep is outside the contract')
