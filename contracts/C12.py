"""C12 - resource requests are never under-provisioned.

Property: every job resource request (cpu, memory, storage, preemptibility, pool label or machine type), on every cloud and pool
configuration, is either rejected as unsatisfiable or placed in an instance collection whose granted cores, memory and storage are
at least the request and fit on one worker; it is rejected only if no configured collection matching its cloud, preemptibility,
label and named worker type / machine type could satisfy it.

The request path is verified MODULARLY: every function below has its own contract, is verified against it on the real source
(re-read on every run), and is seen by its callers only through that contract (Engine.call_contract / call_contract_ex: assert
requires, assume ensures; Optional results come back as two paths).  A change inside a helper is caught by the helper's own
postcondition, a change of a call site by the caller's.

  batch/batch/cloud/resource_utils.py         round_up_division, is_valid_cores_mcpu, round_storage_bytes_to_gib,
                                              requested_storage_bytes_to_actual_storage_gib, machine_type_to_cores_and_memory_bytes,
                                              valid_machine_types, memory_to_worker_type;  adjust_cores_for_packability (BOUNDED)
  batch/batch/cloud/{gcp,azure}/resource_utils.py   *_requested_to_actual_storage_bytes, *_worker_memory_per_core_mib,
                                              *_adjust_cores_for_memory_request, *_cores_mcpu_to_memory_bytes,
                                              *_machine_type_to_cores_and_memory_bytes, azure_machine_type_to_parts
  batch/batch/inst_coll_config.py             PoolConfig.convert_requests_to_resources, JobPrivateInstanceManagerConfig.convert_requests_to_resources,
                                              InstanceCollectionConfigs.select_pool_from_worker_type / select_cheapest_price_pool /
                                              select_job_private / select_inst_coll
  batch/batch/front_end/front_end.py          _create_jobs: the resource section of the per-job loop body (fragment) + AST obligations
                                              on the statements around it
  batch/batch/front_end/validate.py           handle_deprecated_job_keys: the pvc_size section (fragment, one run per key-presence shape of
                                              the job dict) + AST obligations on validate_and_clean_jobs, handle_job_backwards_compatibility,
                                              the validators and the handlers that call _create_jobs (wave 4)

Top-level clauses (from the property statement) are those of convert_requests_to_resources (granted >= requested, fits one worker),
of the selection functions (the chosen pool equals the request in cloud / preemptible / label / worker type; loop invariant "every
pool skipped so far mismatched or could not satisfy", which is also "rejected only if no matching pool could satisfy") and of the
front-end section (what is parsed is what is selected for; rejected exactly when the selection returned None).
`cannot_satisfy(pool, c, m, s)` is the semantic reading of "could not satisfy": the storage exceeds the cloud's largest disk, or
no packable core count 250*2**k that fits one worker covers the cpu request and (with a 2**-50 relative margin for float
rounding) the memory request.

Floats.  *_adjust_cores_for_memory_request and *_cores_mcpu_to_memory_bytes are PROVED under the relative-error model (every
float operation = exact result * (1+d), |d| <= 2**-53): the memory carried by the adjusted cores covers the request for every
core count up to 256000 mcpu (the proof fails, as it must, without that bound: beyond M*cores > 2**52 rounding can lose a byte).
round_storage_bytes_to_gib is proved with exact float operations, justified on its domain (ints below 2**53 divided by the literal
1024; an AST obligation checks there is no other float operation).  Two facts are out of the solver's reach and are BOUNDED
stand-ins, labelled as such in evidence and never counted as proved: adjust_cores_for_packability (math.log2, 2**power: exhaustive
over [1, 512000] on the real function) and exactness of *_cores_mcpu_to_memory_bytes on packable core counts (complete finite
enumeration).  convert_requests_to_resources uses them as callee contracts (clauses named BOUNDED:/ASSUMED:).

Every contract is also re-stated natively (contracts/native/c12_native.py) and evaluated on the real modules over boundary grids:
that is the replay of failed obligations (a VIOLATION carries the failing input of the real function) and the thorough tier's
encoder validation.
"""
from __future__ import annotations

import ast
import ast as pyast
import json
import os

import z3

from vc import core, pyvc
from vc.pyvc import Contract, LoopSpec, contract_model

RU = 'batch/batch/cloud/resource_utils.py'
GCP = 'batch/batch/cloud/gcp/resource_utils.py'
AZ = 'batch/batch/cloud/azure/resource_utils.py'
ICC = 'batch/batch/inst_coll_config.py'
FE = 'batch/batch/front_end/front_end.py'

GIB = 1024**3
MIB = 1024**2

# ---- specification data (cloud facts the helper contracts are stated against; cross-checked against the machine tables of
# the real modules in `tables_consistent`)
SPEC_MAX_DISK_GIB = {'gcp': 64 * 1024, 'azure': 32 * 1024}  # largest persistent SSD: 64 TiB (GCE pd-ssd), 32 TiB (Azure P80)
SPEC_MIN_DISK_GIB = 10
SPEC_MPC_MIB = {
    'gcp': {'standard': 3840, 'highmem': 6656, 'highcpu': 924},  # n1-standard 3.75 GiB, n1-highmem 6.5 GiB, n1-highcpu 0.9 GiB per vCPU
    'azure': {'D': 4096, 'E': 8192, 'F': 2048},  # Dsv4 4 GiB, Esv4 8 GiB, Fsv2 2 GiB per vCPU
}
SPEC_GCP_FAMILY = 'n1'
CORES_BOUND_MCPU = 256000  # no pool worker has more than 256 cores (largest configured: 96); bound of the float stand-ins
PACK_K = 53  # 250 * 2**53 < 2**61


def U(s):
    return pyvc.to_z3(s, 'U')


# ---- spec helpers usable in contract expressions (registered in every contract's `calls`)
def _pack_form(eng, st, args, kw, node):
    """x == 250 * 2**k for some k >= 0 (k <= 53, i.e. every such number below 2**61)"""
    x = args[0]
    if isinstance(x, z3.ExprRef) and z3.is_bv(x):
        return z3.Or(*[x == z3.BitVecVal(250 * 2**k, x.size()) for k in range(PACK_K + 1)])
    xz = eng.num(x)
    return z3.Or(*[xz == 250 * 2**k for k in range(PACK_K + 1)])


def _mpc_bytes(eng, st, args, kw, node):
    """memory per core in bytes of a (cloud, worker_type); 0 for a pair outside the table"""
    cloud, wt = args
    r = z3.IntVal(0)
    for c, tab in SPEC_MPC_MIB.items():
        for w, mib in tab.items():
            r = z3.If(z3.And(eng.equal(cloud, c), eng.equal(wt, w)), z3.IntVal(mib * MIB), r)
    return r


def _valid_worker_type(eng, st, args, kw, node):
    cloud, wt = args
    return z3.Or(*[z3.And(eng.equal(cloud, c), eng.equal(wt, w)) for c, tab in SPEC_MPC_MIB.items() for w in tab])


def _max_disk_bytes(eng, st, args, kw, node):
    cloud = args[0]
    return z3.If(eng.equal(cloud, 'gcp'), z3.IntVal(SPEC_MAX_DISK_GIB['gcp'] * GIB), z3.IntVal(SPEC_MAX_DISK_GIB['azure'] * GIB))


SPEC_CALLS = {
    'pack_form': _pack_form,
    'mpc_bytes': _mpc_bytes,
    'valid_worker_type': _valid_worker_type,
    'max_disk_bytes': _max_disk_bytes,
}
SPEC_CONSTS = {'GIB': GIB, 'MIB': MIB, 'MIN_DISK': SPEC_MIN_DISK_GIB * GIB, 'BOUND': CORES_BOUND_MCPU}


def K(**kw):
    """Contract with the spec helpers merged in"""
    calls = dict(SPEC_CALLS)
    calls.update(kw.pop('calls', {}))
    consts = dict(SPEC_CONSTS)
    consts.update(kw.pop('consts', {}))
    return Contract(calls=calls, consts=consts, **kw)


def run(ctx, c, callees=None, replayer=None):
    eng = pyvc.Engine(ctx, c, callee_contracts=callees or {})
    if replayer is not None:
        eng.replayer = replayer
    eng.run()
    if not c.canaries:
        raise core.CheckerBug('%s: contract without a canary' % eng.label)
    for name, _ in c.canaries:
        if not eng.canary_paths.get(name):
            raise core.CheckerBug('%s: canary %s was never evaluated' % (eng.label, name))
    if not getattr(eng, 'canaries_emitted', False):  # engines that emit their canaries themselves set this flag
        for name, paths in eng.canary_paths.items():
            ctx.add(core.satisfiable('%s/canary/%s' % (eng.label, name), z3.Or(*paths) if paths else z3.BoolVal(False), kind='canary'))
    ctx.add(core.decided('%s/frame/no-call-outside-the-contracts' % eng.label, not eng.unmodelled, repr(eng.unmodelled), kind='frame'))
    return eng


# ---------------------------------------------------------------------------------------------
# cloud/resource_utils.py leaves


def round_up_division():
    return K(
        path=RU,
        qualname='round_up_division',
        types={'numerator': 'int', 'denominator': 'int', 'result': 'int'},
        requires=['denominator >= 1'],
        ensures=[
            ('covers-the-numerator', 'result * denominator >= numerator'),
            ('is-the-least-such', '(result - 1) * denominator < numerator'),
        ],
        canaries=[('is-floor-division', 'result * denominator <= numerator')],
    )


def is_valid_cores_int():
    """unbounded ints; `&` is an uninterpreted function, so only what does not depend on the bit trick is claimed here"""
    return K(
        path=RU,
        qualname='is_valid_cores_mcpu',
        label='is_valid_cores_mcpu[int]',
        types={'cores_mcpu': 'int', 'result': 'bool'},
        consts={'__int_bitand_uf__': True},
        ensures=[
            ('valid-only-if-a-positive-multiple-of-a-quarter-core', 'not result or (cores_mcpu >= 250 and cores_mcpu % 250 == 0)'),
            ('never-valid-if-not-positive', 'cores_mcpu > 0 or not result'),
        ],
        canaries=[('never-valid', 'not result')],
    )


def is_valid_cores_bv():
    """64-bit machine integers with overflow obligations: exact characterisation below 2**61 mcpu"""
    return K(
        path=RU,
        qualname='is_valid_cores_mcpu',
        label='is_valid_cores_mcpu[bv64]',
        types={'cores_mcpu': 'bv64', 'quarter_core_mcpu': 'bv64', 'quarter_cores': 'bv64', 'result': 'bool'},
        bv_checked=True,
        requires=['cores_mcpu < 2**61'],
        ensures=[('valid-iff-quarter-core-times-power-of-two', 'result == pack_form(cores_mcpu)')],
        canaries=[('valid-iff-multiple-of-250', 'result == (cores_mcpu > 0 and cores_mcpu % 250 == 0)')],
    )



def round_storage_bytes_to_gib():
    """float division by the literal 1024 three times, then math.ceil.  Float operations are taken as exact real operations
    here, which is justified on the stated domain (not assumed blindly): an int below 2**53 converts to a double exactly and
    a division by a power of two only changes the exponent (no underflow for values >= 1 / 2**30); that every float
    operation of the function IS such a division is a syntactic obligation computed from the real AST on every run."""
    return K(
        path=RU,
        qualname='round_storage_bytes_to_gib',
        types={'storage_bytes': 'int', 'result': 'int'},
        float_as_real=True,
        requires=['0 <= storage_bytes <= 2**53'],
        ensures=[
            ('granted-gib-cover-the-bytes', 'result * GIB >= storage_bytes'),
            ('no-more-than-needed', '(result - 1) * GIB < storage_bytes or (storage_bytes == 0 and result == 0)'),
        ],
        canaries=[('is-floor', 'result * GIB <= storage_bytes')],
    )


def float_ops_are_exact_divisions(ctx, path, qualname):
    """AST obligation behind float_model='exact' of round_storage_bytes_to_gib"""
    fn = pyvc.find_function(ast.parse(core.read_repo(path)), qualname)
    bad = []
    for n in ast.walk(fn):
        if isinstance(n, ast.BinOp):
            if isinstance(n.op, ast.Div) and isinstance(n.right, ast.Constant) and n.right.value == 1024:
                continue
            bad.append(ast.unparse(n))
        elif isinstance(n, ast.Call):
            if pyvc._dotted(n.func) != 'math.ceil':
                bad.append(ast.unparse(n))
        elif isinstance(n, ast.Constant) and isinstance(n.value, float):
            bad.append(ast.unparse(n))
    ctx.add(core.decided('%s/float-exactness/every-float-operation-is-a-division-by-1024-or-math.ceil' % qualname, not bad, repr(bad), kind='scan'))


def requested_to_actual_storage_bytes(cloud):
    path = GCP if cloud == 'gcp' else AZ
    return K(
        path=path,
        qualname='%s_requested_to_actual_storage_bytes' % cloud,
        types={'storage_bytes': 'int', 'allow_zero_storage': 'bool', 'result': 'Optional[int]'},
        requires=['storage_bytes >= 0'],
        ensures=[
            ('none-iff-above-the-cloud-maximum', "(result is None) == (storage_bytes > max_disk_bytes('%s'))" % cloud),
            ('granted-at-least-requested', 'result is None or result >= storage_bytes'),
            ('at-least-the-minimum-disk-unless-zero-allowed', 'result is None or result >= MIN_DISK or (allow_zero_storage and storage_bytes == 0 and result == 0)'),
            ('no-more-than-needed', 'result is None or result <= max(storage_bytes, MIN_DISK)'),
        ],
        canaries=[('never-none', 'result is not None')],
    )


def requested_storage_bytes_to_actual_storage_gib():
    return K(
        path=RU,
        qualname='requested_storage_bytes_to_actual_storage_gib',
        types={'cloud': 'U', 'storage_bytes': 'int', 'allow_zero_storage': 'bool', 'result': 'Optional[int]'},
        requires=["cloud == 'gcp' or cloud == 'azure'", 'storage_bytes >= 0'],
        calls={
            'gcp_requested_to_actual_storage_bytes': contract_model(requested_to_actual_storage_bytes('gcp')),
            'azure_requested_to_actual_storage_bytes': contract_model(requested_to_actual_storage_bytes('azure')),
        },
        ensures=[
            ('none-iff-above-the-cloud-maximum', '(result is None) == (storage_bytes > max_disk_bytes(cloud))'),
            ('granted-gib-cover-the-request', 'result is None or result * GIB >= storage_bytes'),
            ('at-least-10-gib-unless-zero-allowed', 'result is None or result * GIB >= MIN_DISK or (allow_zero_storage and storage_bytes == 0 and result == 0)'),
            ('no-more-than-needed', 'result is None or (result - 1) * GIB < max(storage_bytes, MIN_DISK)'),
        ],
        canaries=[('never-none', 'result is not None')],
    )


def worker_memory_per_core_mib(cloud):
    if cloud == 'gcp':
        return K(
            path=GCP,
            qualname='gcp_worker_memory_per_core_mib',
            types={'machine_family': 'U', 'worker_type': 'U', 'result': 'int'},
            requires=["machine_family == '%s'" % SPEC_GCP_FAMILY, "valid_worker_type('gcp', worker_type)"],
            ensures=[('is-the-per-core-memory-of-the-worker-type', "result * MIB == mpc_bytes('gcp', worker_type)")],
            canaries=[('always-standard', 'result == 3840')],
        )
    return K(
        path=AZ,
        qualname='azure_worker_memory_per_core_mib',
        types={'worker_type': 'U', 'result': 'int'},
        requires=["valid_worker_type('azure', worker_type)"],
        ensures=[('is-the-per-core-memory-of-the-worker-type', "result * MIB == mpc_bytes('azure', worker_type)")],
        canaries=[('always-D', 'result == 4096')],
    )


def _wt_args(cloud):
    return ("machine_family, worker_type", ["machine_family == '%s'" % SPEC_GCP_FAMILY], {'machine_family': 'U', 'worker_type': 'U'}) if cloud == 'gcp' else ('worker_type', [], {'worker_type': 'U'})


def adjust_cores_for_memory_request(cloud):
    """float arithmetic under the relative-error model: every operation returns the exact result times (1+d), |d| <= 2**-53"""
    _, fam_req, fam_types = _wt_args(cloud)
    M = "mpc_bytes('%s', worker_type)" % cloud
    return K(
        path=GCP if cloud == 'gcp' else AZ,
        qualname='%s_adjust_cores_for_memory_request' % cloud,
        types=dict({'cores_in_mcpu': 'int', 'memory_in_bytes': 'int', 'result': 'int'}, **fam_types),
        float_as_real=True,
        float_model='relerr',
        requires=fam_req + ["valid_worker_type('%s', worker_type)" % cloud, 'memory_in_bytes >= 0'],
        ensures=[
            ('cores-never-decrease', 'result >= cores_in_mcpu'),
            # result mcpu of this worker type carry result/1000 * M bytes: at least the request, for every result a worker can hold
            ('memory-of-the-adjusted-cores-covers-the-request', 'result > BOUND or result * %s >= memory_in_bytes * 1000' % M),
            ('no-more-than-needed', 'result == cores_in_mcpu or (result - 1) * %s * 2**50 < memory_in_bytes * 1000 * (2**50 + 1)' % M),
        ],
        canaries=[('always-the-request', 'result == cores_in_mcpu')],
    )


def cores_mcpu_to_memory_bytes(cloud):
    """relative-error float model for every mcpu; exactness on packable core counts is the bounded stand-in `c2m-exact`"""
    _, fam_req, fam_types = _wt_args(cloud)
    M = "mpc_bytes('%s', worker_type)" % cloud
    return K(
        path=GCP if cloud == 'gcp' else AZ,
        qualname='%s_cores_mcpu_to_memory_bytes' % cloud,
        types=dict({'mcpu': 'int', 'result': 'int'}, **fam_types),
        float_as_real=True,
        float_model='relerr',
        requires=fam_req + ["valid_worker_type('%s', worker_type)" % cloud, 'mcpu >= 0'],
        ensures=[
            ('non-negative', 'result >= 0'),
            ('at-most-the-share-of-the-cores', 'result * 1000 * 2**50 <= mcpu * %s * (2**50 + 1)' % M),
            ('at-least-the-share-of-the-cores-minus-rounding', '(result + 1) * 1000 * 2**50 > mcpu * %s * (2**50 - 1)' % M),
        ],
        canaries=[('always-zero', 'result == 0')],
    )


def cores_mcpu_to_memory_bytes_exported(cloud):
    """what callers may use: the proved clauses plus the bounded one (exact on packable core counts up to BOUND)"""
    c = cores_mcpu_to_memory_bytes(cloud)
    c.ensures = list(c.ensures) + [('BOUNDED:exact-on-packable-cores', "not (pack_form(mcpu) and mcpu <= BOUND) or result * 1000 == mcpu * mpc_bytes('%s', worker_type)" % cloud)]
    return c


def adjust_cores_for_packability_exported():
    """NOT verified by the solver (math.log2, 2**power on floats): clause 1-4 hold by exhaustive evaluation of the real
    function on every cores_in_mcpu in [1, 2*BOUND] (bounded stand-in `packability`), clause 5 by the argument recorded in
    the assumptions (log2 error < 1/2)."""
    return K(
        path=RU,
        qualname='adjust_cores_for_packability',
        types={'cores_in_mcpu': 'int', 'result': 'int'},
        requires=['cores_in_mcpu >= 1'],
        ensures=[
            ('BOUNDED:at-least-the-request', 'cores_in_mcpu > 2 * BOUND or result >= cores_in_mcpu'),
            ('BOUNDED:packable', 'cores_in_mcpu > 2 * BOUND or pack_form(result)'),
            ('BOUNDED:least-packable', 'cores_in_mcpu > 2 * BOUND or result == 250 or result < 2 * cores_in_mcpu'),
            ('ASSUMED:large-requests-stay-large', 'cores_in_mcpu <= 2 * BOUND or result >= 2 * BOUND'),
        ],
    )


def _cannot_satisfy(eng, st, args, kw, node):
    """no packable core count that fits one worker of the pool covers the cpu request and (with a 2**-50 relative margin
    for float rounding) the memory request, or the storage request exceeds the cloud's largest disk"""
    cloud, wt, wcores, c, m, s = args
    cz, mz, sz, wz = eng.num(c), eng.num(m), eng.num(s), eng.num(wcores)
    M = _mpc_bytes(eng, st, [cloud, wt], {}, node)
    no_fit = []
    k = 0
    while 250 * 2**k <= CORES_BOUND_MCPU:
        p = 250 * 2**k
        no_fit.append(z3.Or(p > wz * 1000, p < cz, p * M * 2**50 < mz * 1000 * (2**50 + 1)))
        k += 1
    return z3.Or(sz > _max_disk_bytes(eng, st, [cloud], {}, node), z3.And(*no_fit))


SPEC_CALLS['cannot_satisfy'] = _cannot_satisfy

POOL_FIELDS = {'name': 'U', 'cloud': 'U', 'worker_type': 'U', 'worker_cores': 'int', 'preemptible': 'bool', 'label': 'U'}
POOL_WF = ["{p}.cloud == 'gcp' or {p}.cloud == 'azure'", 'valid_worker_type({p}.cloud, {p}.worker_type)', '1 <= {p}.worker_cores <= 256']


def pool_convert():
    M = 'mpc_bytes(self.cloud, self.worker_type)'
    leaf = {}
    for cloud in ('gcp', 'azure'):
        leaf['%s_adjust_cores_for_memory_request' % cloud] = adjust_cores_for_memory_request(cloud)
        leaf['%s_cores_mcpu_to_memory_bytes' % cloud] = cores_mcpu_to_memory_bytes_exported(cloud)
    leaf['adjust_cores_for_packability'] = adjust_cores_for_packability_exported()
    c = K(
        path=ICC,
        qualname='PoolConfig.convert_requests_to_resources',
        types={'cores_mcpu': 'int', 'memory_bytes': 'int', 'storage_bytes': 'int', 'result': 'Optional[Tuple[int, int, int]]'},
        self_fields=POOL_FIELDS,
        consts={'GCP_MACHINE_FAMILY': SPEC_GCP_FAMILY},
        requires=[r.format(p='self') for r in POOL_WF] + ['cores_mcpu >= 1', 'memory_bytes >= 0', 'storage_bytes >= 0'],
        calls={'requested_storage_bytes_to_actual_storage_gib': contract_model(requested_storage_bytes_to_actual_storage_gib())},
        ensures=[
            ('granted-cores-at-least-requested', 'result is None or result[0] >= old(cores_mcpu)'),
            ('granted-memory-at-least-requested', 'result is None or result[1] >= old(memory_bytes)'),
            ('granted-storage-at-least-requested', 'result is None or result[2] * GIB >= old(storage_bytes)'),
            ('fits-on-one-worker', 'result is None or result[0] <= self.worker_cores * 1000'),
            ('granted-cores-packable', 'result is None or pack_form(result[0])'),
            ('granted-memory-is-the-share-of-the-granted-cores', 'result is None or result[1] * 1000 == result[0] * %s' % M),
            ('storage-at-least-10-gib-or-zero', 'result is None or result[2] >= 10 or (old(storage_bytes) == 0 and result[2] == 0)'),
            ('storage-no-more-than-needed', 'result is None or (result[2] - 1) * GIB < max(old(storage_bytes), MIN_DISK)'),
            ('cores-least-packable', 'result is None or result[0] == 250 or result[0] < 2 * old(cores_mcpu) or (result[0] // 2) * %s * 2**50 < old(memory_bytes) * 1000 * (2**50 + 1)' % M),
            ('rejects-only-what-the-pool-cannot-satisfy', 'result is not None or cannot_satisfy(self.cloud, self.worker_type, self.worker_cores, old(cores_mcpu), old(memory_bytes), old(storage_bytes))'),
        ],
        canaries=[('never-none', 'result is not None'), ('always-none', 'result is None')],
    )
    return c, leaf



# ---------------------------------------------------------------------------------------------
# inst_coll_config.py: selection.  `self.name_pool_config` is viewed as the list of its values (the configured pools, in
# iteration order); the contracts quantify over positions in that list.

POOL_T = pyvc.rec_type(**POOL_FIELDS)
JPIM_T = pyvc.rec_type(name='U', cloud='U')
ICC_FIELDS = {'name_pool_config': ('list', POOL_T), 'jpim_config': JPIM_T, 'resource_rates': 'U', 'product_versions': 'U'}
SEL_T = 'Optional[Tuple[U, int, int, int]]'

P = '{cfg}.name_pool_config[j]'
MATCH_ANY = "(%s.cloud == cloud and %s.preemptible == preemptible and %s.label == pool_label)" % (P, P, P)
MATCH_WT = "(%s.cloud == cloud and %s.worker_type == worker_type and %s.preemptible == preemptible and %s.label == pool_label)" % (P, P, P, P)
CANNOT = 'cannot_satisfy(%s.cloud, %s.worker_type, %s.worker_cores, {c}, {m}, {s})' % (P, P, P)
POOLS_WF = ['len({cfg}.name_pool_config) >= 0', 'forall(lambda j: implies(0 <= j < len({cfg}.name_pool_config), %s))' % ' and '.join('(%s)' % r.format(p=P) for r in POOL_WF)]
REQ_WF = ['{c} >= 1', '{m} >= 0', '{s} >= 0']


def _comp(eng, res, i):
    """component i of a selection result that is either a Python tuple or (inside the cheapest-pool loop, where the variable
    is havocked at the loop head) an opaque value whose components are uninterpreted functions of it"""
    if isinstance(res, tuple):
        return res[i]
    if isinstance(res, z3.ExprRef) and res.sort() == pyvc.U:
        return eng.uf('sel_%d' % i, ['U'], 'U' if i == 0 else 'int')(res)
    raise core.Undecided('selection result %r' % (res,))


def _granted_by(eng, st, args, kw, node):
    """res = (name, cores, memory, storage_gib) is a grant of `pool` that covers the request (c, m, s)"""
    res, pool, c, m, s = args
    name, gc, gm, gs = [_comp(eng, res, i) for i in range(4)]
    cz, mz, sz = eng.num(c), eng.num(m), eng.num(s)
    f = pool.fields
    M = _mpc_bytes(eng, st, [f['cloud'], f['worker_type']], {}, node)
    return z3.And(
        eng.equal(name, f['name']), gc >= cz, gm >= mz, gs * GIB >= sz, gc <= f['worker_cores'] * 1000,
        _pack_form(eng, st, [gc], {}, node), gm * 1000 == gc * M,
        z3.Or(gs >= 10, z3.And(sz == 0, gs == 0)), (gs - 1) * GIB < z3.If(sz > SPEC_MIN_DISK_GIB * GIB, sz, SPEC_MIN_DISK_GIB * GIB),
    )  # fmt: skip


SPEC_CALLS['granted_by'] = _granted_by


def _pools_of_self(eng, st, args, kw, node):
    return st.env['self'].fields['name_pool_config']


def fmt(t, cfg='self', c='cores_mcpu', m='memory_bytes', s='storage_bytes'):
    return t.format(cfg=cfg, c=c, m=m, s=s)


def select_pool_from_worker_type():
    convert, _ = pool_convert()
    return K(
        path=ICC,
        qualname='InstanceCollectionConfigs.select_pool_from_worker_type',
        types={'cloud': 'U', 'pool_label': 'U', 'worker_type': 'U', 'cores_mcpu': 'int', 'memory_bytes': 'int', 'storage_bytes': 'int', 'preemptible': 'bool', 'result': SEL_T},
        self_fields=ICC_FIELDS,
        requires=[fmt(r) for r in POOLS_WF + REQ_WF],
        calls={'self.name_pool_config.values': _pools_of_self, '.convert_requests_to_resources': contract_model(convert, method=True)},
        loops={0: LoopSpec(index='k', invariants=[('every-pool-skipped-so-far-mismatched-or-could-not-satisfy', fmt('forall(lambda j: implies(0 <= j < k, not %s or %s))' % (MATCH_WT, CANNOT)))])},
        ensures=[
            ('selected-pool-matches-cloud-worker-type-preemptible-label-and-covers-the-request', fmt('result is None or exists(lambda j: 0 <= j < len(self.name_pool_config) and %s and granted_by(result, %s, cores_mcpu, memory_bytes, storage_bytes))' % (MATCH_WT, P))),
            ('rejects-only-if-no-matching-pool-can-satisfy', fmt('result is not None or forall(lambda j: implies(0 <= j < len(self.name_pool_config), not %s or %s))' % (MATCH_WT, CANNOT))),
        ],
        canaries=[('never-selects', 'result is None'), ('always-selects', 'result is not None')],
    )


def select_cheapest_price_pool():
    convert, _ = pool_convert()

    def locations(eng, st, args, kw, node):
        v = pyvc.fresh_value(('list', 'U'), 'locations')
        st.assume(v.len >= 0)
        return v

    def price(eng, st, args, kw, node):
        return z3.Const(pyvc.fresh_name('price'), pyvc.U)

    return K(
        path=ICC,
        qualname='InstanceCollectionConfigs.select_cheapest_price_pool',
        types={'cloud': 'U', 'pool_label': 'U', 'cores_mcpu': 'int', 'memory_bytes': 'int', 'storage_bytes': 'int', 'preemptible': 'bool', 'result': SEL_T,
               'optimal_result': 'U', 'optimal_price': 'U', 'max_regional_maybe_price': 'U', 'maybe_price': 'U'},  # fmt: skip
        self_fields=ICC_FIELDS,
        consts={'__opaque_order__': True},
        requires=[fmt(r) for r in POOLS_WF + REQ_WF] + ['self.resource_rates is not None'],
        calls={
            'self.name_pool_config.values': _pools_of_self,
            '.convert_requests_to_resources': contract_model(convert, method=True),
            'possible_cloud_locations': locations,
            '.price_per_hour': price,
        },
        loops={
            0: LoopSpec(
                index='k',
                invariants=[
                    ('choice-so-far-matches-and-covers-the-request', fmt('optimal_result is None or exists(lambda j: 0 <= j < k and %s and granted_by(optimal_result, %s, cores_mcpu, memory_bytes, storage_bytes))' % (MATCH_ANY, P))),
                    ('no-choice-so-far-only-if-every-pool-so-far-mismatched-or-could-not-satisfy', fmt('optimal_result is not None or forall(lambda j: implies(0 <= j < k, not %s or %s))' % (MATCH_ANY, CANNOT))),
                    ('a-price-is-recorded-only-with-a-choice', 'optimal_price is None or optimal_result is not None'),
                ],
            ),
            1: LoopSpec(index='li', invariants=[]),
        },
        ensures=[
            ('selected-pool-matches-cloud-preemptible-label-and-covers-the-request', fmt('result is None or exists(lambda j: 0 <= j < len(self.name_pool_config) and %s and granted_by(result, %s, cores_mcpu, memory_bytes, storage_bytes))' % (MATCH_ANY, P))),
            ('rejects-only-if-no-matching-pool-can-satisfy', fmt('result is not None or forall(lambda j: implies(0 <= j < len(self.name_pool_config), not %s or %s))' % (MATCH_ANY, CANNOT))),
        ],
        canaries=[('never-selects', 'result is None'), ('always-selects', 'result is not None')],
    )



# ---------------------------------------------------------------------------------------------
# machine types (job-private path).  The machine tables are data: MACHINE_TYPE_TO_PARTS of a cloud is viewed as a finite map
# from the valid machine-type names (mt_valid) to parts with cores = mt_cores and memory = mt_mem (uninterpreted; positive,
# checked on the real tables natively); `<cloud>_valid_machine_types = list(MACHINE_TYPE_TO_PARTS.keys())` is an AST obligation.

def _mt_fn(name, ret):
    def model(eng, st, args, kw, node):
        f = eng.uf(name, ['U', 'U'], ret)
        return f(pyvc.to_z3(args[0], 'U'), pyvc.to_z3(args[1], 'U'))

    return model


SPEC_CALLS.update({'mt_valid': _mt_fn('mt_valid', 'bool'), 'mt_cores': _mt_fn('mt_cores', 'int'), 'mt_mem': _mt_fn('mt_mem', 'int')})
MT_AXIOMS = ["forall('U', 'U', lambda c, m: implies(mt_valid(c, m), mt_cores(c, m) >= 1 and mt_mem(c, m) >= 1))"]
PARTS_T = pyvc.rec_type(cores='int', memory='int')


def _parts_get(cloud):
    def model(eng, st, args, kw, node):
        mt = args[0]
        rec = pyvc.SRecord('MachineTypeParts', {'cores': _mt_fn('mt_cores', 'int')(eng, st, [cloud, mt], {}, node), 'memory': _mt_fn('mt_mem', 'int')(eng, st, [cloud, mt], {}, node)})
        valid = _mt_fn('mt_valid', 'bool')(eng, st, [cloud, mt], {}, node)
        raise pyvc.Fork(node, [('not-in-table', z3.Not(valid), 'value', None), ('in-table', valid, 'value', rec)])

    return model


def azure_machine_type_to_parts():
    return K(
        path=AZ,
        qualname='azure_machine_type_to_parts',
        types={'machine_type': 'U', 'result': ('optional', PARTS_T)},
        axioms=MT_AXIOMS,
        calls={'MACHINE_TYPE_TO_PARTS.get': _parts_get('azure')},
        ensures=[
            ('none-iff-unknown-machine-type', "(result is None) == (not mt_valid('azure', machine_type))"),
            ('parts-of-the-machine-type', "result is None or (result.cores == mt_cores('azure', machine_type) and result.memory == mt_mem('azure', machine_type))"),
        ],
        canaries=[('never-none', 'result is not None')],
    )


def cloud_machine_type_to_cores_and_memory_bytes(cloud):
    calls = {'MACHINE_TYPE_TO_PARTS.get': _parts_get('gcp')} if cloud == 'gcp' else {'azure_machine_type_to_parts': contract_model(azure_machine_type_to_parts())}
    return K(
        path=GCP if cloud == 'gcp' else AZ,
        qualname='%s_machine_type_to_cores_and_memory_bytes' % cloud,
        types={'machine_type': 'U', 'result': 'Tuple[int, int]'},
        axioms=MT_AXIOMS,
        calls=calls,
        requires=["mt_valid('%s', machine_type)" % cloud],
        ensures=[('cores-and-memory-of-the-machine-type', "result[0] == mt_cores('{0}', machine_type) and result[1] == mt_mem('{0}', machine_type) and result[0] >= 1 and result[1] >= 1".format(cloud))],
        canaries=[('one-core', 'result[0] == 1')],
    )


def machine_type_to_cores_and_memory_bytes():
    return K(
        path=RU,
        qualname='machine_type_to_cores_and_memory_bytes',
        types={'cloud': 'U', 'machine_type': 'U', 'result': 'Tuple[int, int]'},
        axioms=MT_AXIOMS,
        requires=["cloud == 'gcp' or cloud == 'azure'", 'mt_valid(cloud, machine_type)'],
        ensures=[('cores-and-memory-of-the-machine-type', 'result[0] == mt_cores(cloud, machine_type) and result[1] == mt_mem(cloud, machine_type) and result[0] >= 1 and result[1] >= 1')],
        canaries=[('one-core', 'result[0] == 1')],
    )


def _mt_set(eng, cloud):
    f = eng.uf('mt_valid', ['U', 'U'], 'bool')
    q = z3.Const(pyvc.fresh_name('mtq'), pyvc.U)
    return pyvc.SMap(z3.Lambda([q], f(U(cloud), q)), z3.K(pyvc.U, z3.BoolVal(True)), z3.Int(pyvc.fresh_name('n_machine_types')), 'U', 'bool')


def valid_machine_types():
    """the dispatcher returns the module-level list of the cloud; lists of names are viewed as sets (only `in` is used)"""

    def setup(eng, st):
        st.env['azure_valid_machine_types'] = _mt_set(eng, 'azure')
        st.env['gcp_valid_machine_types'] = _mt_set(eng, 'gcp')

    return K(
        path=RU,
        qualname='valid_machine_types',
        types={'cloud': 'U', 'result': 'Map[U, bool]'},
        setup=setup,
        requires=["cloud == 'gcp' or cloud == 'azure'"],
        ensures=[('is-the-set-of-machine-types-of-the-cloud', "forall('U', lambda m: (m in result) == mt_valid(cloud, m))")],
        canaries=[('always-azure', "forall('U', lambda m: (m in result) == mt_valid('azure', m))")],
    )


def valid_machine_types_are_the_table_keys(ctx):
    for path, name in ((GCP, 'gcp_valid_machine_types'), (AZ, 'azure_valid_machine_types')):
        tree = ast.parse(core.read_repo(path))
        found = [ast.unparse(n.value) for n in tree.body if isinstance(n, ast.Assign) and len(n.targets) == 1 and isinstance(n.targets[0], ast.Name) and n.targets[0].id == name]
        ctx.add(core.decided('%s/is-the-key-list-of-MACHINE_TYPE_TO_PARTS' % name, found == ['list(MACHINE_TYPE_TO_PARTS.keys())'], repr(found), kind='scan'))


def memory_to_worker_type(tables):
    def same_table(eng, st, args, kw, node):
        res, cloud = args
        return z3.BoolVal(isinstance(res, dict) and isinstance(cloud, str) and res == tables[cloud])

    cs = []
    for cloud in ('gcp', 'azure'):
        cs.append(
            K(
                path=RU,
                qualname='memory_to_worker_type',
                label='memory_to_worker_type[%s]' % cloud,
                types={'cloud': 'U'},
                consts={'azure_memory_to_worker_type': tables['azure'], 'gcp_memory_to_worker_type': tables['gcp']},
                calls={'same_table': same_table},
                requires=["cloud == '%s'" % cloud],
                ensures=[('is-the-memory-class-table-of-the-cloud', "same_table(result, '%s')" % cloud)],
                canaries=[('is-the-other-table', "same_table(result, '%s')" % ('azure' if cloud == 'gcp' else 'gcp'))],
            )
        )
    return cs


JP_GRANT = (
    "({r}[0] == {jp}.name and {r}[1] == 1000 * mt_cores({jp}.cloud, machine_type) and {r}[2] == mt_mem({jp}.cloud, machine_type) and {r}[3] * GIB >= {s} and {r}[3] >= 10 and ({r}[3] - 1) * GIB < max({s}, MIN_DISK))"
)


def jpim_convert():
    return K(
        path=ICC,
        qualname='JobPrivateInstanceManagerConfig.convert_requests_to_resources',
        types={'machine_type': 'U', 'storage_bytes': 'int', 'result': SEL_T},
        self_fields={'name': 'U', 'cloud': 'U'},
        axioms=MT_AXIOMS,
        requires=["self.cloud == 'gcp' or self.cloud == 'azure'", 'storage_bytes >= 0', 'mt_valid(self.cloud, machine_type)'],
        calls={
            'requested_storage_bytes_to_actual_storage_gib': contract_model(requested_storage_bytes_to_actual_storage_gib()),
            'machine_type_to_cores_and_memory_bytes': contract_model(machine_type_to_cores_and_memory_bytes()),
        },
        ensures=[
            ('none-iff-storage-above-the-cloud-maximum', '(result is None) == (storage_bytes > max_disk_bytes(self.cloud))'),
            ('grants-the-whole-machine-and-storage-covering-the-request', 'result is None or ' + JP_GRANT.format(r='result', jp='self', s='storage_bytes')),
        ],
        canaries=[('never-none', 'result is not None'), ('always-none', 'result is None')],
    )


JP_REQ = ["self.jpim_config.cloud == 'gcp' or self.jpim_config.cloud == 'azure'", '{s} >= 0', 'mt_valid(cloud, machine_type)']
JP_NONE = '(self.jpim_config.cloud != cloud or {s} > max_disk_bytes(cloud))'


def select_job_private():
    return K(
        path=ICC,
        qualname='InstanceCollectionConfigs.select_job_private',
        types={'cloud': 'U', 'machine_type': 'U', 'storage_bytes': 'int', 'result': SEL_T},
        self_fields=ICC_FIELDS,
        axioms=MT_AXIOMS,
        requires=[r.format(s='storage_bytes') for r in JP_REQ],
        calls={'.convert_requests_to_resources': contract_model(jpim_convert(), method=True)},
        ensures=[
            ('rejects-iff-other-cloud-or-storage-above-the-maximum', '(result is None) == ' + JP_NONE.format(s='storage_bytes')),
            ('job-private-collection-of-the-requested-cloud-grants-the-machine', 'result is None or (self.jpim_config.cloud == cloud and %s)' % JP_GRANT.format(r='result', jp='self.jpim_config', s='storage_bytes')),
        ],
        canaries=[('never-none', 'result is not None'), ('always-none', 'result is None')],
    )


def select_inst_coll(mode):
    """two contracts on the same function: [pools] machine_type is None (cpu / memory are ints), [job-private] machine_type given
    (cpu / memory are None and must not be touched)"""
    calls = {
        'self.select_pool_from_worker_type': contract_model(select_pool_from_worker_type(), method=False),
        'self.select_cheapest_price_pool': contract_model(select_cheapest_price_pool(), method=False),
        'self.select_job_private': contract_model(select_job_private(), method=False),
        'valid_machine_types': contract_model(valid_machine_types()),
    }
    # the three callees are methods of the same object: bind the caller's `self` as their receiver
    for k in ('select_pool_from_worker_type', 'select_cheapest_price_pool', 'select_job_private'):
        cc = {'select_pool_from_worker_type': select_pool_from_worker_type, 'select_cheapest_price_pool': select_cheapest_price_pool, 'select_job_private': select_job_private}[k]()
        calls['self.' + k] = (lambda cc: lambda eng, st, args, kw, node: eng.call_contract_ex(cc, list(args), kw, st, node, receiver=st.env['self']))(cc)
    common = dict(
        path=ICC,
        qualname='InstanceCollectionConfigs.select_inst_coll',
        self_fields=ICC_FIELDS,
        axioms=MT_AXIOMS,
        calls=calls,
    )
    c, m, s_ = 'req_cores_mcpu', 'req_memory_bytes', 'req_storage_bytes'
    if mode == 'pools':
        return K(
            label='InstanceCollectionConfigs.select_inst_coll[pools]',
            types={'cloud': 'U', 'machine_type': 'U', 'pool_label': 'U', 'preemptible': 'bool', 'worker_type': 'U', c: 'int', m: 'int', s_: 'int', 'result': SEL_T},
            requires=['machine_type is None'] + [fmt(r, c=c, m=m, s=s_) for r in POOLS_WF + REQ_WF] + ['self.resource_rates is not None'],
            ensures=[
                ('no-exception-object', 'result[1] is None'),
                ('named-worker-type:selected-pool-matches-and-covers-the-request', fmt('worker_type is None or result[0] is None or exists(lambda j: 0 <= j < len(self.name_pool_config) and %s and granted_by(result[0], %s, {c}, {m}, {s}))' % (MATCH_WT, P), c=c, m=m, s=s_)),
                ('named-worker-type:rejects-only-if-no-matching-pool-can-satisfy', fmt('worker_type is None or result[0] is not None or forall(lambda j: implies(0 <= j < len(self.name_pool_config), not %s or %s))' % (MATCH_WT, CANNOT), c=c, m=m, s=s_)),
                ('any-worker-type:selected-pool-matches-and-covers-the-request', fmt('worker_type is not None or result[0] is None or exists(lambda j: 0 <= j < len(self.name_pool_config) and %s and granted_by(result[0], %s, {c}, {m}, {s}))' % (MATCH_ANY, P), c=c, m=m, s=s_)),
                ('any-worker-type:rejects-only-if-no-matching-pool-can-satisfy', fmt('worker_type is not None or result[0] is not None or forall(lambda j: implies(0 <= j < len(self.name_pool_config), not %s or %s))' % (MATCH_ANY, CANNOT), c=c, m=m, s=s_)),
            ],
            canaries=[('never-selects', 'result[0] is None'), ('always-selects', 'result[0] is not None')],
            **common,
        )
    return K(
        label='InstanceCollectionConfigs.select_inst_coll[job-private]',
        types={'cloud': 'U', 'machine_type': 'U', 'pool_label': 'U', 'preemptible': 'bool', 'worker_type': 'U', c: 'U', m: 'U', s_: 'int', 'result': SEL_T},
        requires=['machine_type is not None', 'worker_type is None', "cloud == 'gcp' or cloud == 'azure'", "self.jpim_config.cloud == 'gcp' or self.jpim_config.cloud == 'azure'", s_ + ' >= 0'],
        raises={'AssertionError': 'not machine_type or not mt_valid(cloud, machine_type)'},
        ensures=[
            ('no-exception-object', 'result[1] is None'),
            ('rejects-iff-other-cloud-or-storage-above-the-maximum', '(result[0] is None) == ' + JP_NONE.format(s=s_)),
            ('job-private-collection-of-the-requested-cloud-grants-the-machine', 'result[0] is None or (self.jpim_config.cloud == cloud and %s)' % JP_GRANT.format(r='result[0]', jp='self.jpim_config', s=s_)),
        ],
        canaries=[('never-selects', 'result[0] is None'), ('always-selects', 'result[0] is not None')],
        **common,
    )



# ---------------------------------------------------------------------------------------------
# front end: the resource section of the per-job loop body of _create_jobs


def is_valid_cores_exported():
    """what callers may use: the clauses proved for unbounded ints plus the exact characterisation below 2**61 mcpu"""
    c = is_valid_cores_int()
    c.label = None
    c.ensures = list(c.ensures) + [('exact-below-2**61', 'not (cores_mcpu < 2**61) or result == pack_form(cores_mcpu)')]
    return c


FE_SPEC = {'cpu_ok': (['U'], 'bool'), 'cpu_val': (['U'], 'int'), 'mem_val': (['U'], 'int'), 'sto_ok': (['U'], 'bool'), 'sto_val': (['U'], 'int')}
CFG_P = 'CFG.name_pool_config[j]'
FE_MATCH = '({p}.cloud == cloud and {p}.preemptible == preemptible and {p}.label == pool_label and (REQ_WT is None or {p}.worker_type == REQ_WT))'.format(p=CFG_P)
CPU_STR = "ite('cpu' in old(resources), old(resources)['cpu'], BATCH_JOB_DEFAULT_CPU)"
MEM_STR = "ite('memory' in old(resources), old(resources)['memory'], BATCH_JOB_DEFAULT_MEMORY)"
STO_STR = "ite('storage' in old(resources), old(resources)['storage'], BATCH_JOB_DEFAULT_STORAGE)"


def create_jobs_resources(tables, gcp_family):
    def parser(ok, val):
        def model(eng, st, args, kw, node):
            s_ = pyvc.to_z3(args[0], 'U')
            v = eng.uf(val, ['U'], 'int')(s_)
            st.assume(v >= 0)  # C25: the parsers return None or the (non-negative) value the string denotes
            if ok is None:
                return v
            o = eng.uf(ok, ['U'], 'bool')(s_)
            raise pyvc.Fork(node, [('unparsable', z3.Not(o), 'value', None), ('parsed', o, 'value', v)])

        return model

    def m2wt(eng, st, args, kw, node):
        cloud = args[0]
        eng.oblige(st, 'call/memory_to_worker_type/pre#0@L%d' % node.lineno, z3.Or(eng.equal(cloud, 'gcp'), eng.equal(cloud, 'azure')))
        raise pyvc.Fork(node, [('gcp-table', eng.equal(cloud, 'gcp'), 'value', tables['gcp']), ('azure-table', eng.equal(cloud, 'azure'), 'value', tables['azure'])])

    pools_c, jp_c = select_inst_coll('pools'), select_inst_coll('job-private')

    def select(eng, st, args, kw, node):
        recv, rest = args[0], list(args[1:])
        if kw or len(rest) != 8:
            raise core.Undecided('select_inst_coll is not called with its eight positional arguments')
        jp = rest[5] is None
        st.env['SEL_MODE'] = 'jp' if jp else 'pools'
        st.env['REQ_WT'], st.env['REQ_C'], st.env['REQ_M'], st.env['REQ_S'] = rest[4], rest[5], rest[6], rest[7]
        st.env['SEL_ARGS'] = (rest[0], rest[1], rest[2], rest[3])
        try:
            return eng.call_contract_ex(jp_c if jp else pools_c, rest, {}, st, node, receiver=recv, wrap=lambda v: (v, None))
        except pyvc.Fork as f:
            f.alts = [tuple(a[:4]) + ((lambda a: lambda s2: s2.env.__setitem__('SEL_NONE', a[2] == 'value' and a[3][0] is None))(a),) for a in f.alts]
            raise

    def setup(eng, st):
        cfg = pyvc.SRecord('InstanceCollectionConfigs')
        for fname, ft in ICC_FIELDS.items():
            v = pyvc.fresh_value(pyvc.parse_type(ft), 'cfg.' + fname)
            cfg.fields[fname] = v
            for w in pyvc.wf_constraints(v):
                st.assume(w)
        st.env['CFG'] = cfg
        st.env['app'] = pyvc.SRecord('dict', {'inst_coll_configs': cfg})
        st.env['worker_type'] = None  # `worker_type = None` precedes the fragment (AST obligation `context`)

    leaf = {'is_valid_cores_mcpu': is_valid_cores_exported()}
    for cloud in ('gcp', 'azure'):
        leaf['%s_cores_mcpu_to_memory_bytes' % cloud] = cores_mcpu_to_memory_bytes_exported(cloud)
    pools_req = 'SEL_MODE != \'pools\' or '
    jp_req = 'SEL_MODE != \'jp\' or '
    c = K(
        path=FE,
        qualname='_create_jobs',
        label='_create_jobs[resources]',
        fragment=(r're:^if machine_type is None$', r're:^inst_coll_name, cores_mcpu, memory_bytes, storage_gib = result$'),
        extra_inputs={'cloud': 'U', 'CLOUD': 'U', 'machine_type': 'U', 'pool_label': 'U', 'preemptible': 'bool', 'resources': 'Map[U, U]'},
        spec_funcs=FE_SPEC,
        axioms=MT_AXIOMS,
        setup=setup,
        consts={'GCP_MACHINE_FAMILY': gcp_family, 'MEMORY_CLASSES': tuple(sorted(tables['gcp']))},
        ghost_init={'SEL_MODE': "'none'", 'SEL_NONE': 'False'},
        requires=[
            "CLOUD == 'gcp' or CLOUD == 'azure'",
            'cloud == CLOUD',  # job specs cannot carry a `cloud` key (AST obligation `context`)
            'machine_type is None or not machine_type or mt_valid(cloud, machine_type)',  # the guard that precedes the fragment
            "CFG.jpim_config.cloud == 'gcp' or CFG.jpim_config.cloud == 'azure'",
            'CFG.resource_rates is not None',
        ]
        + [fmt(r, cfg='CFG') for r in POOLS_WF],
        calls={
            'parse_cpu_in_mcpu': parser('cpu_ok', 'cpu_val'),
            'parse_memory_in_bytes': parser(None, 'mem_val'),
            'parse_storage_in_bytes': parser('sto_ok', 'sto_val'),
            'memory_to_worker_type': m2wt,
            '.select_inst_coll': select,
        },
        raises={'HTTPBadRequest': True, 'AssertionError': 'machine_type is not None and not machine_type'},
        ensures=[
            ('a-collection-was-selected-for-the-request', "SEL_MODE != 'none' and not SEL_NONE"),
            ('selection-is-asked-for-this-job', 'SEL_ARGS[0] == cloud and (SEL_ARGS[1] is None) == (machine_type is None) and (machine_type is None or SEL_ARGS[1] == machine_type) and SEL_ARGS[2] == pool_label and SEL_ARGS[3] == preemptible'),
            ('parsed-cpu-is-what-is-passed-on', pools_req + 'REQ_C == cpu_val(%s)' % CPU_STR),
            ('parsed-storage-is-what-is-passed-on', 'REQ_S == sto_val(%s)' % STO_STR),
            ('parsed-memory-is-what-is-passed-on', pools_req + '(%s in MEMORY_CLASSES) or REQ_M == mem_val(%s)' % (MEM_STR, MEM_STR)),
            ('worker-type-is-named-exactly-by-a-memory-class', pools_req + '(REQ_WT is not None) == (%s in MEMORY_CLASSES)' % MEM_STR),
            (
                'pool-job:placed-in-a-pool-matching-cloud-preemptible-label-worker-type-that-covers-the-request-and-fits-one-worker',
                pools_req + 'exists(lambda j: 0 <= j < len(CFG.name_pool_config) and %s and granted_by((inst_coll_name, cores_mcpu, memory_bytes, storage_gib), %s, REQ_C, REQ_M, REQ_S))' % (FE_MATCH, CFG_P),
            ),
            (
                'machine-type-job:placed-in-the-job-private-collection-of-the-cloud-with-the-whole-machine-and-enough-storage',
                jp_req + '(CFG.jpim_config.cloud == cloud and %s)' % JP_GRANT.format(r='(inst_coll_name, cores_mcpu, memory_bytes, storage_gib)', jp='CFG.jpim_config', s='REQ_S'),
            ),
        ],
        on_raise=[
            ('after-selection-rejected-only-because-it-returned-none', "SEL_MODE == 'none' or SEL_NONE or isinst(exc, AssertionError)"),
            ('pool-job:rejected-only-if-no-matching-pool-can-satisfy', pools_req + 'isinst(exc, AssertionError) or forall(lambda j: implies(0 <= j < len(CFG.name_pool_config), not %s or %s))' % (FE_MATCH, fmt(CANNOT, cfg='CFG', c='REQ_C', m='REQ_M', s='REQ_S'))),
            ('machine-type-job:rejected-only-if-other-cloud-or-storage-above-the-maximum', jp_req + 'isinst(exc, AssertionError) or CFG.jpim_config.cloud != cloud or REQ_S > max_disk_bytes(cloud)'),
        ],
        canaries=[('always-a-pool-job', "SEL_MODE == 'pools'"), ('always-a-machine-type-job', "SEL_MODE == 'jp'"), ('never-a-named-worker-type', 'REQ_WT is None')],
    )
    return c, leaf



# ---------------------------------------------------------------------------------------------
# job schema clean-up (wave 4): "all request strings accepted by the job schema" includes the DEPRECATED spelling of the
# storage request, a top-level `pvc_size`, which validate.handle_deprecated_job_keys rewrites to resources.storage before
# the schema check.  What the schema accepted must be what _create_jobs later reads from spec['resources'].
#
# The pvc_size section of handle_deprecated_job_keys (its first statement) is executed on the real source with `job` a dict
# tracked as a record with REFERENCE semantics (`resources = job.get('resources'); ...; resources['storage'] = ...` must be
# seen through job['resources']: Contract.consts['__shared_records__']).  Dict key sets are definite per run, so the
# section is verified once per key-presence shape of the request (the keys it can tell apart: pvc_size, resources,
# resources.storage; `cpu` stands for every other resource key, job_id / process for every other job key); all VALUES are
# symbolic.  The statements around it - the rest of the function, handle_job_backwards_compatibility, the per-job loop of
# validate_and_clean_jobs, the handlers that call it before _create_jobs, the validators - are covered by syntactic
# obligations computed from the real AST on every run.

VAL = 'batch/batch/front_end/validate.py'
HVAL = 'hail/python/hailtop/utils/validate/validate.py'
PVC_ANCHOR = r"re:^if 'pvc_size' in job$"
JOB_SHAPES = [(pvc, rk) for pvc in (True, False) for rk in (None, (), ('cpu',), ('storage',), ('cpu', 'storage'))]


def _shape_label(pvc, rk):
    return 'pvc_size=%s,resources=%s' % ('yes' if pvc else 'no', 'absent' if rk is None else '{%s}' % ','.join(rk))


def _rec(v):
    return v if isinstance(v, pyvc.SRecord) else None


def _job_resources(job):
    j = _rec(job)
    return _rec(j.fields.get('resources')) if j is not None else None


JOB_SPEC_CALLS = {
    # res_entry_is(job, key, value): job['resources'] exists, has `key`, and the entry is `value`
    'res_entry_is': lambda eng, st, args, kw, node: (lambda r: z3.BoolVal(False) if r is None or args[1] not in r.fields or isinstance(r.fields[args[1]], pyvc.SRecord) else eng.equal(r.fields[args[1]], args[2]))(_job_resources(args[0])),
    # res_keys_are(job, keys): job['resources'] exists with exactly these keys; res_absent(job): no 'resources' key
    'res_keys_are': lambda eng, st, args, kw, node: (lambda r: z3.BoolVal(r is not None and sorted(r.fields) == sorted(args[1])))(_job_resources(args[0])),
    'res_absent': lambda eng, st, args, kw, node: z3.BoolVal(_rec(args[0]) is not None and 'resources' not in _rec(args[0]).fields),
    'job_keys_are': lambda eng, st, args, kw, node: z3.BoolVal(_rec(args[0]) is not None and sorted(_rec(args[0]).fields) == sorted(args[1])),
    'job_entry_is': lambda eng, st, args, kw, node: (lambda j: z3.BoolVal(False) if j is None or args[1] not in j.fields or isinstance(j.fields[args[1]], pyvc.SRecord) else eng.equal(j.fields[args[1]], args[2]))(_rec(args[0])),
}


def deprecated_job_keys(pvc, rk):
    """contract of the pvc_size section of handle_deprecated_job_keys for one key-presence shape of the job"""
    both = pvc and rk is not None and 'storage' in rk

    def setup(eng, st):
        job = pyvc.SRecord('dict')
        for k in ('job_id', 'process'):
            job.fields[k] = st.env['OLD_' + k] = z3.Const('in_job.' + k, pyvc.U)
        if rk is not None:
            res = pyvc.SRecord('dict')
            for k in rk:
                res.fields[k] = st.env['OLD_' + k] = z3.Const('in_job.resources.' + k, pyvc.U)
            job.fields['resources'] = res
        if pvc:
            job.fields['pvc_size'] = st.env['OLD_PVC'] = z3.Const('in_job.pvc_size', pyvc.U)
        st.env['job'] = job
        st.env['i'] = z3.Int('in_i')
        st.env['OTHER'] = z3.Const('some_other_value', pyvc.U)
        # job_validator['resources']['storage'] is the schema entry of the storage request (the only validator the section uses)
        st.env['job_validator'] = pyvc.SRecord('dict', {'resources': pyvc.SRecord('dict', {'storage': pyvc.SRecord('storage-schema')})})

    def validate(eng, st, args, kw, node):
        recv, rest = args[0], args[1:]
        if not (isinstance(recv, pyvc.SRecord) and recv.cls == 'storage-schema') or kw or len(rest) != 2:
            raise core.Undecided('validate() of something else than the storage schema entry (line %d)' % node.lineno)
        ok = eng.uf('schema_accepts_storage', ['U'], 'bool')(pyvc.to_z3(rest[1], 'U'))
        raise pyvc.Fork(node, [('schema-rejects-the-value', z3.Not(ok), 'raise', pyvc.SExc('ValidationError')), ('schema-accepts-the-value', ok, 'value', None)])

    keys_after = sorted(set(rk or ()) | ({'storage'} if pvc else set()))
    kept = ' and '.join(["res_keys_are(job, %r)" % (tuple(keys_after),)] + ["res_entry_is(job, %r, OLD_%s)" % (k, k) for k in (rk or ())]) if (pvc or rk is not None) else 'res_absent(job)'
    ensures = []
    if pvc and not both:
        ensures += [
            ('deprecated-pvc_size-becomes-the-storage-request-of-the-job', "res_entry_is(job, 'storage', OLD_PVC)"),
            ('accepted-only-if-the-storage-schema-accepts-the-value', 'schema_accepts_storage(OLD_PVC)'),
        ]
    if not both:
        ensures += [
            ('other-resource-requests-are-kept-and-none-is-invented', kept),
            ('deprecated-key-is-gone-and-the-other-job-keys-are-kept', "job_keys_are(job, %r) and job_entry_is(job, 'job_id', OLD_job_id) and job_entry_is(job, 'process', OLD_process)" % (tuple(sorted({'job_id', 'process'} | ({'resources'} if (pvc or rk is not None) else set()))),)),
        ]
    raises = {}
    if both:
        raises = {'ValidationError': True}
    elif pvc:
        raises = {'ValidationError': 'not schema_accepts_storage(OLD_PVC)'}
    return K(
        path=VAL,
        qualname='handle_deprecated_job_keys',
        label='handle_deprecated_job_keys[%s]' % _shape_label(pvc, rk),
        fragment=(PVC_ANCHOR, 1),
        spec_funcs={'schema_accepts_storage': (['U'], 'bool')},
        consts={'__shared_records__': True},
        setup=setup,
        calls=dict(JOB_SPEC_CALLS, **{'.validate': validate}),
        raises=raises,
        ensures=ensures,
        canaries=[] if both else [('storage-request-is-some-other-value', "res_entry_is(job, 'storage', OTHER)")],
    )


def run_deprecated_job_keys(ctx, replayer):
    for pvc, rk in JOB_SHAPES:
        c = deprecated_job_keys(pvc, rk)
        eng = pyvc.Engine(ctx, c)
        eng.replayer = replayer
        eng.run()
        if pvc and rk is not None and 'storage' in rk:
            # both spellings at once: the request is refused on every path (nothing to grant, nothing to under-provision)
            ctx.add(core.decided('%s/both-spellings-of-the-storage-request-are-refused' % eng.label, eng.normal_exits == 0 and eng.exc_exits >= 1, 'normal exits %d, exceptional exits %d' % (eng.normal_exits, eng.exc_exits), kind='vc'), replay=replayer)
        else:
            for name, _ in c.canaries:
                if not eng.canary_paths.get(name):
                    raise core.CheckerBug('%s: canary %s was never evaluated' % (eng.label, name))
        ctx.add(core.decided('%s/frame/no-call-outside-the-contracts' % eng.label, not eng.unmodelled, repr(eng.unmodelled), kind='frame'))


def _uses_of(fn, name):
    """every Name node `name` in fn together with its parent chain (innermost first)"""
    parents = {}
    for n in ast.walk(fn):
        for ch in ast.iter_child_nodes(n):
            parents[id(ch)] = n
    out = []
    for n in ast.walk(fn):
        if isinstance(n, ast.Name) and n.id == name:
            chain, cur = [], n
            while id(cur) in parents:
                cur = parents[id(cur)]
                chain.append(cur)
            out.append((n, chain))
    return out


def _job_dict_writes(stmts, name='job'):
    """how the statements change the dict bound to `name`: (constant keys stored / deleted / popped, offending uses).  An
    offending use is anything through which the dict could change in a way this scan cannot name: a store / delete / pop with
    a non-literal key, another mutating method, rebinding the name, or handing the whole dict to a call."""
    keys, bad = set(), []
    holder = ast.Module(body=list(stmts), type_ignores=[])
    for n, chain in _uses_of(holder, name):
        par = chain[0] if chain else None
        if isinstance(n.ctx, (ast.Store, ast.Del)):
            bad.append('rebinds %s (line %d)' % (name, n.lineno))
        elif isinstance(par, ast.Subscript) and par.value is n:
            k = par.slice.value if isinstance(par.slice, ast.Constant) and isinstance(par.slice.value, str) else None
            if isinstance(par.ctx, (ast.Store, ast.Del)):
                if k is None:
                    bad.append('writes %s (line %d)' % (ast.unparse(par), n.lineno))
                else:
                    keys.add(k)
            elif k is None and not (len(chain) > 1 and isinstance(chain[1], ast.Call) and par in chain[1].args):
                bad.append('reads %s outside a call argument (line %d)' % (ast.unparse(par), n.lineno))
        elif isinstance(par, ast.Attribute) and par.value is n:
            call = chain[1] if len(chain) > 1 and isinstance(chain[1], ast.Call) and chain[1].func is par else None
            k = call.args[0].value if call is not None and call.args and isinstance(call.args[0], ast.Constant) and isinstance(call.args[0].value, str) else None
            if par.attr in ('get', 'items', 'keys', 'values') and call is not None:  # read-only dict methods
                pass
            elif par.attr == 'pop' and k is not None:
                keys.add(k)
            else:
                bad.append('%s.%s (line %d)' % (name, par.attr, n.lineno))
        elif isinstance(par, ast.Compare) and n in par.comparators and all(isinstance(o, (ast.In, ast.NotIn)) for o in par.ops):
            pass
        else:
            bad.append('%s used as a value: %s (line %d)' % (name, ast.unparse(par) if par is not None else '?', n.lineno))
    return keys, bad


def job_schema_context(ctx):
    """syntactic facts around the pvc_size section (computed from the real AST on every run)"""
    vtree = ast.parse(core.read_repo(VAL))
    add = lambda name, ok, detail='': ctx.add(core.decided('job-schema[context]/' + name, bool(ok), detail, kind='scan'))
    # 1. the rest of handle_deprecated_job_keys, and handle_job_backwards_compatibility (which runs after the schema check),
    #    leave job['resources'] alone: they only add / remove literal top-level keys other than `resources`, never reach into it
    hd = pyvc.find_function(vtree, 'handle_deprecated_job_keys')
    texts = [pyvc._header_text(x) for x in hd.body]
    at = [k for k, t in enumerate(texts) if pyvc._anchor_match(PVC_ANCHOR, t)]
    rest = [x for k, x in enumerate(hd.body) if k not in at[:1]]
    params = [a.arg for a in hd.args.args]
    add('handle_deprecated_job_keys/takes-the-job-dict-as-its-second-parameter', params == ['i', 'job'] and len(at) == 1, '%r, pvc_size sections at %r' % (params, at))
    for fname, stmts in (('handle_deprecated_job_keys[after-the-pvc_size-section]', rest), ('handle_job_backwards_compatibility', pyvc.find_function(vtree, 'handle_job_backwards_compatibility').body)):
        keys, bad = _job_dict_writes(stmts)
        mentions = sorted({n.value for s_ in stmts for n in ast.walk(s_) if isinstance(n, ast.Constant) and n.value in ('resources', 'pvc_size', 'storage')})
        add('%s/changes-only-literal-top-level-keys-of-the-job' % fname, not bad, repr(bad))
        add('%s/leaves-the-resource-requests-alone' % fname, not ({'resources', 'pvc_size'} & keys) and not mentions, 'keys written %r, mentions %r' % (sorted(keys), mentions))
    # 2. validate_and_clean_jobs: every job of the request goes through handle_deprecated_job_keys and THEN the schema check,
    #    both on the dict that stays in the list
    vc_ = pyvc.find_function(vtree, 'validate_and_clean_jobs')
    loops = [n for n in vc_.body if isinstance(n, ast.For)]
    ok, detail = False, ''
    if len(loops) == 1 and ast.unparse(loops[0].iter) == 'enumerate(jobs)' and ast.unparse(loops[0].target) == '(i, job)' and not loops[0].orelse:
        calls = [ast.unparse(x.value) for x in loops[0].body if isinstance(x, ast.Expr) and isinstance(x.value, ast.Call)]
        rebinding = [n.lineno for n, _ in _uses_of(loops[0], 'job') if isinstance(n.ctx, (ast.Store, ast.Del))][1:] + [n.lineno for n, _ in _uses_of(vc_, 'jobs') if isinstance(n.ctx, (ast.Store, ast.Del))]
        first_two = [ast.unparse(x) for x in loops[0].body[:2]]
        ok = first_two[:1] == ['handle_deprecated_job_keys(i, job)'] and len(first_two) == 2 and first_two[1].startswith('job_validator.validate(') and first_two[1].endswith(', job)') and not rebinding
        detail = '%r rebinding %r' % (calls, rebinding)
    add('validate_and_clean_jobs/every-job-is-cleaned-of-deprecated-keys-then-checked-against-the-schema', ok, detail)
    guard = [x for x in vc_.body if isinstance(x, ast.If) and ast.unparse(x.test) == 'not isinstance(jobs, list)' and len(x.body) == 1 and isinstance(x.body[0], ast.Raise)]
    add('validate_and_clean_jobs/the-request-body-is-a-list', len(guard) == 1 and vc_.body.index(guard[0]) < vc_.body.index(loops[0]) if loops else False)
    # 3. the schema entry of the storage request is the one the deprecated value is checked against, and `resources` accepts no other keys
    res_keys = None
    for n in vtree.body:
        if isinstance(n, ast.Assign) and len(n.targets) == 1 and isinstance(n.targets[0], ast.Name) and n.targets[0].id == 'job_validator' and isinstance(n.value, ast.Call) and n.value.args and isinstance(n.value.args[0], ast.Dict):
            for k, v in zip(n.value.args[0].keys, n.value.args[0].values):
                if isinstance(k, ast.Constant) and k.value == 'resources' and isinstance(v, ast.Call) and ast.unparse(v.func) == 'keyed' and v.args and isinstance(v.args[0], ast.Dict):
                    res_keys = {ast.unparse(kk): ast.unparse(vv) for kk, vv in zip(v.args[0].keys, v.args[0].values)}
    add('job_validator/resources-is-a-keyed-schema-with-a-storage-entry-and-no-pvc_size', res_keys is not None and "'storage'" in res_keys and "'pvc_size'" not in res_keys, repr(res_keys))
    # 4. validators only read the object they check (KeyedValidator & co. never store into `obj`)
    htree = ast.parse(core.read_repo(HVAL))
    writes = []
    for fn in ast.walk(htree):
        if isinstance(fn, ast.FunctionDef) and fn.name == 'validate':
            prm = [a.arg for a in fn.args.args]
            if len(prm) >= 3:
                _, bad = _job_dict_writes(fn.body, prm[2])
                writes += [b for b in bad if not b.startswith(('%s used as a value' % prm[2], 'reads '))]
                keys, _ = _job_dict_writes(fn.body, prm[2])
                writes += ['stores key %r' % k for k in sorted(keys)]
    add('validators/never-write-into-the-object-they-check', not writes, repr(writes))
    # 5. every handler hands _create_jobs the very list it passed through validate_and_clean_jobs
    ftree = ast.parse(core.read_repo(FE))
    sites, bad = 0, []
    for fn in ftree.body:  # handlers are module-level functions; calls inside their nested helpers belong to them
        if not isinstance(fn, (ast.FunctionDef, ast.AsyncFunctionDef)) or fn.name == '_create_jobs':
            continue
        calls = [n for n in ast.walk(fn) if isinstance(n, ast.Call) and isinstance(n.func, ast.Name) and n.func.id == '_create_jobs']
        for cnode in calls:
            sites += 1
            arg = cnode.args[1] if len(cnode.args) >= 2 and isinstance(cnode.args[1], ast.Name) else None
            if arg is None:
                bad.append('%s: job specs are not passed as a plain name (line %d)' % (fn.name, cnode.lineno))
                continue
            checked = [n.lineno for n in ast.walk(fn) if isinstance(n, ast.Call) and isinstance(n.func, ast.Name) and n.func.id == 'validate_and_clean_jobs' and len(n.args) == 1 and isinstance(n.args[0], ast.Name) and n.args[0].id == arg.id and n.lineno < cnode.lineno]
            stores = [n.lineno for n, _ in _uses_of(fn, arg.id) if isinstance(n.ctx, (ast.Store, ast.Del))]
            if not checked or len(stores) != 1 or stores[0] > checked[0]:
                bad.append('%s: %s validated at %r, bound at %r, passed on at line %d' % (fn.name, arg.id, checked, stores, cnode.lineno))
    add('front-end/every-caller-of-_create_jobs-passes-the-list-it-validated', sites >= 1 and not bad, '%d call sites; %r' % (sites, bad))
    ctx.under_contract(VAL, 'validate_and_clean_jobs / handle_job_backwards_compatibility / rest of handle_deprecated_job_keys (syntactic)')


# ---------------------------------------------------------------------------------------------
# native side: bounded stand-ins, table facts, witness search (contracts/native/c12_native.py on the real modules)

NATIVE = os.path.join(os.path.dirname(__file__), 'native', 'c12_native.py')
SPEC_PAYLOAD = {'mpc_mib': SPEC_MPC_MIB, 'max_disk_gib': SPEC_MAX_DISK_GIB, 'gcp_family': SPEC_GCP_FAMILY, 'bound': CORES_BOUND_MCPU}


def native(mode, **kw):
    return core.run_native(open(NATIVE).read(), dict({'mode': mode, 'spec': SPEC_PAYLOAD}, **kw), timeout=300)


_SEARCHED = {}


def replayer_for(*functions):
    """a failed obligation of a function is replayed by evaluating that function's contract natively on the real code over
    its boundary grid; then the callers' grids (a broken helper shows in its callers too).  One search per chain and run."""
    chain = list(functions) + [f for f in ('PoolConfig.convert_requests_to_resources', 'InstanceCollectionConfigs.select_inst_coll', '_create_jobs[resources]') if f not in functions]

    def replay(model, obl):
        key = (core.REPO, tuple(chain))
        if key not in _SEARCHED:
            r = native('search', functions=chain)
            if 'confirmed' not in r:
                r = dict(r, confirmed=False)
            _SEARCHED[key] = r
        return _SEARCHED[key]

    return replay


def bounded_standins(ctx):
    r = native('bounded')
    if 'standins' not in r:
        raise core.Undecided('bounded stand-ins could not be evaluated: %s' % json.dumps(r)[:400])
    for b in r['standins']:
        detail = ''
        if not b['ok']:
            detail = dict(b.get('failure') or {}, confirmed=True)
        ctx.bounded_standin(b['name'], b['bound'], b['cases'], b['ok'], detail)
    ctx.under_contract(RU, 'adjust_cores_for_packability (bounded)')
    ctx.extra['clauses_resting_on_bounded_standins'] = {
        'packability': 'adjust_cores_for_packability: result >= request, result = 250*2**k, result least such - exhaustive over cores_in_mcpu in [1, %d] on the real function; NOT proved (math.log2 / 2**power on floats)' % (2 * CORES_BOUND_MCPU),
        'c2m-exact': '<cloud>_cores_mcpu_to_memory_bytes(250*2**k <= %d) * 1000 == mcpu * memory-per-core: complete enumeration of the finite domain on the real functions; NOT proved (the relative-error model cannot express exactness)' % CORES_BOUND_MCPU,
        'callers_using_them': 'PoolConfig.convert_requests_to_resources uses both as callee contracts (clauses marked BOUNDED:/ASSUMED: in contracts/C12.py); select_pool_from_worker_type, select_cheapest_price_pool, select_inst_coll[pools] and _create_jobs[resources] inherit them through convert_requests_to_resources; everything else is solver-proved',
    }


def table_facts(ctx):
    r = native('tables')
    if 'facts' not in r:
        raise core.Undecided('table facts could not be evaluated: %s' % json.dumps(r)[:400])
    for f in r['facts']:
        ctx.add(core.decided('tables/%s' % f['name'], f['ok'], f['detail'], kind='scan'))


def _assigned_in(stmts):
    return set(pyvc._assigned_names(stmts))


def front_end_context(ctx):
    """syntactic facts of the per-job loop body around the verified fragment (computed from the real AST on every run)"""
    tree = ast.parse(core.read_repo(FE))
    fn = pyvc.find_function(tree, '_create_jobs')
    loop = None
    for n in ast.walk(fn):
        if isinstance(n, ast.For) and any(isinstance(x, ast.If) and ast.unparse(x.test) == 'machine_type is None' for x in n.body):
            loop = n
    if loop is None:
        raise core.Undecided('anchor-moved: per-job loop with `if machine_type is None` not found in _create_jobs')
    texts = [pyvc._header_text(x) for x in loop.body]
    start = texts.index('if machine_type is None')
    end = [k for k, t in enumerate(texts) if t == 'inst_coll_name, cores_mcpu, memory_bytes, storage_gib = result']
    before, after = loop.body[:start], loop.body[(end[0] + 1 if end else len(loop.body)):]
    want = {
        'worker_type': 'worker_type = None',
        'machine_type': "machine_type = resources.get('machine_type')",
        'pool_label': "pool_label = resources.get('pool_label') or ''",
        'preemptible': "preemptible = resources.get('preemptible', BATCH_JOB_DEFAULT_PREEMPTIBLE)",
        'cloud': "cloud = spec.get('cloud', CLOUD)",
    }
    for name, text in want.items():
        idx = [k for k, x in enumerate(before) if ast.unparse(x) == text]
        later = before[idx[-1] + 1:] if idx else before
        once = len(idx) == 1 and name not in _assigned_in(later)
        ctx.add(core.decided('_create_jobs[context]/%s-is-bound-once-before-the-resource-section' % name, once, '%r at %r' % (text, idx), kind='scan'))
    guard = [k for k, x in enumerate(before) if isinstance(x, ast.If) and ast.unparse(x.test) == 'machine_type and machine_type not in valid_machine_types(cloud)' and len(x.body) == 1 and isinstance(x.body[0], ast.Raise) and not x.orelse]
    ctx.add(core.decided('_create_jobs[context]/unknown-machine-types-are-rejected-before-the-resource-section', len(guard) == 1, repr(guard), kind='scan'))
    res_kw = [k for k, x in enumerate(before) if ast.unparse(x) == "resources = spec.get('resources')"]
    ctx.add(core.decided('_create_jobs[context]/resources-is-the-job-spec-resources', len(res_kw) == 1, repr(res_kw), kind='scan'))
    after_texts = [ast.unparse(x) for x in after]
    stores = ["resources['cores_mcpu'] = cores_mcpu", "resources['memory_bytes'] = memory_bytes", "resources['storage_gib'] = storage_gib", "resources['preemptible'] = preemptible"]
    ctx.add(core.decided('_create_jobs[context]/granted-resources-are-written-into-the-job-spec', bool(end) and sorted(after_texts[:4]) == sorted(stores), repr(after_texts[:4]), kind='scan'))
    reassigned = sorted({'cores_mcpu', 'memory_bytes', 'storage_gib', 'inst_coll_name'} & _assigned_in(after))
    ctx.add(core.decided('_create_jobs[context]/granted-values-are-not-changed-afterwards', bool(end) and not reassigned, repr(reassigned), kind='scan'))
    # job specs cannot name a cloud: the validator rejects unknown keys and has no `cloud` key, so spec.get('cloud', CLOUD) is CLOUD
    vtree = ast.parse(core.read_repo('batch/batch/front_end/validate.py'))
    keys = None
    for n in vtree.body:
        if isinstance(n, ast.Assign) and len(n.targets) == 1 and isinstance(n.targets[0], ast.Name) and n.targets[0].id == 'job_validator' and isinstance(n.value, ast.Call) and n.value.args and isinstance(n.value.args[0], ast.Dict):
            keys = [ast.unparse(k) for k in n.value.args[0].keys]
    utree = ast.parse(core.read_repo('hail/python/hailtop/utils/validate/validate.py'))
    kv = ast.unparse(pyvc.find_function(utree, 'KeyedValidator.validate'))
    strict = 'unknown_keys = set(obj.keys()) - set(self.checkers.keys())' in kv and 'raise ValidationError' in kv
    ctx.add(core.decided('_create_jobs[context]/job-specs-cannot-name-a-cloud', keys is not None and "'cloud'" not in keys and strict, repr(keys), kind='scan'))
    ctx.under_contract(FE, '_create_jobs (statements around the resource section: syntactic)')
    # pool configurations only hold worker sizes from the per-cloud tables (driver-side validation)
    dsrc = core.read_repo('batch/batch/driver/main.py')
    ok = 'for cores in possible_cores_from_worker_type(pool.cloud, worker_type):' in dsrc and 'lambda c: c in possible_worker_cores' in dsrc
    ctx.add(core.decided('pool-config/worker-cores-are-validated-against-the-per-cloud-table', ok, '', kind='scan'))
    isrc = ast.unparse(pyvc.find_function(ast.parse(core.read_repo(ICC)), 'InstanceCollectionConfigs.__init__'))
    ok = 'name_pool_config: Dict[str, PoolConfig]' in isrc and 'jpim_config: JobPrivateInstanceManagerConfig' in isrc and 'self.name_pool_config = name_pool_config' in isrc and 'self.jpim_config = jpim_config' in isrc
    ctx.add(core.decided('InstanceCollectionConfigs/name_pool_config-holds-PoolConfigs-and-jpim_config-the-job-private-config', ok, '', kind='scan'))


def _selection_is_pure(ctx):
    """frame of the selection functions: InstanceCollectionConfigs.select_* decide from their arguments and the configured
    collections only - they assign no attribute of self and mutate no container reached through self (a remembered decision
    would outlive a refresh of the configuration)"""
    tree = pyast.parse(core.read_repo(ICC))
    cls = [n for n in tree.body if isinstance(n, pyast.ClassDef) and n.name == 'InstanceCollectionConfigs']
    if not cls:
        raise core.Undecided('anchor-moved: class InstanceCollectionConfigs')
    mut = pyvc.MUTATORS | {'setdefault', 'popitem', 'pop', '__setitem__'}
    for fn in cls[0].body:
        if isinstance(fn, (pyast.FunctionDef, pyast.AsyncFunctionDef)) and fn.name.startswith('select_'):
            writes = []
            for n in pyast.walk(fn):
                tgts = []
                if isinstance(n, pyast.Assign):
                    tgts = n.targets
                elif isinstance(n, (pyast.AugAssign, pyast.AnnAssign)):
                    tgts = [n.target]
                elif isinstance(n, pyast.Delete):
                    tgts = n.targets
                for t in tgts:
                    base = t
                    while isinstance(base, (pyast.Subscript, pyast.Attribute)):
                        if isinstance(base, pyast.Attribute) and isinstance(base.value, pyast.Name) and base.value.id == 'self':
                            writes.append(pyast.unparse(t))
                            break
                        base = base.value
                if isinstance(n, pyast.Call) and isinstance(n.func, pyast.Attribute) and n.func.attr in mut:
                    base = n.func.value
                    while isinstance(base, (pyast.Subscript, pyast.Attribute)):
                        if isinstance(base, pyast.Attribute) and isinstance(base.value, pyast.Name) and base.value.id == 'self':
                            writes.append(pyast.unparse(n.func))
                            break
                        base = base.value
            ctx.add(core.decided('C12/InstanceCollectionConfigs.%s/frame/writes-no-state-of-the-configuration-object' % fn.name, not writes, repr(writes), kind='frame'))


def native_witness(ctx):
    return native('search')


def build(ctx):
    _selection_is_pure(ctx)
    R = replayer_for
    run(ctx, round_up_division(), replayer=R('round_up_division'))
    run(ctx, is_valid_cores_int(), replayer=R('is_valid_cores_mcpu'))
    run(ctx, is_valid_cores_bv(), replayer=R('is_valid_cores_mcpu'))
    run(ctx, round_storage_bytes_to_gib(), replayer=R('round_storage_bytes_to_gib'))
    float_ops_are_exact_divisions(ctx, RU, 'round_storage_bytes_to_gib')
    for cloud in ('gcp', 'azure'):
        run(ctx, requested_to_actual_storage_bytes(cloud), replayer=R('%s_requested_to_actual_storage_bytes' % cloud))
    run(ctx, requested_storage_bytes_to_actual_storage_gib(), callees={'round_storage_bytes_to_gib': round_storage_bytes_to_gib()}, replayer=R('requested_storage_bytes_to_actual_storage_gib'))
    for cloud in ('gcp', 'azure'):
        mpc = worker_memory_per_core_mib(cloud)
        run(ctx, mpc, replayer=R(mpc.qualname))
        run(ctx, adjust_cores_for_memory_request(cloud), callees={mpc.qualname: mpc}, replayer=R('%s_adjust_cores_for_memory_request' % cloud))
        run(ctx, cores_mcpu_to_memory_bytes(cloud), callees={mpc.qualname: mpc}, replayer=R('%s_cores_mcpu_to_memory_bytes' % cloud))
    c, leaf = pool_convert()
    run(ctx, c, callees=leaf, replayer=R())
    run(ctx, select_pool_from_worker_type(), replayer=R('InstanceCollectionConfigs.select_pool_from_worker_type'))
    run(ctx, select_cheapest_price_pool(), replayer=R('InstanceCollectionConfigs.select_cheapest_price_pool'))
    RJ = R('InstanceCollectionConfigs.select_job_private')
    run(ctx, azure_machine_type_to_parts(), replayer=RJ)
    for cloud in ('gcp', 'azure'):
        run(ctx, cloud_machine_type_to_cores_and_memory_bytes(cloud), replayer=RJ)
    run(ctx, machine_type_to_cores_and_memory_bytes(), callees={'%s_machine_type_to_cores_and_memory_bytes' % c: cloud_machine_type_to_cores_and_memory_bytes(c) for c in ('gcp', 'azure')}, replayer=RJ)
    run(ctx, valid_machine_types(), replayer=RJ)
    valid_machine_types_are_the_table_keys(ctx)
    tables = {
        'gcp': pyvc.module_constants(ast.parse(core.read_repo(GCP))).get('gcp_memory_to_worker_type'),
        'azure': pyvc.module_constants(ast.parse(core.read_repo(AZ))).get('azure_memory_to_worker_type'),
    }
    if not all(isinstance(t, dict) and t for t in tables.values()):
        raise core.Undecided('anchor-moved: <cloud>_memory_to_worker_type is not a constant dict')
    for c in memory_to_worker_type(tables):
        run(ctx, c, replayer=R())
    run(ctx, jpim_convert(), replayer=R('JobPrivateInstanceManagerConfig.convert_requests_to_resources'))
    run(ctx, select_job_private(), replayer=R('InstanceCollectionConfigs.select_job_private'))
    run(ctx, select_inst_coll('pools'), replayer=R())
    run(ctx, select_inst_coll('job-private'), replayer=R('InstanceCollectionConfigs.select_job_private'))
    gcp_family = pyvc.module_constants(ast.parse(core.read_repo(GCP))).get('GCP_MACHINE_FAMILY')
    c, leaf = create_jobs_resources(tables, gcp_family)
    run(ctx, c, callees=leaf, replayer=R('_create_jobs[resources]'))
    front_end_context(ctx)
    run_deprecated_job_keys(ctx, R('validate_and_clean_jobs'))
    job_schema_context(ctx)
    table_facts(ctx)
    bounded_standins(ctx)
    ctx.witness_search = lambda: native('search')
    record_assumptions(ctx)


def record_assumptions(ctx):
    a = ctx.assume
    a('BOUNDED (not proved): adjust_cores_for_packability (math.log2, 2**power on floats) satisfies result >= request, result = 250*2**k, result least such, for every cores_in_mcpu in [1, 512000] - exhaustive evaluation of the real function (bounded stand-in `packability`)')
    a('ASSUMED: adjust_cores_for_packability(c) >= 512000 for c > 512000: c/1000 is correctly rounded (> 512), |math.log2(x) - log2(x)| < 1/2, math.ceil and 2**int are exact; sampled up to 2**900 by the stand-in, not proved')
    a('BOUNDED (not proved): <cloud>_cores_mcpu_to_memory_bytes is exact on packable core counts 250*2**k <= 256000 mcpu (complete enumeration of that finite domain on the real functions, stand-in `c2m-exact`)')
    a('float model of <cloud>_adjust_cores_for_memory_request and <cloud>_cores_mcpu_to_memory_bytes (proved clauses): every float operation returns the exact result times (1+d), |d| <= 2**-53; no overflow (memory requests below 2**1023 bytes: int/int raises OverflowError beyond, i.e. the request fails, it is not placed)')
    a('float operations of round_storage_bytes_to_gib are exact on 0 <= storage_bytes <= 2**53 (int -> double exact below 2**53, division by the literal 1024 only changes the exponent); that the function contains no other float operation is the obligation float-exactness/...')
    a('is_valid_cores_mcpu: the bit trick q & (q - 1) is verified on 64-bit vectors with no-overflow obligations, i.e. for cores_mcpu < 2**61; for larger ints only "valid => positive multiple of 250" is proved (`&` uninterpreted)')
    a('pool configuration: cloud in {gcp, azure}, worker_type in the cloud\'s table, 1 <= worker_cores <= 256 (the driver validates worker_cores against possible_cores_from_worker_type - syntactic obligation - whose largest entry is checked natively)')
    a('specification data (contracts/C12.py SPEC_*): per-core memory of each worker type, largest disk per cloud, 10 GiB minimum disk; helper contracts are stated against these values, and the machine tables of the real modules are checked to agree with them (tables/...)')
    a('self.name_pool_config.values() enumerates each configured pool once; the contracts view name_pool_config as that list')
    a('MACHINE_TYPE_TO_PARTS of a cloud is a finite map from its machine-type names to parts (mt_valid / mt_cores / mt_mem uninterpreted, positive - checked natively on the real tables)')
    a('prices (price_per_hour, possible_cloud_locations) are opaque and their ordering is arbitrary: which of several satisfying pools is the cheapest is not part of the property')
    a('C25 contracts of the string parsers: parse_cpu_in_mcpu / parse_storage_in_bytes return None or the non-negative value of the string; parse_memory_in_bytes is not None because validate_and_clean_jobs accepted the memory string (MEMORY_REGEX or a memory class) before _create_jobs runs')
    a('_create_jobs is verified on the resource section of its per-job loop body (from `if machine_type is None` to the unpacking of the selection); the statements around it are covered by the syntactic obligations _create_jobs[context]/...; CLOUD in {gcp, azure}')
    a('job dicts of validate.handle_deprecated_job_keys are tracked as records with a definite key set and reference semantics (aliases of a nested dict stay aliases across path splits); its pvc_size section is verified once per key-presence shape of the job (pvc_size yes/no x resources absent / {} / {cpu} / {storage} / {cpu, storage}): `cpu` stands for every other resource key, job_id and process for every other job key, all values are symbolic')
    a('job_validator["resources"]["storage"].validate(name, value) returns or raises ValidationError according to an uninterpreted predicate of the value (schema_accepts_storage): which strings the schema accepts is C25; validators only read the checked object (syntactic obligation validators/never-write-into-the-object-they-check)')
    a('modular calls: a callee that has a contract here is replaced by "assert requires; assume ensures" (Engine.call_contract / call_contract_ex); Optional results and allowed exceptions come back as separate paths')
    ctx.undecided('which satisfying pool is chosen (cheapest): pricing is opaque here and irrelevant to the property')
    ctx.undecided('"all request strings accepted by the job schema": the string -> number step is C25; here the parsed numbers are arbitrary non-negative ints')
    ctx.undecided('storage "fits on one worker": in this fork convert_requests_to_resources does not compare the storage request with the worker data disk (extra storage is a separately attached disk); only the per-cloud maximum disk size is checked')
    ctx.undecided('a request body with "resources": null next to pvc_size raises TypeError inside handle_deprecated_job_keys (HTTP 500) before the schema check: a rejection, not a shape of the contract; reported as an oddity')
    ctx.undecided('select_cheapest_price_pool: a restructuring that no longer fits the loop invariants (they name the running choice) is decided by the native witness search (pool orders x price orders), not by the solver')
    ctx.undecided('requests with machine_type == "" end in an AssertionError inside select_inst_coll (HTTP 500), not in a 400 rejection: allowed by the contract as a rejection, reported as an oddity')


def thorough(ctx):
    """encoder validation: every contract of this module is re-stated in contracts/native/c12_native.py and evaluated on the
    real functions over their boundary grids; a disagreement with the solver's verdicts (all obligations discharged, yet a
    clause fails natively) means the machinery is inconsistent (exit 3), never a property verdict by itself"""
    r = native('search')
    all_ok = all(o.status == 'ok' for o in ctx.obls if o.status != 'pending')
    ctx.extra['native_validation'] = r
    ctx.add(core.decided('thorough/encoder-validation/contracts-hold-natively-wherever-the-solver-proved-them', not (all_ok and r.get('confirmed')), json.dumps(r)[:600], kind='vacuity'))
