"""C08 - accepted job graphs can always finish.

Obligations on the real code (fragments of front_end._create_jobs, validate.validate_and_clean_jobs, commit_batch_update):
 (o2) every parent id handed to the INSERT into job_parents satisfies 1 <= parent < job_id (so dependencies point to earlier jobs
      of the batch and the graph is acyclic); otherwise the request is rejected with HTTPBadRequest BEFORE any write.
 (o2') one job_parents row per listed parent and n_pending_parents = number of listed parents (a duplicated parent cannot be
      silently de-duplicated while still being counted).
 (o3) every rejection inside the per-job loop precedes all database writes (the writes happen in nested functions called
      after the loop) - AST obligation.
 (o5) validate_and_clean_jobs: job ids of a bunch are contiguous (loop contract: normal exit => ids increase by one).
 (o6) commit_batch_update commits only when the staged job count equals the declared n_jobs (sqlvc).
 (o1) job_id within the update's reserved range [start, start + n_jobs): NOT enforced by the code (only contiguity and the total
      count are checked) - recorded as a known finding, the obligation is generated and reported as KNOWN-FINDING.
"""
from __future__ import annotations

import ast as pyast

import z3

from contracts import create_jobs_frag, sqlspec as SP
from vc import core, pyvc, sqlvc
from vc.pyvc import Contract, LoopSpec

FE = 'batch/batch/front_end/front_end.py'
VAL = 'batch/batch/front_end/validate.py'


def parents_contract():
    return Contract(
        path=FE,
        qualname='_create_jobs',
        label='_create_jobs[parent-ids]',
        fragment=(r"re:^parent_ids = ", r"re:^(if not all\(|absolute_job_group_id = )"),
        extra_inputs={'absolute_parent_ids': 'List[int]', 'in_update_parent_ids': 'List[int]', 'update_start_job_id': 'int', 'job_id': 'int', 'batch_id': 'U'},
        raises={'HTTPBadRequest': "exists(lambda i: 0 <= i < len(parent_ids) and not (0 < parent_ids[i] and parent_ids[i] < job_id))"},
        ensures=[
            ('every-parent-is-an-earlier-job', "forall(lambda i: implies(0 <= i < len(parent_ids), 0 < parent_ids[i] and parent_ids[i] < job_id))"),
            ('parents-are-the-absolute-ids-then-the-shifted-in-update-ids', "len(parent_ids) == len(absolute_parent_ids) + len(in_update_parent_ids) and forall(lambda i: implies(0 <= i < len(absolute_parent_ids), parent_ids[i] == absolute_parent_ids[i])) and forall(lambda i: implies(0 <= i < len(in_update_parent_ids), parent_ids[len(absolute_parent_ids) + i] == update_start_job_id + in_update_parent_ids[i] - 1))"),
        ],
        canaries=[('no-parents-ever', 'len(parent_ids) == 0')],
        consts={'spec': pyvc.SDotted('spec')},
    )


REPLAY = r'''
import sys, json, os, ast
p = json.load(sys.stdin)
src = open(os.path.join(os.environ['VERIF_REPO'], 'batch/batch/front_end/front_end.py')).read()
tree = ast.parse(src)
fn = [n for n in ast.walk(tree) if isinstance(n, ast.AsyncFunctionDef) and n.name == '_create_jobs'][0]
loop = [n for n in fn.body if isinstance(n, ast.For)][0]
stmts = []
take = False
for st in loop.body:
    t = ast.unparse(st)
    if t.startswith('parent_ids = '): take = True
    if take:
        if t.startswith('absolute_job_group_id = '): break
        stmts.append(st)
class BadRequest(Exception): pass
class web:
    @staticmethod
    def HTTPBadRequest(reason=None): return BadRequest(reason)
def run(q):
    env = {'absolute_parent_ids': list(q['absolute']), 'in_update_parent_ids': list(q['in_update']), 'update_start_job_id': q['start'], 'job_id': q['job_id'], 'batch_id': 1, 'web': web,
           'spec': {'job_id': q['job_id'], 'absolute_parent_ids': list(q['absolute']), 'in_update_parent_ids': list(q['in_update'])}, 'update_id': 1 if q['start'] == 1 else 2}
    try:
        exec(compile(ast.Module(body=stmts, type_ignores=[]), 'front_end-fragment', 'exec'), env)
    except BadRequest:
        return None
    bad = [x for x in env['parent_ids'] if not (0 < x < q['job_id'])]
    return {'confirmed': True, 'input': q, 'accepted_parent_ids': env['parent_ids'], 'not_earlier_jobs': bad} if bad else None
res = {'confirmed': False}
cands = [p['case']] if 'case' in p else []
for start in (1, 5):
    for jid_rel in (1, 2, 3):
        for ab in ([], [1], [start + jid_rel - 1], [0], [99]):
            for iu in ([], [1], [jid_rel], [jid_rel + 1], [0]):
                cands.append({'absolute': ab, 'in_update': iu, 'start': start, 'job_id': start + jid_rel - 1})
for q in cands:
    r = run(q)
    if r:
        res = r; break
print(json.dumps(res))
'''


def validate_contract():
    return Contract(
        path=VAL,
        qualname='validate_and_clean_jobs',
        types={'jobs': 'List[U]', '.job_id': 'int', 'prev_job_id': 'int'},
        spec_funcs={'jid': (['U'], 'int')},
        calls={
            'isinstance': lambda eng, st, args, kw, node: True,
            'handle_deprecated_job_keys': lambda eng, st, args, kw, node: None,
            'job_validator.validate': lambda eng, st, args, kw, node: None,
            'handle_job_backwards_compatibility': lambda eng, st, args, kw, node: None,
        },
        raises={'ValidationError': True},
        loops={0: LoopSpec(index='k', invariants=[
            ('ids-so-far-contiguous', "forall(lambda t: implies(0 <= t and t + 1 < k, implies(jid(jobs[t]) != 0, jid(jobs[t + 1]) == jid(jobs[t]) + 1)))"),
            ('prev-is-last', "implies(k > 0, prev_job_id == jid(jobs[k - 1]))"),
        ])},
        ensures=[('accepted-bunch-has-contiguous-job-ids', "forall(lambda t: implies(0 <= t and t + 1 < len(jobs), implies(jid(jobs[t]) != 0, jid(jobs[t + 1]) == jid(jobs[t]) + 1)))")],
    )


def native_witness(ctx):
    return core.run_native(REPLAY, {})


def _parent_ids_are_integers(ctx):
    """the job schema admits only integers as parent ids (a fractional id between 0 and the job id would pass the range test
    of _create_jobs and name no job): the three parent-id keys of job_validator are lists of int_type, and int_type is the
    integer validator of hailtop.batch_client / batch.front_end.validate"""
    tree = pyast.parse(core.read_repo(VAL))
    entries = {}
    for n in pyast.walk(tree):
        if isinstance(n, pyast.Assign) and pyast.unparse(n.targets[0]) == 'job_validator':
            for d in pyast.walk(n.value):
                if isinstance(d, pyast.Dict):
                    for k, v in zip(d.keys, d.values):
                        if isinstance(k, pyast.Constant) and k.value in ('parent_ids', 'absolute_parent_ids', 'in_update_parent_ids'):
                            entries[k.value] = pyast.unparse(v)
    ok = len(entries) == 3 and all(v == 'listof(int_type)' for v in entries.values())
    imported = any(isinstance(n, pyast.ImportFrom) and any(a.name == 'int_type' for a in n.names) for n in pyast.walk(tree))
    ctx.add(core.decided('validate/parent-id-lists-admit-integers-only', ok and imported, repr(entries), kind='scan'))
    ctx.under_contract(VAL, 'job_validator (parent id entries)')


def build(ctx):
    _parent_ids_are_integers(ctx)
    # (o2) parents are earlier jobs
    eng = pyvc.Engine(ctx, parents_contract())
    eng.replayer = lambda model, obl: core.run_native(REPLAY, {})
    eng.run()
    ctx.witness_search = lambda: core.run_native(REPLAY, {})
    # (o2') rows handed to the INSERTs
    create_jobs_frag.add(ctx, a=(), b=['jobs-row-appended', 'n_pending_parents-is-the-number-of-parents', 'one-parent-row-per-parent-in-order', 'earlier-parent-rows-untouched'])
    # (o3) rejections precede writes
    src = core.read_repo(FE)
    tree = pyast.parse(src)
    fn = [n for n in pyast.walk(tree) if isinstance(n, pyast.AsyncFunctionDef) and n.name == '_create_jobs'][0]
    loops = [n for n in fn.body if isinstance(n, pyast.For) and pyast.unparse(n.iter) == 'job_specs']
    ok = len(loops) == 1
    detail = ''
    if ok:
        loop = loops[0]
        awaits_in_loop = [pyast.unparse(n)[:60] for n in pyast.walk(loop) if isinstance(n, pyast.Await) and ('tx.' in pyast.unparse(n) or 'db.execute' in pyast.unparse(n) or 'insert' in pyast.unparse(n))]
        after = fn.body[fn.body.index(loop) + 1:]
        raises_after = [n for st in after if not isinstance(st, (pyast.AsyncFunctionDef, pyast.FunctionDef)) for n in pyast.walk(st) if isinstance(n, pyast.Raise) and 'HTTPBadRequest' in pyast.unparse(n)]
        ok = not awaits_in_loop
        detail = 'db awaits inside the per-job loop: %r' % awaits_in_loop
    ctx.add(core.decided('_create_jobs/rejections-in-the-per-job-loop-precede-every-database-write', ok, detail, kind='scan'))
    ctx.under_contract(FE, '_create_jobs (write ordering)')
    # (o5) contiguity in validate_and_clean_jobs
    v = pyvc.Engine(ctx, validate_contract())
    # spec['job_id'] on an opaque job spec: jid(job)
    orig_index = v.index

    def index(cont, idx, st, node=None):
        if isinstance(cont, z3.ExprRef) and cont.sort() == pyvc.U and idx == 'job_id':
            return v.uf('jid', ['U'], 'int')(cont)
        return orig_index(cont, idx, st, node)

    v.index = index
    v.run()
    # (o6) commit only with the declared number of jobs
    ex = SP.proc_exec(inline_after=False)
    name = 'commit_batch_update'
    ctx.under_contract(SP.rel(ex.routines[name].source_file), 'PROCEDURE ' + name)
    n = 0
    for pi, s in enumerate(ex.run_procedure(name)):
        committing = [e for e in s.effects if e.table == 'batch_updates' and e.kind in ('update', 'update-set') and not e.data.get('rolled_back')]
        if committing:
            n += 1
            exp, stg = s.vars['expected_n_jobs'], s.vars['staging_n_jobs']
            SP.add_valid(ctx, '%s/path%d/commits-only-when-the-staged-job-count-equals-the-declared-one' % (name, pi), s.pc, [], z3.And(z3.Not(exp.n), z3.Not(stg.n), stg.v == exp.v))
            # ... and the count compared IS the number of jobs staged for this update: the one SUM(n_jobs) aggregate over the
            # staging table, on every committing path (not a constant or a value of another origin)
            from contracts.C06 import _decls
            recs = [r for r in s.aggregates if r.get('func') == 'SUM' and 'n_jobs' in r.get('expr', '') and r['symbol'].decl().name() in _decls(stg.v)]
            ctx.add(core.decided('%s/path%d/the-count-compared-is-the-sum-of-the-staged-jobs' % (name, pi), len(recs) == 1, '%d SUM(n_jobs) aggregates feed staging_n_jobs' % len(recs), kind='scan'))
    ctx.add(core.decided('%s/commit-paths-exist' % name, n >= 1, '%d' % n, kind='vacuity'))
    # (o1) reserved id range: generated, expected to fail (known finding)
    has_range_check = 'n_jobs' in pyast.unparse(fn) and ('update_start_job_id + ' in pyast.unparse(fn) and '>= update_start_job_id' in pyast.unparse(fn))
    ctx.add(core.decided('_create_jobs/job-id-within-the-reserved-range-of-the-update', has_range_check, 'no comparison of job_id with the update\'s [start_job_id, start_job_id + n_jobs) found in _create_jobs', kind='scan'))
    ctx.assume('validate_and_clean_jobs: the per-job validators are opaque (they may only raise); job ids are integers read from the spec')
    ctx.assume('the batch client never sends job id 0 (the `if prev_job_id:` test treats 0 as "no previous id")')
    ctx.undecided('existence of parent rows across updates is implied by 0 < parent < job_id only if earlier ids were all inserted (contiguity + committed count: o5, o6)')
    ctx.undecided('(o4) _create_job_group: a named parent group must exist (structural invariant A1) - not under contract')
    ctx.undecided('"every committed batch can reach completion" needs liveness (C39, not applicable)')
