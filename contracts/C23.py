"""C23 - ranged reads return exactly the requested bytes.

The object is an abstract byte sequence of length N; a *stream over [a, b)* delivers the object's bytes a .. min(b, N) - 1 in
order (b = infinity when no length is given).  Contracts on the real code:

 (A) AsyncFS.read_range(url, start, end, end_inclusive): opens the stream with open_from(url, start, length=n) and returns
     readexactly(n) of it, with n = end - start + 1 (inclusive) / end - start (exclusive) - exactly the requested span.
 (B) AsyncFS.open_from: length == 0 -> EmptyReadableStream for an existing file (documented errors otherwise), else the
     backend's _open_from with url, start and length unchanged.   RouterAsyncFS._open_from forwards them unchanged too.
 (C) EmptyReadableStream: read -> b'', readexactly(0) -> b'', readexactly(n > 0) -> UnexpectedEOFError.
 (D) GCS and S3 _open_from: the request carries Range: "bytes=<start>-" without a length and
     "bytes=<start>-<start+length-1>" with one (HTTP byte ranges are inclusive); bucket/key come from the parsed url;
     S3 maps InvalidRange to UnexpectedEOFError.  What the server returns for that header is the ASSUMED contract of RFC 7233.
 (E) local files: LocalAsyncFS._open_from seeks to start and wraps the file in TruncatedReadableBinaryIO(length) when a
     length is given; TruncatedReadableBinaryIO.read never passes its limit (class invariant 0 <= offset <= limit) and
     returns what the underlying read returned; _ReadableStreamFromBlocking._readexactly (loop contract) returns exactly n
     bytes, contiguous and in order, or raises UnexpectedEOFError when the file ends first.
 (F) Azure: AzureAsyncFS._open_from builds AzureReadableStream(offset=start, length=length); every download_blob request of
     the stream must carry the stream's offset and its (remaining) length; readexactly returns n bytes or raises.
"""
from __future__ import annotations

import ast as pyast
import os

import z3

from vc import core, pyclass, pyvc
from vc.pyvc import Contract, Fork, Ghost, LoopSpec, SExc, SRecord, to_z3, with_model

FS = 'hail/python/hailtop/aiotools/fs/fs.py'
STREAM = 'hail/python/hailtop/aiotools/fs/stream.py'
LOCAL = 'hail/python/hailtop/aiotools/local_fs.py'
ROUTER = 'hail/python/hailtop/aiotools/router_fs.py'
GCS = 'hail/python/hailtop/aiocloud/aiogoogle/client/storage_client.py'
S3 = 'hail/python/hailtop/aiocloud/aioaws/fs.py'
AZ = 'hail/python/hailtop/aiocloud/aioazure/fs.py'

NOEXC = z3.Const('no_exc', pyvc.U)


def _strict(ctx, eng, label):
    ctx.add(core.decided('C23/%s/no-call-outside-the-contract' % label, not eng.unmodelled, repr(eng.unmodelled), kind='frame'))


# ---- (A) read_range -------------------------------------------------------------------------------------------------------


def read_range():
    F = z3.Const('the_stream', pyvc.U)

    def enter(eng, st, node):
        call = node.items[0].context_expr.value
        args = [eng.ev(a, st) for a in call.args]
        kws = {k.arg: eng.ev(k.value, st) for k in call.keywords}
        s = st.fork()
        s.env['n_open'] = s.env['n_open'] + 1
        s.env['open_url'] = args[0] if args else None
        s.env['open_start'] = args[1] if len(args) > 1 else kws.get('start')
        s.env['open_length'] = kws.get('length', args[2] if len(args) > 2 else None)
        bad = st.fork()
        e = z3.Const(pyvc.fresh_name('open_exc'), pyvc.U)
        bad.env['last_exc'] = e
        return [(s, ('value', F)), (bad, ('raise', SExc(term=e)))]

    def exit_(eng, st, exc):
        s = st.fork()
        s.env['n_close'] = s.env['n_close'] + 1
        return [(s, None)]

    def readexactly(eng, st, args, kw, node):
        v = z3.Const(pyvc.fresh_name('bytes_read'), pyvc.U)
        e = z3.Const(pyvc.fresh_name('eof_exc'), pyvc.U)

        def ok(s):
            s.env['n_read'] = s.env['n_read'] + 1
            s.env['read_n'] = args[0]
            s.env['last_ok'] = v

        def bad(s):
            s.env['n_read'] = s.env['n_read'] + 1
            s.env['read_n'] = args[0]
            s.env['last_exc'] = e

        raise Fork(node, [('read-ok', None, 'value', v, ok), ('eof', None, 'raise', SExc(term=e), bad)])

    span = "(end - start + 1 if end_inclusive else end - start)"
    return Contract(
        path=FS,
        qualname='AsyncFS.read_range',
        opaque_methods=True,
        types={'url': 'U', 'start': 'int', 'end': 'int', 'end_inclusive': 'bool'},
        calls={'with:self.open_from': with_model(enter, exit_), 'f.readexactly': readexactly},
        ghost_init={'n_open': '0', 'n_close': '0', 'n_read': '0', 'open_url': 'NOEXC', 'open_start': '0 - 1', 'open_length': '0 - 1', 'read_n': '0 - 1', 'last_ok': 'NOEXC', 'last_exc': 'NOEXC'},
        consts={'NOEXC': NOEXC},
        ensures=[
            ('one-stream-opened-at-start-with-the-span-as-length', 'n_open == 1 and open_url == url and open_start == start and open_length == ' + span),
            ('exactly-the-span-is-read-once', 'n_read == 1 and read_n == ' + span),
            ('returns-the-bytes-read', 'result == last_ok'),
            ('stream-closed', 'n_close == 1'),
        ],
        raises={'*': True},
        on_raise=[('raises-the-open-or-eof-error-unchanged', 'exc == last_exc'), ('stream-closed-if-opened', 'n_close == n_open')],
        canaries=[('span-could-always-be-zero', 'read_n == 0')],
    )


def read_from():
    F = z3.Const('the_stream', pyvc.U)

    def enter(eng, st, node):
        call = node.items[0].context_expr.value
        args = [eng.ev(a, st) for a in call.args]
        kws = {k.arg: eng.ev(k.value, st) for k in call.keywords}
        s = st.fork()
        s.env['n_open'] = s.env['n_open'] + 1
        s.env['open_url'] = args[0]
        s.env['open_start'] = args[1]
        s.env['open_has_length'] = ('length' in kws and kws['length'] is not None) or len(args) > 2
        return [(s, ('value', F))]

    def read(eng, st, args, kw, node):
        st.env['n_read'] = st.env['n_read'] + 1
        st.env['read_all'] = (not args) or (isinstance(args[0], int) and args[0] == -1)
        v = z3.Const(pyvc.fresh_name('bytes_read'), pyvc.U)
        st.env['last_ok'] = v
        return v

    return Contract(
        path=FS,
        qualname='AsyncFS.read_from',
        opaque_methods=True,
        types={'url': 'U', 'start': 'int'},
        calls={'with:self.open_from': with_model(enter, lambda eng, st, exc: [(st, None)]), 'f.read': read},
        ghost_init={'n_open': '0', 'n_read': '0', 'open_url': 'NOEXC', 'open_start': '0 - 1', 'open_has_length': 'False', 'read_all': 'False', 'last_ok': 'NOEXC'},
        consts={'NOEXC': NOEXC},
        ensures=[('unbounded-stream-from-start-read-to-the-end', 'n_open == 1 and open_url == url and open_start == start and not open_has_length and n_read == 1 and read_all and result == last_ok')],
        raises={},
    )


# ---- (B) open_from --------------------------------------------------------------------------------------------------------


def open_from():
    def gather(eng, st, args, kw, node):
        return (z3.Bool(pyvc.fresh_name('isfile')), z3.Bool(pyvc.fresh_name('isdir')))

    def backend(eng, st, args, kw, node):
        st.env['n_backend'] = st.env['n_backend'] + 1
        st.env['b_url'], st.env['b_start'] = args[0], args[1]
        st.env['b_length'] = kw.get('length')
        v = z3.Const(pyvc.fresh_name('backend_stream'), pyvc.U)
        st.env['last_ok'] = v
        return v

    def opaque(name):
        return lambda eng, st, args, kw, node: z3.Const(pyvc.fresh_name(name), pyvc.U)

    def setup(eng, st):
        st.env['ISFILE'] = None

    cs = []
    for tag, has_len in (('length-given', True), ('no-length', False)):
        def setup(eng, st, has_len=has_len):
            if not has_len:
                st.env['length'] = None

        cs.append(Contract(
            path=FS,
            qualname='AsyncFS.open_from',
            label='AsyncFS.open_from[%s]' % tag,
            types={'url': 'U', 'start': 'int', 'length': 'int', '.path': 'str'},
            strings=True,
            setup=setup,
            calls={
                'self.parse_url': opaque('fs_url'), 'fs_url.path.endswith': lambda eng, st, args, kw, node: z3.Bool(pyvc.fresh_name('endswith')),
                'fs_url.path.rstrip': opaque('rstripped'), 'fs_url.with_path': opaque('with_path'), 'str': opaque('str'),
                'self.isfile': opaque('isfile_coro'), 'self.isdir': opaque('isdir_coro'), 'asyncio.gather': gather,
                'EmptyReadableStream': lambda eng, st, args, kw, node: SRecord('EmptyReadableStream', {}),
                'self._open_from': backend,
            },
            ghost_init={'n_backend': '0', 'b_url': 'NOEXC', 'b_start': '0 - 1', 'b_length': '0 - 1', 'last_ok': 'NOEXC'},
            consts={'NOEXC': NOEXC},
            ensures=[
                ('non-empty-requests-go-to-the-backend-unchanged', ('implies(length != 0, ' if has_len else '(') + 'n_backend == 1 and b_url == url and b_start == start and ' + ('b_length == length' if has_len else 'b_length is None') + ' and result == last_ok)'),
            ] + ([('empty-request-never-reaches-the-backend', 'implies(length == 0, n_backend == 0)')] if has_len else []),
            raises={'FileAndDirectoryError': 'length == 0' if has_len else 'False', 'IsADirectoryError': 'length == 0' if has_len else 'False', 'FileNotFoundError': 'length == 0' if has_len else 'False'},
        ))
    return cs


def router_open_from():
    def backend(eng, st, args, kw, node):
        st.env['n_backend'] = st.env['n_backend'] + 1
        st.env['b_url'], st.env['b_start'] = args[0], args[1]
        st.env['b_length'] = kw.get('length')
        v = z3.Const(pyvc.fresh_name('backend_stream'), pyvc.U)
        st.env['last_ok'] = v
        return v

    return Contract(
        path=ROUTER,
        qualname='RouterAsyncFS._open_from',
        types={'url': 'U', 'start': 'int', 'length': 'int'},
        calls={'self._get_fs': lambda eng, st, args, kw, node: z3.Const('routed_fs', pyvc.U), 'fs.open_from': backend},
        ghost_init={'n_backend': '0', 'b_url': 'NOEXC', 'b_start': '0 - 1', 'b_length': '0 - 1', 'last_ok': 'NOEXC'},
        consts={'NOEXC': NOEXC},
        ensures=[('forwards-url-start-length-unchanged', 'n_backend == 1 and b_url == url and b_start == start and b_length == length and result == last_ok')],
        raises={},
    )


# ---- (C) EmptyReadableStream ----------------------------------------------------------------------------------------------


def empty_stream():
    return [
        Contract(path=STREAM, qualname='EmptyReadableStream.readexactly', types={'n': 'int'}, ensures=[('only-the-empty-read-succeeds', "n == 0 and result == b''")], raises={'UnexpectedEOFError': 'n != 0'}, consts={}),
        Contract(path=STREAM, qualname='EmptyReadableStream.read', types={'n': 'int'}, ensures=[('always-empty', "result == b''")], raises={}),
    ]


# ---- (D) HTTP Range construction ------------------------------------------------------------------------------------------


def _spec_range(eng, start, length):
    si = eng.uf('str_int', ['int'], 'str')
    if length is None:
        return z3.Concat(z3.StringVal('bytes='), si(start), z3.StringVal('-'))
    return z3.Concat(z3.StringVal('bytes='), si(start), z3.StringVal('-'), si(start + length - 1))


def _range_contract(path, qualname, tag, has_len, calls, extra_raises=None):
    def setup(eng, st):
        if not has_len:
            st.env['length'] = None

    c = Contract(
        path=path,
        qualname=qualname,
        label='%s[%s]' % (qualname, tag),
        types={'url': 'U', 'start': 'int', 'length': 'int', '._bucket': 'U', '._path': 'U'},
        strings=True,
        setup=setup,
        requires=['start >= 0'],
        calls=calls,
        ghost_init={'n_get': '0', 'last_ok': 'NOEXC', 'last_exc': 'NOEXC'},
        consts={'NOEXC': NOEXC},
        ensures=[('one-ranged-request-whose-stream-is-returned', 'n_get == 1 and result == last_ok')],
        raises=dict({'AssertionError': 'length < 1' if has_len else 'False'}, **(extra_raises or {})),
    )
    return c


def gcs_open_from(has_len):
    def parse(eng, st, args, kw, node):
        eng.oblige(st, 'url-parsed-is-the-argument', to_z3(args[0], 'U') == to_z3(st.env['url'], 'U'))
        return z3.Const('fsurl', pyvc.U)

    def get_object(eng, st, args, kw, node):
        hdr = kw.get('headers')
        ok = isinstance(hdr, SRecord) and set(hdr.fields) == {'Range'}
        eng.oblige(st, 'request-carries-exactly-a-Range-header', z3.BoolVal(ok))
        if ok:
            L = st.env['length']
            eng.oblige(st, 'Range-header-is-bytes=start-[start+length-1]', hdr.fields['Range'] == _spec_range(eng, st.env['start'], None if L is None else L))
        fsurl = z3.Const('fsurl', pyvc.U)
        eng.oblige(st, 'bucket-and-object-of-the-parsed-url', z3.And(to_z3(args[0], 'U') == eng.attr_of_U(fsurl, '_bucket'), to_z3(args[1], 'U') == eng.attr_of_U(fsurl, '_path')))
        st.env['n_get'] = st.env['n_get'] + 1
        v = z3.Const(pyvc.fresh_name('resp_stream'), pyvc.U)
        st.env['last_ok'] = v
        return v

    return _range_contract(GCS, 'GoogleStorageAsyncFS._open_from', 'length-given' if has_len else 'no-length', has_len, {'self.parse_url': parse, 'self._storage_client.get_object': get_object})


def s3_open_from(has_len):
    def parse(eng, st, args, kw, node):
        eng.oblige(st, 'url-parsed-is-the-argument', to_z3(args[0], 'U') == to_z3(st.env['url'], 'U'))
        return z3.Const('fsurl', pyvc.U)

    def b2a(eng, st, args, kw, node):
        fn = args[1]
        eng.oblige(st, 'the-blocking-call-is-s3.get_object', z3.BoolVal(isinstance(fn, pyvc.SDotted) and fn.name == 'self._s3.get_object' or (isinstance(fn, tuple) and fn[0] == 'boundmethod' and fn[2] == 'get_object')))
        ok = set(kw) == {'Bucket', 'Key', 'Range'}
        eng.oblige(st, 'request-carries-Bucket-Key-Range', z3.BoolVal(ok))
        if ok:
            L = st.env['length']
            eng.oblige(st, 'Range-is-bytes=start-[start+length-1]', kw['Range'] == _spec_range(eng, st.env['start'], None if L is None else L))
            fsurl = z3.Const('fsurl', pyvc.U)
            eng.oblige(st, 'bucket-and-key-of-the-parsed-url', z3.And(to_z3(kw['Bucket'], 'U') == eng.attr_of_U(fsurl, '_bucket'), to_z3(kw['Key'], 'U') == eng.attr_of_U(fsurl, '_path')))
        st.env['n_get'] = st.env['n_get'] + 1
        body = z3.Const(pyvc.fresh_name('resp_body'), pyvc.U)
        e = z3.Const(pyvc.fresh_name('s3_exc'), pyvc.U)
        resp = SRecord('dict', {'Body': body})
        raise Fork(node, [('response', None, 'value', resp, lambda s: s.env.__setitem__('last_body', body)), ('s3-error', None, 'raise', SExc(term=e), lambda s: s.env.__setitem__('last_exc', e))])

    def wrap(eng, st, args, kw, node):
        eng.oblige(st, 'stream-wraps-the-response-body', to_z3(args[1], 'U') == to_z3(st.env['last_body'], 'U'))
        v = z3.Const(pyvc.fresh_name('async_stream'), pyvc.U)
        st.env['last_ok'] = v
        return v

    c = _range_contract(
        S3, 'S3AsyncFS._open_from', 'length-given' if has_len else 'no-length', has_len,
        {'self.parse_url': parse, 'blocking_to_async': b2a, 'blocking_readable_stream_to_async': wrap, 'cast': lambda eng, st, args, kw, node: args[1]},
        extra_raises={'FileNotFoundError': "isinst(last_exc, 'NoSuchKey')", 'UnexpectedEOFError': "isinst(last_exc, 'ClientError') and last_exc.response['Error']['Code'] == 'InvalidRange'", '*': 'exc == last_exc'},
    )
    c.ghost_init['last_body'] = 'NOEXC'
    c.types.update({'.response': pyvc.rec_type(Error=pyvc.rec_type(Code='U'))})
    return c


# ---- (E) local files --------------------------------------------------------------------------------------------------------


def _block_read(check_arg=None):
    """the underlying blocking read: returns the next m bytes, m = min(k, REM) (k = -1 / absent: everything), as a list of
    length m; REM is the ghost number of bytes left in the file from its current position"""

    def model(eng, st, args, kw, node):
        rem = st.env['REM']
        if args:
            k = eng.num(args[0])
            eng.oblige(st, 'underlying-read-size-is-never-negative', k >= 0)
            m = z3.If(k < rem, k, rem)
        else:
            k = None
            m = rem
        if check_arg is not None:
            check_arg(eng, st, k)
        blk = pyvc.fresh_value(('list', 'int'), 'block')
        st.assume(blk.len == m)
        st.env['REM'] = rem - m
        if 'POS' in st.env and 'BASE' in st.env:
            st.env['POS'] = st.env['POS'] + m  # the file position moves over exactly the bytes returned
        st.env['n_under'] = st.env['n_under'] + 1
        st.env['last_block_len'] = m
        return blk

    return model


def truncated_read():
    return Contract(
        path=LOCAL,
        qualname='TruncatedReadableBinaryIO.read',
        types={'n': 'int', 'REM': 'int'},
        self_fields={'bio': 'U', 'offset': 'int', 'limit': 'int'},
        extra_inputs={'REM': 'int', 'POS': 'int', 'BASE': 'int'},
        requires=['0 <= self.offset and self.offset <= self.limit', 'n >= -1', 'REM >= 0', 'self.offset == POS - BASE'],
        calls={'self.bio.read': _block_read()},
        ghost_init={'n_under': '0', 'last_block_len': '0'},
        ensures=[
            ('never-reads-past-the-limit', 'self.offset <= self.limit and self.offset >= 0'),
            ('offset-advances-by-what-was-returned', 'self.offset == old(self.offset) + len(result)'),
            ('returns-min-of-request-window-and-file', 'len(result) == min(old(self.limit) - old(self.offset), old(REM)) if n == -1 else len(result) == min(n, old(self.limit) - old(self.offset), old(REM))'),
            ('one-underlying-read-returned-unchanged', 'n_under == 1 and len(result) == last_block_len'),
            ('limit-unchanged', 'self.limit == old(self.limit)'),
            ('window-position-stays-in-step-with-the-file-position', 'self.offset == POS - BASE'),
        ],
        raises={},
        canaries=[('always-empty', 'len(result) == 0')],
    )


SEEK_CONSTS = {'os.SEEK_SET': 0, 'os.SEEK_CUR': 1, 'os.SEEK_END': 2, 'io.SEEK_SET': 0, 'io.SEEK_CUR': 1, 'io.SEEK_END': 2}
SEEK_NAMES = {0: 'SEEK_SET', 1: 'SEEK_CUR', 2: 'SEEK_END'}
SEEK_CLAUSE = '%s-leaves-the-window-position-in-step-with-the-file-position'
SEEK_INSIDE = 'a-successful-seek-lands-inside-the-window'


def truncated_seek():
    """TruncatedReadableBinaryIO.seek.  Ghosts: BASE = file position at which the window starts (where the file stood when the
    window was created), POS = current position of the underlying file, SIZE = its size.  The window's bookkeeping is
    self.offset == POS - BASE (bytes of the window already passed); read() relies on it (limit - offset bytes are left).  The
    underlying seek is the io contract: SEEK_SET -> offset, SEEK_CUR -> POS + offset, SEEK_END -> SIZE + offset (ValueError
    for another whence, OSError for a negative target).  One clause per whence so that each is reported by name."""

    def under_seek(eng, st, args, kw, node):
        off = eng.num(args[0])
        wh = eng.num(args[1]) if len(args) > 1 else (eng.num(kw['whence']) if 'whence' in kw else z3.IntVal(0))
        pos, size = st.env['POS'], st.env['SIZE']
        new = z3.If(wh == 0, off, z3.If(wh == 1, pos + off, size + off))
        valid = z3.And(wh >= 0, wh <= 2)

        def moved(s):
            s.env['POS'] = new
            s.env['n_seek'] = s.env['n_seek'] + 1

        raise Fork(node, [
            ('file-moved', z3.And(valid, new >= 0), 'value', new, moved),
            ('negative-target', z3.And(valid, new < 0), 'raise', SExc('OSError'), None),
            ('unknown-whence', z3.Not(valid), 'raise', SExc('ValueError'), None),
        ])

    return Contract(
        path=LOCAL,
        qualname='TruncatedReadableBinaryIO.seek',
        types={'offset': 'int', 'whence': 'int'},
        self_fields={'bio': 'U', 'offset': 'int', 'limit': 'int'},
        extra_inputs={'POS': 'int', 'BASE': 'int', 'SIZE': 'int'},
        requires=['self.offset == POS - BASE', 'BASE >= 0', 'POS >= 0', 'SIZE >= 0', 'self.limit >= 0'],
        calls={'self.bio.seek': under_seek},
        consts=dict(SEEK_CONSTS),
        ghost_init={'n_seek': '0'},
        ensures=[(SEEK_CLAUSE % SEEK_NAMES[w], 'implies(whence == %d, self.offset == POS - BASE)' % w) for w in (1, 0, 2)] + [
            ('one-underlying-seek-whose-result-is-returned', 'n_seek == 1 and result == POS'),
            ('limit-unchanged', 'self.limit == old(self.limit)'),
            # the class invariant read() starts from (0 <= offset <= limit): a seek that succeeds lands inside the window
            (SEEK_INSIDE, '0 <= self.offset and self.offset <= self.limit'),
        ],
        raises={'ValueError': 'whence < 0 or whence > 2', 'OSError': True, 'AssertionError': 'whence == 2 and offset >= 0'},
        canaries=[('window-position-never-changes', 'self.offset == old(self.offset)')],
    )


def seek_replayer(model, obl):
    """replay of a failed seek clause on the real class: the whence is the one the clause is about"""
    whence = [w for w, n in SEEK_NAMES.items() if (SEEK_CLAUSE % n) in obl.name]
    if not whence and SEEK_INSIDE not in obl.name:
        return None
    r = core.run_native(open(os.path.join(os.path.dirname(__file__), 'native', 'c23_replay.py')).read(), {'mode': 'seek', 'whence': whence[0] if whence else None, 'where': 'inside' if whence else 'outside'})
    if isinstance(r, dict) and r.get('confirmed'):
        r.setdefault('input', {k: r[k] for k in ('start', 'length', 'plan') if k in r})
    return r


def truncated_init():
    return Contract(
        path=LOCAL,
        qualname='TruncatedReadableBinaryIO.__init__',
        types={'bio': 'U', 'limit': 'int'},
        self_fields={},
        requires=['limit >= 0'],
        ensures=[('window-starts-empty-with-the-given-limit', 'self.offset == 0 and self.limit == limit and self.bio == bio and 0 <= self.offset and self.offset <= self.limit')],
        raises={},
    )


def readexactly_blocking():
    def check(eng, st, k):
        eng.oblige(st, 'asks-for-exactly-what-is-still-missing', k == eng.num(st.env['n']) if k is not None else z3.BoolVal(False))

    def read(eng, st, args, kw, node):
        pos = st.env['POS']
        blk = _block_read(check)(eng, st, args, kw, node)
        st.env['POS'] = pos + blk.len
        st.env['T'] = st.env['T'] + blk.len
        # a block is represented by (position of its first byte, its length)
        return (pos, blk.len)

    def join(eng, st, args, kw, node):
        data = args[1]  # args[0] is the receiver b''
        if not isinstance(data, pyvc.SList):
            raise pyvc.Undecided('join of a non-list')
        if data.et is None:
            return (st.env['POS0'], z3.IntVal(0))
        ts = pyvc.sort_of(data.et)
        a = lambda i: ts.accessor(0, 0)(z3.Select(data.arr, i))
        ln = lambda i: ts.accessor(0, 1)(z3.Select(data.arr, i))
        i = z3.Int(pyvc.fresh_name('jn_i'))
        eng.oblige(st, 'joined-blocks-are-contiguous-in-read-order', z3.ForAll([i], z3.Implies(z3.And(0 <= i, i + 1 < data.len), a(i) + ln(i) == a(i + 1))))
        eng.oblige(st, 'joined-blocks-start-at-the-stream-position-and-end-at-the-current-one', z3.Implies(data.len > 0, z3.And(a(0) == st.env['POS0'], a(data.len - 1) + ln(data.len - 1) == st.env['POS'])))
        eng.oblige(st, 'nothing-read-if-no-block', z3.Implies(data.len == 0, st.env['T'] == 0))
        return (st.env['POS0'], st.env['T'])

    def ln(eng, st, args, kw, node):
        v = args[0]
        if isinstance(v, tuple) and len(v) == 2:
            return v[1]
        if isinstance(v, pyvc.SList):
            return v.len
        raise pyvc.Undecided('len of %r' % (v,))

    return Contract(
        path=STREAM,
        qualname='_ReadableStreamFromBlocking._readexactly',
        types={'n': 'int', 'data': 'List[Tuple[int, int]]'},
        self_fields={'_f': 'U'},
        extra_inputs={'REM': 'int', 'POS0': 'int'},
        requires=['REM >= 0', 'n >= 0'],
        calls={'self._f.read': read, '.join': join, 'len': ln},
        ghost_init={'POS': 'POS0', 'T': '0', 'n_under': '0', 'last_block_len': '0', 'N0': 'n'},
        loops={0: LoopSpec(invariants=[
            ('progress', 'n >= 0 and T == N0 - n and POS == POS0 + T and REM >= 0 and REM == old(REM) - T'),
            ('blocks-non-empty-and-contiguous', 'forall(lambda i: implies(0 <= i and i + 1 < len(data), data[i][0] + data[i][1] == data[i + 1][0]))'),
            ('blocks-cover-the-bytes-read', 'implies(len(data) > 0, data[0][0] == POS0 and data[len(data) - 1][0] + data[len(data) - 1][1] == POS)'),
            ('no-block-no-bytes', 'implies(len(data) == 0, T == 0)'),
        ], modifies=['POS', 'T', 'REM', 'n_under', 'last_block_len'])},
        ensures=[('returns-exactly-n-contiguous-bytes-from-the-stream-position', 'result[0] == POS0 and result[1] == N0 and REM == old(REM) - N0')],
        raises={'UnexpectedEOFError': 'REM == 0 and T < N0', 'AssertionError': 'False'},
        canaries=[('never-succeeds-for-positive-n', 'N0 == 0')],
    )


def read_blocking():
    def read(eng, st, args, kw, node):
        st.env['n_under'] = st.env['n_under'] + 1
        st.env['under_arg'] = args[2] if len(args) > 2 else None
        st.env['under_fn_ok'] = (isinstance(args[1], tuple) and args[1][0] == 'boundmethod' and args[1][2] == 'read') or (isinstance(args[1], pyvc.SDotted) and args[1].name == 'self._f.read')
        return z3.Const(pyvc.fresh_name('blk'), pyvc.U)

    return Contract(
        path=STREAM,
        qualname='_ReadableStreamFromBlocking.read',
        types={'n': 'int'},
        self_fields={'_f': 'U', '_thread_pool': 'U'},
        calls={'blocking_to_async': read},
        ghost_init={'n_under': '0', 'under_arg': '0 - 7', 'under_fn_ok': 'False'},
        ensures=[('one-underlying-read-of-the-same-size', 'n_under == 1 and under_fn_ok and ((n == -1 and under_arg is None) or (n != -1 and under_arg == n))')],
        raises={},
    )


def local_open_from(has_len):
    FH = z3.Const('file_handle', pyvc.U)
    TR = z3.Const('truncated', pyvc.U)

    def setup(eng, st):
        if not has_len:
            st.env['length'] = None

    def b2a(eng, st, args, kw, node):
        eng.oblige(st, 'file-opened-for-binary-reading', z3.BoolVal(isinstance(args[1], pyvc.SDotted) and args[1].name == 'open' and args[3] == 'rb'))
        return SRecord('file', {'h': FH})

    def seek(eng, st, args, kw, node):
        eng.oblige(st, 'seeks-to-start-from-the-beginning', z3.And(eng.num(args[0]) == st.env['start'], z3.BoolVal(len(args) == 1 or (isinstance(args[1], pyvc.SDotted) and args[1].name in ('io.SEEK_SET', 'os.SEEK_SET')) or args[1] == 0)))
        st.env['n_seek'] = st.env['n_seek'] + 1
        return args[0]

    def trunc(eng, st, args, kw, node):
        eng.oblige(st, 'window-over-the-opened-file-with-the-requested-length', z3.And(z3.BoolVal(isinstance(args[0], SRecord) and args[0].cls == 'file'), eng.num(args[1]) == eng.num(st.env['length'])) if has_len else z3.BoolVal(False))
        eng.oblige(st, 'window-created-after-the-seek', st.env['n_seek'] == 1)
        st.env['n_trunc'] = st.env['n_trunc'] + 1
        return SRecord('trunc', {'h': TR})

    def wrap(eng, st, args, kw, node):
        want = 'trunc' if has_len else 'file'
        eng.oblige(st, 'stream-over-the-%s' % ('length-limited window' if has_len else 'file itself'), z3.BoolVal(isinstance(args[1], SRecord) and args[1].cls == want))
        v = z3.Const(pyvc.fresh_name('stream'), pyvc.U)
        st.env['last_ok'] = v
        return v

    return Contract(
        path=LOCAL,
        qualname='LocalAsyncFS._open_from',
        label='LocalAsyncFS._open_from[%s]' % ('length-given' if has_len else 'no-length'),
        types={'url': 'U', 'start': 'int', 'length': 'int'},
        setup=setup,
        calls={'blocking_to_async': b2a, 'self._get_path': lambda eng, st, args, kw, node: z3.Const('path', pyvc.U), 'f.seek': seek, 'cast': lambda eng, st, args, kw, node: args[1], 'TruncatedReadableBinaryIO': trunc, 'blocking_readable_stream_to_async': wrap},
        ghost_init={'n_seek': '0', 'n_trunc': '0', 'last_ok': 'NOEXC'},
        consts={'NOEXC': NOEXC},
        ensures=[('seeked-once-and-limited-iff-a-length-was-given', 'n_seek == 1 and n_trunc == %d and result == last_ok' % (1 if has_len else 0))],
        raises={'AssertionError': 'length < 1' if has_len else 'False'},
    )


# ---- (F) Azure stream -------------------------------------------------------------------------------------------------------


def azure_read(variant, mode):
    """AzureReadableStream.read: variant = which of offset/length are given, mode = 'all' (n == -1) or 'some' (n >= 0).
    Ghost R = bytes handed out so far.  Every download request must be for the part of the window not handed out yet:
    offset = O0 + R and, for a bounded window, offset + length = O0 + L0."""
    has_off, has_len = variant

    def setup(eng, st):
        rec = st.env['self']
        if not has_off:
            rec.fields['_offset'] = None
        if not has_len:
            rec.fields['_length'] = None
        if mode == 'all':
            st.env['n'] = -1

    def download(eng, st, args, kw, node):
        rec = st.env['self']
        off, ln = kw.get('offset'), kw.get('length')
        if has_off:
            eng.oblige(st, 'request-starts-at-the-first-byte-not-handed-out-yet', eng.equal(off, rec.fields['_offset']) if off is not None else z3.BoolVal(False))
        else:
            eng.oblige(st, 'request-starts-at-the-first-byte-not-handed-out-yet', z3.BoolVal(True) if off is None else (eng.num(off) == st.env['R'] if not isinstance(off, SRecord) else z3.BoolVal(False)))
        if has_len:
            eng.oblige(st, 'request-ends-at-the-end-of-the-window', eng.num(ln) == st.env['WINDOW_LEFT'] if ln is not None else z3.BoolVal(False))
        else:
            eng.oblige(st, 'unbounded-window-requests-no-length', z3.BoolVal(ln is None))
        st.env['n_req'] = st.env['n_req'] + 1
        e = z3.Const(pyvc.fresh_name('dl_exc'), pyvc.U)
        raise Fork(node, [('download-started', None, 'value', SRecord('downloader', {'tag': z3.Const(pyvc.fresh_name('dl'), pyvc.U)}), None), ('download-fails', None, 'raise', SExc(term=e), lambda s: s.env.__setitem__('last_exc', e))])

    def readall(eng, st, args, kw, node):
        b = pyvc.fresh_value(('list', 'int'), 'all_bytes')
        st.assume(b.len >= 0)
        if has_len:
            st.assume(b.len <= st.env['WINDOW_LEFT'])
        return b

    def anext_(eng, st, args, kw, node):
        ch = pyvc.fresh_value(('list', 'int'), 'chunk')
        raise Fork(node, [('chunk', None, 'value', ch, lambda s: s.assume(ch.len >= 1)), ('exhausted', None, 'raise', SExc('StopAsyncIteration'), None)])

    models = {
        'self._get_client': lambda eng, st, args, kw, node: z3.Const('blob_client', pyvc.U),
        'client.download_blob': download,
        '.download_blob': lambda eng, st, args, kw, node: download(eng, st, args[1:], kw, node),  # whatever the client is called
        'FileNotFoundError': lambda eng, st, args, kw, node: SExc('FileNotFoundError'),
    }
    consts = {'NOEXC': NOEXC, '__exc_hierarchy__': {'StopAsyncIteration': ['Exception']}}
    types = {'n': 'int', '.status_code': 'int', 'data': 'List[int]'}
    # private helpers of the stream (none today): a `self.<helper>(...)` call executes the helper's REAL body under the same
    # models of the SDK calls, so that a request moved into a helper is still held to the clauses below
    cx = pyclass.ClassIndex([AZ])
    inl = pyclass.Inliner(None, cx, calls=models, consts=consts, types={k: v for k, v in types.items() if k.startswith('.')}, shared=['R', 'WINDOW_LEFT', 'n_req', 'last_exc'])
    own = [m.name for m in cx.classes['AzureReadableStream'].body if isinstance(m, (pyast.FunctionDef, pyast.AsyncFunctionDef))] if 'AzureReadableStream' in cx.classes else []

    def helper(m):
        def model(eng, st, args, kw, node):
            inl.ctx = eng.ctx
            eng.ctx.under_contract(AZ, 'AzureReadableStream.%s' % m)
            return inl.call('AzureReadableStream', m, st.env['self'], args, kw, st, node)

        return model

    helpers = {'self.%s' % m: helper(m) for m in own if m not in ('read', 'readexactly', '__init__', '_get_client')}
    if mode == 'some':
        # the clause "or signal an unexpected end of file": a range that starts at or after the end of the blob is answered 416
        # by the service; read(n) - the path of readexactly / read_range - must turn exactly that into UnexpectedEOFError, a
        # missing blob into FileNotFoundError, and let every other failure of the request through unchanged
        is416 = "(isinst(last_exc, 'HttpResponseError') and last_exc.status_code == 416)"
        raises = {
            'FileNotFoundError': "isinst(last_exc, 'ResourceNotFoundError')",
            'UnexpectedEOFError': is416,
            '*': "exc == last_exc and not isinst(last_exc, 'ResourceNotFoundError') and not " + is416,
        }
        on_raise = [('a-range-starting-at-or-after-the-end-of-the-blob-416-is-signalled-as-UnexpectedEOFError', "implies(%s and not isinst(last_exc, 'ResourceNotFoundError'), isinst(exc, 'UnexpectedEOFError'))" % is416)]
    else:
        raises = {'*': True}
        on_raise = []
    req = ['n >= 0' if mode == 'some' else 'n == -1', 'R >= 0', 'len(self._buffer) >= 0']
    if has_len:
        req += ['WINDOW_LEFT >= 0', 'self._length == WINDOW_LEFT']
    if has_off:
        req += ['self._offset >= 0']
    ens = [('returns-at-most-what-was-asked', 'n == -1 or len(result) <= n')]
    if mode == 'some':
        ens.append(('position-advances-by-what-was-handed-out', 'self._eof or self._offset == (old(self._offset) if old(self._offset) is not None else 0) + len(result)'))
        if has_len:
            ens.append(('window-shrinks-by-what-was-handed-out', 'self._length == old(self._length) - len(result)'))
    return Contract(
        path=AZ,
        qualname='AzureReadableStream.read',
        label='AzureReadableStream.read[%s%s,%s]' % ('offset' if has_off else 'no-offset', '+length' if has_len else '', 'read-all' if mode == 'all' else 'read-n'),
        types=types,
        self_fields={'_eof': 'bool', '_buffer': 'List[int]', '_offset': 'int', '_length': 'int', '_downloader': 'U', '_chunk_it': 'U', '_fs': 'U', '_url': 'U'},
        extra_inputs={'R': 'int', 'WINDOW_LEFT': 'int'},
        setup=setup,
        requires=req,
        calls=dict(helpers, **{
            'self._get_client': lambda eng, st, args, kw, node: z3.Const('blob_client', pyvc.U),
            'client.download_blob': download,
            '.download_blob': lambda eng, st, args, kw, node: download(eng, st, args[1:], kw, node),
            'downloader.readall': readall,
            'self._downloader.chunks': lambda eng, st, args, kw, node: z3.Const(pyvc.fresh_name('chunk_it'), pyvc.U),
            'anext': anext_,
            'bytearray': lambda eng, st, args, kw, node: pyvc.SList(z3.IntVal(0), z3.K(z3.IntSort(), z3.IntVal(0)), 'int'),
            'bytes': lambda eng, st, args, kw, node: args[0],
            'FileNotFoundError': lambda eng, st, args, kw, node: SExc('FileNotFoundError'),
        }),
        ghost_init={'n_req': '0', 'last_exc': 'NOEXC'},
        consts=consts,
        loops={0: LoopSpec(invariants=[('buffer-well-formed', 'len(self._buffer) >= 0')], modifies=['self._buffer'])},
        ensures=ens,
        raises=raises,
        on_raise=on_raise,
    )


def azure_readexactly():
    def read(eng, st, args, kw, node):
        st.env['n_read'] = st.env['n_read'] + 1
        st.env['read_arg'] = args[0]
        b = pyvc.fresh_value(('list', 'int'), 'data')
        st.assume(b.len >= 0)
        return b

    return Contract(
        path=AZ,
        qualname='AzureReadableStream.readexactly',
        types={'n': 'int'},
        self_fields={'_closed': 'bool'},
        calls={'self.read': read},
        ghost_init={'n_read': '0', 'read_arg': '0 - 7'},
        ensures=[('exactly-n-bytes-from-one-read-of-n', 'n_read == 1 and read_arg == n and len(result) == n')],
        raises={'UnexpectedEOFError': True, 'AssertionError': 'self._closed or n < 0'},
    )


def gcs_readexactly():
    """GetObjectStream.readexactly (the GCS stream behind read_range): with REM bytes of the response body still to come, it returns
    exactly n bytes when REM >= n and signals UnexpectedEOFError only when the body ends first.  The aiohttp StreamReader is an
    oracle with its documented contract: readexactly(n) gives n bytes or raises IncompleteReadError when the body is shorter;
    read(n) gives SOME bytes, between 1 and min(n, REM) - whatever has arrived - and none only at the end of the body."""
    REM = z3.Int('gcs_body_remaining')

    def readexactly(eng, st, args, kw, node):
        n = eng.num(args[0])
        b = pyvc.fresh_value(('list', 'int'), 'exact')
        st.env['n_reads'] = st.env['n_reads'] + 1
        raise Fork(node, [('body-has-n-more-bytes', z3.And(REM >= n, b.len == n), 'value', b, None), ('body-ends-first', REM < n, 'raise', SExc('IncompleteReadError'), None)])

    def read(eng, st, args, kw, node):
        n = eng.num(args[0])
        b = pyvc.fresh_value(('list', 'int'), 'some')
        st.env['n_reads'] = st.env['n_reads'] + 1
        st.assume(z3.And(b.len >= 0, b.len <= n, b.len <= REM, z3.Implies(z3.And(REM > 0, n > 0), b.len >= 1)))
        return b

    return Contract(
        path=GCS, qualname='GetObjectStream.readexactly', types={'n': 'int'}, self_fields={'_closed': 'bool', '_content': 'U'},
        requires=['gcs_body_remaining >= 0'], consts={'gcs_body_remaining': REM},
        calls={'self._content.readexactly': readexactly, 'self._content.read': read}, ghost_init={'n_reads': '0'},
        ensures=[('exactly-n-bytes', 'len(result) == n')],
        raises={'UnexpectedEOFError': 'gcs_body_remaining < n', 'AssertionError': 'self._closed or n < 0 or self._content is None'},
        canaries=[('never-returns', 'False')],
    )


def azure_open_from(has_len):
    def setup(eng, st):
        if not has_len:
            st.env['length'] = None

    def ctor(eng, st, args, kw, node):
        eng.oblige(st, 'stream-window-is-start-and-length', z3.And(eng.num(kw.get('offset', args[2] if len(args) > 2 else -7)) == st.env['start'], eng.equal(kw.get('length', args[3] if len(args) > 3 else None), st.env['length']) if has_len else z3.BoolVal(kw.get('length', args[3] if len(args) > 3 else None) is None)))
        st.env['n_stream'] = st.env['n_stream'] + 1
        v = z3.Const(pyvc.fresh_name('az_stream'), pyvc.U)
        st.env['last_ok'] = v
        return v

    return Contract(
        path=AZ,
        qualname='AzureAsyncFS._open_from',
        label='AzureAsyncFS._open_from[%s]' % ('length-given' if has_len else 'no-length'),
        types={'url': 'U', 'start': 'int', 'length': 'int'},
        setup=setup,
        calls={'self.exists': lambda eng, st, args, kw, node: z3.Bool(pyvc.fresh_name('exists')), 'self.parse_url': lambda eng, st, args, kw, node: z3.Const('parsed', pyvc.U), 'AzureReadableStream': ctor},
        ghost_init={'n_stream': '0', 'last_ok': 'NOEXC'},
        consts={'NOEXC': NOEXC},
        ensures=[('one-stream-returned', 'n_stream == 1 and result == last_ok')],
        raises={'FileNotFoundError': True, 'AssertionError': 'length < 1' if has_len else 'False'},
    )


# ---- (G) the request path of the GCS ranged read: the Range header must reach the wire -------------------------------------
SESSION = 'hail/python/hailtop/aiocloud/common/session.py'
HDR_T = ('map', 'U', 'U')
KWARGS_T = ('rec', (('headers', HDR_T), ('params', 'U')))


def _spread(eng, st, node):
    """the mapping passed as `**mapping` at a call (None when the call has none / several)"""
    sp = [eng.ev(k.value, st) for k in node.keywords if k.arg is None]
    return sp[0] if len(sp) == 1 else None


def _carries(eng, sent, H0):
    """every header of H0 is in `sent` with the same value"""
    if not isinstance(sent, pyvc.SMap):
        return z3.BoolVal(False)
    k = z3.Const(pyvc.fresh_name('hdr'), pyvc.U)
    return z3.ForAll([k], z3.Implies(z3.Select(H0.has, k), z3.And(z3.Select(sent.has, k), z3.Select(sent.val, k) == z3.Select(H0.val, k))))


def _kwargs_setup(extra=None):
    """the caller's keyword arguments: a `headers` mapping H0 (any keys, any values: the Range header is one of them), an
    opaque `params`, plus `extra` literal entries"""

    def setup(eng, st):
        H0 = pyvc.fresh_value(HDR_T, 'caller_headers')
        for w in pyvc.wf_constraints(H0):
            st.assume(w)
        P0 = z3.Const('caller_params', pyvc.U)
        rec = SRecord('dict', dict({'headers': H0, 'params': P0}, **(extra or {})))
        st.env['kwargs'], st.env['H0'], st.env['P0'] = rec, H0, P0

    return setup


def _pop(eng, st, args, kw, node):
    """dict.pop(key[, default]) on a keyword-argument record with a literal key"""
    rec, key = args[0], args[1]
    if not (isinstance(rec, SRecord) and isinstance(key, str)):
        raise pyvc.Undecided('pop on %r' % (rec,))
    if key in rec.fields:
        return rec.fields.pop(key)
    if len(args) > 2:
        return args[2]
    raise pyvc.PyRaise(SExc('KeyError'))


def _update(eng, st, args, kw, node):
    """headers.update(other) on finite maps: other's entries win"""
    recv, other = args[0], args[1]
    if not (isinstance(recv, pyvc.SMap) and isinstance(other, pyvc.SMap)):
        raise pyvc.Undecided('update of %r with %r' % (recv, other))
    eng.assign(node.func.value, pyvc.merge_maps(recv, other, st), st)
    return None


def authn_request():
    """Session._request_with_valid_authn(method, url, **kwargs) with caller headers H0.  Credentials (assumed) produce
    authentication headers only - never a key the caller set - possibly none at all (anonymous credentials).  EVERY request
    handed to the HTTP session carries method, url and params unchanged, every caller header unchanged and the authentication
    headers of that round."""

    def auth(eng, st, args, kw, node):
        AH = pyvc.fresh_value(HDR_T, 'auth_headers')
        k = z3.Const(pyvc.fresh_name('ak'), pyvc.U)
        facts = pyvc.wf_constraints(AH) + [z3.ForAll([k], z3.Implies(z3.Select(AH.has, k), z3.Not(z3.Select(st.env['H0'].has, k))))]
        exp = z3.Int(pyvc.fresh_name('expiration'))

        def eff(s):
            for f in facts:
                s.assume(f)
            s.env['AH'] = AH
            s.env['n_auth'] = s.env['n_auth'] + 1

        raise Fork(node, [('credentials-without-expiry', None, 'value', (AH, None), eff), ('credentials-with-expiry', None, 'value', (AH, exp), eff)])

    def request(eng, st, args, kw, node):
        sp = _spread(eng, st, node)
        ok = isinstance(sp, SRecord) and len(args) == 2 and not kw
        eng.oblige(st, 'request-made-with-method-url-and-the-keyword-arguments', z3.BoolVal(ok))
        if ok:
            eng.oblige(st, 'method-url-and-params-reach-the-wire-unchanged', z3.And(eng.equal(args[0], st.env['method']), eng.equal(args[1], st.env['url']), z3.BoolVal(set(sp.fields) <= {'headers', 'params'} and 'params' in sp.fields), eng.equal(sp.fields.get('params'), st.env['P0'])))
            sent = sp.fields.get('headers')
            eng.oblige(st, 'every-caller-header-reaches-the-wire-unchanged', _carries(eng, sent, st.env['H0']))
            eng.oblige(st, 'the-authentication-headers-of-this-round-are-sent', _carries(eng, sent, st.env['AH']) if isinstance(st.env.get('AH'), pyvc.SMap) else z3.BoolVal(False))
        resp = z3.Const(pyvc.fresh_name('response'), pyvc.U)
        e = z3.Const(pyvc.fresh_name('http_exc'), pyvc.U)

        def good(s):
            s.env['n_req'] = s.env['n_req'] + 1
            s.env['last_ok'] = resp

        def bad(s):
            s.env['n_req'] = s.env['n_req'] + 1
            s.env['last_exc'] = e

        raise Fork(node, [('response', None, 'value', resp, good), ('request-fails', None, 'raise', SExc(term=e), bad)])

    inv_headers = "'headers' in kwargs and forall('U', lambda k: implies(k in H0, k in kwargs['headers'] and kwargs['headers'][k] == H0[k]))"
    return Contract(
        path=SESSION,
        qualname='Session._request_with_valid_authn',
        types={'method': 'U', 'url': 'U', 'kwargs': KWARGS_T, '.status': 'int', 'expiration': 'int'},
        self_fields={'_credentials': 'U', '_http_session': 'U'},
        setup=_kwargs_setup(),
        calls={
            'self._credentials.auth_headers_with_expiration': auth, 'self._http_session.request': request, '.pop': _pop, '.update': _update,
            'time.time': lambda eng, st, args, kw, node: z3.Int(pyvc.fresh_name('now')), 'log.info': lambda eng, st, args, kw, node: None,
        },
        ghost_init={'n_auth': '0', 'n_req': '0', 'AH': 'NOEXC', 'last_ok': 'NOEXC', 'last_exc': 'NOEXC'},
        consts={'NOEXC': NOEXC},
        loops={0: LoopSpec(invariants=[('caller-headers-still-in-the-keyword-arguments', inv_headers), ('params-untouched', "kwargs['params'] == P0"), ('counters', 'n_req >= 0 and n_auth >= 0')], modifies=['n_auth', 'n_req', 'AH', 'last_ok', 'last_exc'])},
        ensures=[('returns-the-response-of-a-request-that-was-made', 'n_req >= 1 and result == last_ok')],
        raises={'*': 'exc == last_exc'},
        canaries=[('never-returns', 'n_req == 0')],
    )


def _forwarded(eng, st, node, args, kw, what, method=None, n_pos=2, allowed=('headers', 'params')):
    """obligations at a call that must pass the request on: method and url in place, the caller's keyword arguments spread
    into it with `headers` still the caller's mapping and `params` still the caller's"""
    sp = _spread(eng, st, node)
    ok = isinstance(sp, SRecord) and len(args) == n_pos and not kw
    eng.oblige(st, '%s-with-method-url-and-the-keyword-arguments' % what, z3.BoolVal(ok))
    if ok:
        m, u = args[n_pos - 2], args[n_pos - 1]
        eng.oblige(st, '%s-method-and-url-unchanged' % what, z3.And(eng.equal(m, method if method is not None else st.env['method']), eng.equal(u, st.env['url'])))
        sent = sp.fields.get('headers')
        eng.oblige(st, '%s-every-caller-header-unchanged' % what, _carries(eng, sent, st.env['H0']))
        eng.oblige(st, '%s-nothing-added-to-the-keyword-arguments' % what, z3.BoolVal(set(sp.fields) <= set(allowed)))
    st.env['n_fwd'] = st.env['n_fwd'] + 1
    v = z3.Const(pyvc.fresh_name('response'), pyvc.U)
    st.env['last_ok'] = v
    return v


def session_request(retry):
    """Session.request without session-wide default params (self._params is None): the authenticated request - directly or
    through retry_transient_errors - gets method, url and the caller's keyword arguments (minus `retry`) unchanged"""

    def setup(eng, st):
        _kwargs_setup({} if retry is None else {'retry': retry})(eng, st)
        st.env['self'].fields['_params'] = None

    def retried(eng, st, args, kw, node):
        fn = args[0]
        eng.oblige(st, 'the-retried-function-is-the-authenticated-request', z3.BoolVal((isinstance(fn, tuple) and fn[0] == 'boundmethod' and fn[2] == '_request_with_valid_authn') or (isinstance(fn, pyvc.SDotted) and fn.name == 'self._request_with_valid_authn')))
        return _forwarded(eng, st, node, args, kw, 'retried-request', n_pos=3)

    return Contract(
        path=SESSION,
        qualname='Session.request',
        label='Session.request[%s]' % ('retry-by-default' if retry is None else 'retry=%s' % retry),
        types={'method': 'U', 'url': 'U'},
        self_fields={'_params': 'U'},
        setup=setup,
        calls={'retry_transient_errors': retried, 'self._request_with_valid_authn': lambda eng, st, args, kw, node: _forwarded(eng, st, node, args, kw, 'direct-request'), '.pop': _pop},
        ghost_init={'n_fwd': '0', 'last_ok': 'NOEXC'},
        consts={'NOEXC': NOEXC},
        ensures=[('one-authenticated-request-whose-response-is-returned', 'n_fwd == 1 and result == last_ok')],
        raises={},
    )


def base_session_get():
    return Contract(
        path=SESSION,
        qualname='BaseSession.get',
        types={'url': 'U'},
        setup=_kwargs_setup(),
        calls={'self.request': lambda eng, st, args, kw, node: _forwarded(eng, st, node, args, kw, 'request', method='GET')},
        ghost_init={'n_fwd': '0', 'last_ok': 'NOEXC'},
        consts={'NOEXC': NOEXC},
        ensures=[('one-GET-request-whose-response-is-returned', 'n_fwd == 1 and result == last_ok')],
        raises={},
    )


def rate_limited_request():
    return Contract(
        path=SESSION,
        qualname='RateLimitedSession.request',
        types={'method': 'U', 'url': 'U'},
        self_fields={'_session': 'U', '_rate_limiter': 'U'},
        setup=_kwargs_setup(),
        calls={'with:self._rate_limiter': with_model(lambda eng, st, node: [(st, ('value', z3.Const('limiter', pyvc.U)))], lambda eng, st, exc: [(st, None)]), 'self._session.request': lambda eng, st, args, kw, node: _forwarded(eng, st, node, args, kw, 'inner-request')},
        ghost_init={'n_fwd': '0', 'last_ok': 'NOEXC'},
        consts={'NOEXC': NOEXC},
        ensures=[('one-inner-request-whose-response-is-returned', 'n_fwd == 1 and result == last_ok')],
        raises={},
    )


def gcs_get_object():
    """GoogleStorageClient.get_object(bucket, name, headers=H0): one GET of the object's media whose keyword arguments still
    carry the caller's headers (the Range header built by _open_from); 404 -> FileNotFoundError, 416 (range starts at or after
    the end of the object) -> UnexpectedEOFError, anything else unchanged"""

    def setup(eng, st):
        H0 = pyvc.fresh_value(HDR_T, 'caller_headers')
        for w in pyvc.wf_constraints(H0):
            st.assume(w)
        st.env['kwargs'], st.env['H0'] = SRecord('dict', {'headers': H0}), H0

    def get(eng, st, args, kw, node):
        sp = _spread(eng, st, node)
        ok = isinstance(sp, SRecord) and len(args) == 1 and not kw
        eng.oblige(st, 'GET-with-the-url-and-the-keyword-arguments', z3.BoolVal(ok))
        if ok:
            eng.oblige(st, 'GET-every-caller-header-unchanged', _carries(eng, sp.fields.get('headers'), st.env['H0']))
            eng.oblige(st, 'GET-nothing-else-added-to-the-keyword-arguments', z3.BoolVal(set(sp.fields) <= {'headers', 'params'}))
        resp = z3.Const(pyvc.fresh_name('response'), pyvc.U)
        e = z3.Const(pyvc.fresh_name('http_exc'), pyvc.U)

        def good(s):
            s.env['n_get'] = s.env['n_get'] + 1
            s.env['last_resp'] = resp

        def bad(s):
            s.env['n_get'] = s.env['n_get'] + 1
            s.env['last_exc'] = e

        raise Fork(node, [('response', None, 'value', resp, good), ('request-fails', None, 'raise', SExc(term=e), bad)])

    def stream(eng, st, args, kw, node):
        eng.oblige(st, 'stream-wraps-the-response', to_z3(args[0], 'U') == to_z3(st.env['last_resp'], 'U'))
        v = z3.Const(pyvc.fresh_name('get_object_stream'), pyvc.U)
        st.env['last_ok'] = v
        return v

    is_http = "isinst(last_exc, 'ClientResponseError')"
    return Contract(
        path=GCS,
        qualname='GoogleStorageClient.get_object',
        types={'bucket': 'U', 'name': 'U', '.status': 'int'},
        self_fields={'_session': 'U'},
        setup=setup,
        calls={'self._update_params_with_user_project': lambda eng, st, args, kw, node: None, 'self._session.get': get, 'GetObjectStream': stream, 'urllib.parse.quote': lambda eng, st, args, kw, node: z3.Const(pyvc.fresh_name('quoted'), pyvc.U)},
        ghost_init={'n_get': '0', 'last_ok': 'NOEXC', 'last_resp': 'NOEXC', 'last_exc': 'NOEXC'},
        consts={'NOEXC': NOEXC},
        ensures=[('one-GET-whose-stream-is-returned', 'n_get == 1 and result == last_ok')],
        raises={
            'AssertionError': True,
            'FileNotFoundError': is_http + ' and last_exc.status == 404',
            'UnexpectedEOFError': is_http + ' and last_exc.status == 416',
            '*': 'exc == last_exc and not (%s and (last_exc.status == 404 or last_exc.status == 416))' % is_http,
        },
        on_raise=[('a-range-starting-at-or-after-the-end-of-the-object-416-is-signalled-as-UnexpectedEOFError', "implies(n_get == 1 and %s and last_exc.status == 416, isinst(exc, 'UnexpectedEOFError'))" % is_http)],
    )


def scans(ctx):
    """syntactic facts of the GCS request path"""
    tree = pyast.parse(core.read_repo(GCS))
    fn = pyvc.find_function(tree, 'GoogleStorageClient._update_params_with_user_project')
    ok = isinstance(fn, (pyast.FunctionDef, pyast.AsyncFunctionDef))
    touched = sorted({n.value for n in pyast.walk(fn) if isinstance(n, pyast.Constant) and isinstance(n.value, str) and n.value != 'params' and any(isinstance(p, pyast.Subscript) and p.slice is n for p in pyast.walk(fn))} | {n.func.attr for n in pyast.walk(fn) if isinstance(n, pyast.Call) and isinstance(n.func, pyast.Attribute) and isinstance(n.func.value, pyast.Name) and n.func.value.id == fn.args.args[1].arg and n.func.attr in pyvc.MUTATORS | {'popitem', '__delitem__'}} | {'del' for n in pyast.walk(fn) if isinstance(n, pyast.Delete)}) if ok else ['anchor moved']
    ctx.add(core.decided('C23/GoogleStorageClient._update_params_with_user_project/touches-only-the-params-entry-of-the-request-arguments', ok and not touched, 'other entries written / removed: %r' % (touched,), kind='frame'))
    # get_object is reached from _open_from through the storage client only (the contract of _open_from models that call)
    src = core.read_repo(SESSION)
    cls = [n for n in pyast.parse(src).body if isinstance(n, pyast.ClassDef) and n.name == 'Session']
    overrides = [m.name for c in cls for m in c.body if isinstance(m, (pyast.FunctionDef, pyast.AsyncFunctionDef)) and m.name in ('get', 'post', 'put', 'patch', 'delete', 'head')]
    ctx.add(core.decided('C23/Session/uses-the-verified-BaseSession.get', bool(cls) and 'get' not in overrides, 'Session overrides %r' % (overrides,), kind='frame'))


def native_witness(ctx):
    """concrete search on the real code, usable when the contracts no longer apply to a changed source (vc/check.py)"""
    return core.run_native(open(os.path.join(os.path.dirname(__file__), 'native', 'c23_replay.py')).read(), {})


def build(ctx):
    for c in [read_range(), read_from()] + open_from() + [router_open_from()] + empty_stream() + [gcs_open_from(True), gcs_open_from(False), s3_open_from(True), s3_open_from(False), truncated_init(), truncated_read(), truncated_seek(), readexactly_blocking(), read_blocking(), local_open_from(True), local_open_from(False), azure_open_from(True), azure_open_from(False), azure_readexactly(), gcs_readexactly(), authn_request(), session_request(None), session_request(False), base_session_get(), rate_limited_request(), gcs_get_object()] + [azure_read(v, m) for v in ((True, True), (True, False), (False, False)) for m in ('all', 'some')]:
        e = pyvc.Engine(ctx, c)
        if c.qualname == 'TruncatedReadableBinaryIO.seek':
            e.replayer = seek_replayer  # a failed seek clause is replayed on the real class for the whence it is about
        e.run()
        _strict(ctx, e, c.label or c.qualname)
    scans(ctx)
    ctx.witness_search = lambda: core.run_native(open(os.path.join(os.path.dirname(__file__), 'native', 'c23_replay.py')).read(), {})
    ctx.assume('credentials (assumed): auth_headers_with_expiration() yields authentication headers only - never a key the caller of the request set itself (the Range header is not overwritten by a credential) - and possibly none at all (anonymous credentials)')
    ctx.assume('Session.request is verified for sessions without session-wide default params (self._params is None, as for the storage client); the merge loop over self._params writes kwargs[\'params\'] only (not under contract)')
    ctx.assume('io contract of the underlying file (assumed): seek(o, SEEK_SET) -> o, seek(o, SEEK_CUR) -> position + o, seek(o, SEEK_END) -> size + o; ValueError for another whence, OSError for a negative target; read(k) advances the position by the bytes returned')
    ctx.assume('Azure Blob service / GCS (assumed): a range that starts at or after the end of the object is answered 416 (azure.core HttpResponseError.status_code / aiohttp ClientResponseError.status)')
    ctx.undecided('AzureReadableStream.read(-1) (the read_from path) lets the 416 of a range starting at or after the end of the blob escape as HttpResponseError, while GCS / S3 signal UnexpectedEOFError at open and the local backend returns b\'\'; the property names the unexpected-end-of-file signal for range reads only, so no clause is claimed for unbounded reads from an offset >= size')
    ctx.assume('Azure SDK (assumed): BlobClient.download_blob(offset, length) delivers the bytes offset .. offset+length-1 of the blob (to the end without a length), in order, through readall() / chunks()')
    ctx.assume('RFC 7233 (assumed contract of the GCS/S3 servers): `Range: bytes=a-` returns the object from byte a, `bytes=a-b` the bytes a..min(b, N-1), and a >= N is answered 416 / InvalidRange')
    ctx.assume('str(i) of a Python int i is its decimal representation (str_int is uninterpreted: the header is compared with the specification term by congruence)')
