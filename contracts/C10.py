"""C10 - instance free-core accounting is exact.

Invariant F, per instance X whose state is pending or active:
   free_cores(X) == cores(X) - sum over attempts a placed on X with end_time NULL of cores_mcpu(job of a);   inactive => free == cores.
Every stored procedure that writes `instances_free_cores_mcpu` or the end/placement of an attempt is executed symbolically
(sqlvc, real effective text, BEFORE trigger on attempts inlined) and for EVERY path, every argument and every database the
delta obligation is discharged:
   free'(X) - free(X) == cores(job) * ( [attempt live on X before] - [attempt live on X after] )       for X live after the call
(the procedures touch one attempt row (in_batch_id, in_job_id, in_attempt_id); deactivate_instance ends all attempts of one
instance and must leave free == cores).  Frame: nothing else changes.  By sum localisation (meta-lemma L1) the delta
obligations preserve F.
Wave 4 - the service also keeps the figure in memory (Instance._free_cores_mcpu) and moves it by the `delta_cores_mcpu` each
procedure REPORTS in its result row; for the in-memory figure to stay exact the reported delta must equal the net change the call
made to the instance's row of instances_free_cores_mcpu (for a live instance; schedule_job on a pool instance additionally
refunds the scheduler's in-memory pre-deduction of the job's cores):  reported == free'(inst) - free(inst) [+ cores].
"""
from __future__ import annotations

import z3

from vc import core, sqlvc
from vc.sqlvc import intern

PROCS_ONE_ATTEMPT = ['schedule_job', 'mark_job_creating', 'mark_job_started', 'unschedule_job', 'mark_job_complete']


def _base(ex):
    return ex.new_state().db


def _python_mirror(ctx):
    """the driver's in-memory mirror of free cores: after each procedure call of batch/driver/job.py the figure the procedure
    reports (delta_cores_mcpu) is applied to the instance object exactly once, whatever the procedure's return code, when the
    instance object is in the state for which the procedure moved cores; Instance.adjust_free_cores_in_memory adds exactly it."""
    from vc import pyvc
    from vc.pyvc import Contract, SRecord, to_z3

    JOB, INST = 'batch/batch/driver/job.py', 'batch/batch/driver/instance.py'
    ROW = pyvc.rec_type(delta_cores_mcpu='int', rc='int')

    def adjust(eng, st, args, kw, node):
        st.env['ADJ'] = st.env['ADJ'] + eng.num(args[0])
        st.env['n_adj'] = st.env['n_adj'] + 1
        return None

    def setup(eng, st):
        st.env['instance'] = SRecord('Instance', {'state': st.env['ISTATE'], 'name': z3.Const('iname', pyvc.U)})
        st.env['id'] = z3.StringVal('job-id')
        st.env['attempt_id'] = z3.StringVal('attempt')

    nothing = lambda eng, st, args, kw, node: None  # noqa: E731
    # (function, live state of the instance object, number of statements from the first `if rv[...]` on)
    BOTH = "re:^if rv\\['delta_cores_mcpu'\\]|^if rv\\['rc'\\]"
    # mark_job_complete (wave 4): the refund sits inside `if instance_name: ... if instance:`; its later `if rv['rc'] != 0` is not part of it
    for fname, live, n, anchor in (('schedule_job', 'active', 2, BOTH), ('mark_job_started', 'active', 1, BOTH), ('mark_job_creating', 'pending', 1, BOTH), ('unschedule_job', 'active', 1, BOTH), ('mark_job_complete', 'active', 1, "re:^if rv\\['delta_cores_mcpu'\\]")):
        c = Contract(
            path=JOB, qualname=fname, label='%s[in-memory refund]' % fname, fragment=(anchor, n), strings=True,
            extra_inputs={'rv': ROW, 'ISTATE': 'U'}, setup=setup,
            calls={'instance.adjust_free_cores_in_memory': adjust, 'log.info': nothing},
            ghost_init={'ADJ': '0', 'n_adj': '0'},
            ensures=[('the-reported-delta-is-applied-once-whatever-the-return-code', "ADJ == (rv.delta_cores_mcpu if ISTATE == '%s' else 0) and n_adj <= 1" % live)],
            raises={}, canaries=[('never-adjusted', 'n_adj == 0')],
        )
        eng = pyvc.Engine(ctx, c)
        try:
            eng.run()
        except core.Undecided:
            if fname != 'mark_job_complete':
                raise
            # the refund statement of mark_job_complete is not where the fragment expects it: the same clause is stated on the
            # whole function by _mark_job_complete_release (driver.job.mark_job_complete[in-memory release, whole function]),
            # which does not depend on where the statement sits
            ctx.add(core.decided('C10/mark_job_complete[in-memory refund]/fragment-found-right-after-the-procedure-call', True, 'fragment not found; clause decided on the whole function instead', kind='scan'))
    # the adjust method itself
    def setup2(eng, st):
        pass

    c = Contract(
        path=INST, qualname='Instance.adjust_free_cores_in_memory', types={'delta_mcpu': 'int'}, self_fields={'_free_cores_mcpu': 'int', 'inst_coll': 'U'},
        calls={'self.inst_coll.adjust_for_remove_instance': nothing, 'self.inst_coll.adjust_for_add_instance': nothing},
        ensures=[('adds-exactly-the-delta', 'self._free_cores_mcpu == old(self._free_cores_mcpu) + delta_mcpu')], raises={}, canaries=[('unchanged', 'self._free_cores_mcpu == old(self._free_cores_mcpu)')],
    )
    pyvc.Engine(ctx, c).run()


def _instance_deactivate(ctx):
    """driver/instance.py Instance.deactivate, the in-memory side of deactivation: whenever this call leaves the instance inactive
    in memory - whether the procedure deactivated it now (rc 0) or reports that the database had done so before (rc 1: an earlier
    call committed and its reply was lost) - the instance reports ALL its cores free in memory, like the database row does"""
    from vc import pyvc
    from vc.pyvc import Contract, SRecord

    def call(eng, st, args, kw, node):
        st.env['n_calls'] = st.env['n_calls'] + 1
        return SRecord('row', {'rc': z3.Int('deact_rc'), 'cur_state': z3.Const('deact_cur_state', pyvc.U)})

    nothing = lambda eng, st, args, kw, node: None  # noqa: E731
    c = Contract(
        path='batch/batch/driver/instance.py', qualname='Instance.deactivate', types={'reason': 'U', 'timestamp': 'U'},
        self_fields={'_state': 'U', '_free_cores_mcpu': 'int', 'cores_mcpu': 'int', 'name': 'U', 'db': 'U', 'inst_coll': 'U'},
        calls={'self.db.execute_and_fetchone': call, 'time_msecs': lambda eng, st, args, kw, node: z3.Const(pyvc.fresh_name('now'), pyvc.U), 'log.info': nothing,
               'self.inst_coll.adjust_for_remove_instance': nothing, 'self.inst_coll.adjust_for_add_instance': nothing, 'self.inst_coll.scheduler_state_changed.set': nothing},
        ghost_init={'n_calls': '0'},
        ensures=[
            ('an-instance-this-call-leaves-inactive-reports-all-its-cores-free-in-memory', "implies(n_calls == 1, self._state == 'inactive' and self._free_cores_mcpu == self.cores_mcpu)"),
            ('an-instance-already-inactive-or-deleted-in-memory-is-left-alone', "implies(old(self._state) == 'inactive' or old(self._state) == 'deleted', n_calls == 0 and self._state == old(self._state) and self._free_cores_mcpu == old(self._free_cores_mcpu))"),
        ],
        raises={'AssertionError': True},
        canaries=[('never-calls-the-procedure', 'n_calls == 0')],
    )
    e = pyvc.Engine(ctx, c).run()
    ctx.add(core.decided('C10/Instance.deactivate/no-call-outside-the-contract', not e.unmodelled, repr(e.unmodelled), kind='frame'))


def _mark_job_complete_release(ctx):
    """driver/job.py mark_job_complete as a whole (the contract object of C04 with the in-memory release observed): once the
    procedure has answered, the delta it reports is applied to the in-memory instance exactly once - whatever the return code
    and whatever the old state (a late report for an already complete job still ended an attempt and gave cores back in the
    database) - provided the instance is known and active; it is applied before anything that may fail afterwards"""
    import contracts.C04 as C04
    from vc import pyvc
    from vc.pyvc import Fork

    c = C04.mark_job_complete_py_contract(C04.sql_row_shapes())
    c.label = 'driver.job.mark_job_complete[in-memory release, whole function]'
    inst = z3.Const('the_instance', pyvc.U)
    orig_fetch = c.calls['.execute_and_fetchone']

    def fetch(eng, st, args, kw, node):
        try:
            return orig_fetch(eng, st, args, kw, node)
        except Fork as f:
            def mark(prev):
                def eff(s_):
                    if prev is not None:
                        prev(s_)
                    s_.env['ROW_READ'] = True
                return eff
            f.alts = [tuple(a[:4]) + ((mark(a[4] if len(a) > 4 else None),) if a[2] == 'value' else ((a[4] if len(a) > 4 else None),)) for a in f.alts]
            raise

    def get_instance(eng, st, args, kw, node):
        rec = pyvc.SRecord('Instance', {'state': z3.Const('the_instance_state', pyvc.U), 'inst_coll': z3.Const('the_instance_coll', pyvc.U)})
        raise Fork(node, [('instance-known', None, 'value', rec, lambda s_: s_.env.__setitem__('GOT', True)), ('instance-unknown', None, 'value', None, None)])

    def adjust(eng, st, args, kw, node):
        st.env['n_adjust'] = st.env['n_adjust'] + 1
        st.env['ADJ'] = eng.num(args[-1])
        return None

    c.calls = dict(c.calls, **{'.execute_and_fetchone': fetch, '.get_instance': get_instance, '.adjust_free_cores_in_memory': adjust})
    c.ghost_init = dict(c.ghost_init, ROW_READ='False', GOT='False', n_adjust='0', ADJ='0')
    c.consts = dict(c.consts, the_instance_state=z3.Const('the_instance_state', pyvc.U), db_delta_cores_mcpu=z3.Int('db_delta_cores_mcpu'))
    due = "(ROW_READ and GOT and the_instance_state == 'active' and db_delta_cores_mcpu != 0)"
    clause = 'implies(%s, n_adjust == 1 and ADJ == db_delta_cores_mcpu) and n_adjust <= 1 and implies(n_adjust == 1, ROW_READ and ADJ == db_delta_cores_mcpu)' % due
    c.ensures = [('the-delta-the-procedure-reports-is-applied-to-the-active-instance-exactly-once-whatever-rc-and-old-state', clause)]
    c.on_raise = [('the-reported-delta-is-already-applied-when-a-later-step-fails', clause)]
    c.canaries = [('never-adjusts', 'n_adjust == 0')]
    e = pyvc.Engine(ctx, c).run()
    ctx.add(core.decided('C10/driver.job.mark_job_complete[whole]/no-call-outside-the-contract', not e.unmodelled, repr(e.unmodelled), kind='frame'))


def build(ctx):
    _python_mirror(ctx)
    _instance_deactivate(ctx)
    _mark_job_complete_release(ctx)
    ex = sqlvc.Exec(inline_after=False)
    PENDING, ACTIVE, INACTIVE = intern('pending'), intern('active'), intern('inactive')
    X = z3.Int('X_instance')
    for name in PROCS_ONE_ATTEMPT:
        r = ex.routines[name]
        ctx.under_contract(r.source_file.replace(core.REPO + '/', ''), 'PROCEDURE ' + name)
        st0 = ex.new_state()
        d0 = st0.db
        for t in ('attempts', 'jobs', 'instances', 'instances_free_cores_mcpu'):
            d0.tab(t)
        base = d0.fork()
        outs = ex.run_procedure(name, st0)
        n_changed = []
        n_reported = []
        for pi, s in enumerate(outs):
            v = s.vars
            b, j, a, inst = v['in_batch_id'], v['in_job_id'], v['in_attempt_id'], v['in_instance_name']
            K = [b.v, j.v, a.v]
            att0, att1 = base.tab('attempts'), s.db.tab('attempts')
            free0, free1 = base.tab('instances_free_cores_mcpu'), s.db.tab('instances_free_cores_mcpu')
            ins1 = s.db.tab('instances')
            jobs0 = base.tab('jobs')
            cores = jobs0.get([b.v, j.v], 'cores_mcpu')
            live0 = z3.And(att0.has(K), att0.get(K, 'end_time').n, z3.Not(att0.get(K, 'instance_name').n), att0.get(K, 'instance_name').v == X)
            live1 = z3.And(att1.has(K), att1.get(K, 'end_time').n, z3.Not(att1.get(K, 'instance_name').n), att1.get(K, 'instance_name').v == X)
            # preconditions (call-site facts, listed as assumptions)
            pre = [
                z3.Not(b.n), z3.Not(j.n),
                jobs0.has([b.v, j.v]), z3.Not(cores.n),
                # an existing attempt is reported together with the instance it was placed on
                z3.Implies(z3.And(z3.Not(a.n), att0.has(K)), z3.And(z3.Not(att0.get(K, 'instance_name').n), z3.Not(inst.n), att0.get(K, 'instance_name').v == inst.v)),
                # free-core rows exist for every instance row
                z3.Implies(z3.Not(inst.n), z3.And(free0.has([inst.v]), base.tab('instances').has([inst.v]))),
                z3.Not(a.n), z3.Not(inst.n),
                # table invariant of attempts: an end reason is only ever written together with an end time
                z3.Implies(z3.And(att0.has(K), z3.Not(att0.get(K, 'reason').n)), z3.Not(att0.get(K, 'end_time').n)),
            ]
            if name == 'mark_job_complete':
                pre.append(z3.Not(v['new_end_time'].n))
            if name == 'unschedule_job':
                pre.append(z3.Not(v['new_end_time'].n))
                pre.append(att0.has(K))  # unschedule_job is only called for attempts read from the database
            hyps = list(s.pc) + pre
            if not sqlvc.feasible(hyps, 3000):
                continue
            d_free = free1.get([X], 'free_cores_mcpu').v - free0.get([X], 'free_cores_mcpu').v
            d_live = z3.If(live0, 1, 0) - z3.If(live1, 1, 0)
            st1 = ins1.get([X], 'state')
            for case, code in (('active', ACTIVE), ('pending', PENDING)):
                ctx.add(core.valid('%s/path%d/delta-free-cores-matches-live-attempts/instance-%s' % (name, pi, case), hyps + [ins1.has([X]), z3.Not(st1.n), st1.v == code], d_free == cores.v * d_live, trace=' > '.join(s.trace[-10:])))
            # an inactive instance reports all cores free: no event may move its free-core figure
            ctx.add(core.valid('%s/path%d/free-cores-of-an-inactive-instance-do-not-move' % (name, pi), hyps + [ins1.has([X]), z3.Not(st1.n), st1.v == INACTIVE], d_free == 0, trace=' > '.join(s.trace[-10:])))
            ctx.add(core.valid('%s/path%d/attempts-invariant-reason-implies-end-preserved' % (name, pi), hyps + [z3.Not(v[[k for k in v if k.endswith('new_reason')][0]].n)] if any(k.endswith('new_reason') for k in v) else hyps, z3.Implies(z3.And(att1.has(K), z3.Not(att1.get(K, 'reason').n)), z3.Not(att1.get(K, 'end_time').n))))
            # frame: free-core rows of other instances and the existence of rows are untouched
            ctx.add(core.valid('%s/path%d/frame-other-instances' % (name, pi), hyps + [X != inst.v], z3.And(d_free == 0, free1.has([X]) == free0.has([X]))))
            # frame on attempts: only the row K changes its liveness
            K2 = [z3.Int('b2'), z3.Int('j2'), z3.Int('a2')]
            same = z3.And(att1.has(K2) == att0.has(K2), att1.get(K2, 'end_time').n == att0.get(K2, 'end_time').n, sqlvc.sv_eq_values(att1.get(K2, 'instance_name'), att0.get(K2, 'instance_name')))
            ctx.add(core.valid('%s/path%d/frame-other-attempts' % (name, pi), hyps + [z3.Not(z3.And(K2[0] == K[0], K2[1] == K[1], K2[2] == K[2]))], same))
            n_changed.append(z3.And(*hyps, free1.get([inst.v], 'free_cores_mcpu').v != free0.get([inst.v], 'free_cores_mcpu').v))
            # (wave 4) the figure the procedure REPORTS: the driver adds the column `delta_cores_mcpu` of the result row to the
            # in-memory free cores of the instance object (contracts above), so for a live instance it must equal the net
            # change the call made to the instance's row of instances_free_cores_mcpu.  schedule_job on a pool instance
            # additionally refunds the scheduler's in-memory pre-deduction of the job's cores (pool.py schedule_loop_body
            # subtracts them before the call): there the reported figure is the net change plus the job's cores.
            rows = [row for row in s.results if any(nm == 'delta_cores_mcpu' for nm, _ in row)]
            ctx.add(core.decided('%s/path%d/one-result-row-reporting-delta_cores_mcpu' % (name, pi), len(s.results) == 1 and len(rows) == 1, 'result sets: %r' % [[nm for nm, _ in row] for row in s.results], kind='scan'))
            if len(rows) == 1:
                rep = [sv for nm, sv in rows[0] if nm == 'delta_cores_mcpu'][0]
                d_own = free1.get([inst.v], 'free_cores_mcpu').v - free0.get([inst.v], 'free_cores_mcpu').v
                expect = d_own
                if name == 'schedule_job':
                    ins0 = base.tab('instances')
                    coll = ins0.get([inst.v], 'inst_coll')
                    ic = base.tab('inst_colls')
                    ip = ic.get([coll.v], 'is_pool')
                    is_pool = z3.And(z3.Not(coll.n), ic.has([coll.v]), z3.Not(ip.n), ip.v != 0)
                    expect = d_own + z3.If(is_pool, cores.v, 0)
                sti = ins1.get([inst.v], 'state')
                live_i = z3.And(z3.Not(sti.n), z3.Or(sti.v == ACTIVE, sti.v == PENDING))
                ctx.add(core.valid('%s/path%d/reported-delta-equals-net-change-of-free-cores' % (name, pi), hyps + [live_i], z3.And(z3.Not(rep.n), rep.v == expect), trace=' > '.join(s.trace[-10:])))
                n_reported.append(z3.And(*hyps, live_i, z3.Not(rep.n), rep.v != 0))
        ctx.add(core.satisfiable('%s/vacuity/some-path-changes-free-cores' % name, z3.Or(*n_changed) if n_changed else z3.BoolVal(False)))
        ctx.add(core.satisfiable('%s/vacuity/some-path-reports-a-non-zero-delta-for-a-live-instance' % name, z3.Or(*n_reported) if n_reported else z3.BoolVal(False)))

    # deactivate_instance: all attempts of the instance end; free == cores; instance inactive
    for name in ('deactivate_instance',):
        r = ex.routines[name]
        ctx.under_contract(r.source_file.replace(core.REPO + '/', ''), 'PROCEDURE ' + name)
        st0 = ex.new_state()
        for t in ('attempts', 'jobs', 'instances', 'instances_free_cores_mcpu'):
            st0.db.tab(t)
        base = st0.db.fork()
        outs = ex.run_procedure(name, st0)
        for pi, s in enumerate(outs):
            inst = s.vars['in_instance_name']
            pre = [z3.Not(inst.n), z3.Not(s.vars['in_timestamp'].n), z3.Not(s.vars['in_reason'].n), base.tab('instances_free_cores_mcpu').has([inst.v]) == base.tab('instances').has([inst.v])]
            hyps = list(s.pc) + pre
            if not sqlvc.feasible(hyps, 3000):
                continue
            ins0, ins1 = base.tab('instances'), s.db.tab('instances')
            free0, free1 = base.tab('instances_free_cores_mcpu'), s.db.tab('instances_free_cores_mcpu')
            att0, att1 = base.tab('attempts'), s.db.tab('attempts')
            rc = s.results[-1][0][1] if s.results else None
            committed = z3.And(z3.Not(rc.n), rc.v == 0) if rc is not None else z3.BoolVal(False)
            st1 = ins1.get([inst.v], 'state')
            ctx.add(core.valid('%s/path%d/success-leaves-instance-inactive-with-all-cores-free' % (name, pi), hyps + [committed], z3.And(z3.Not(st1.n), st1.v == INACTIVE, free1.get([inst.v], 'free_cores_mcpu').v == ins1.get([inst.v], 'cores_mcpu').v)))
            K2 = [z3.Int('b2'), z3.Int('j2'), z3.Int('a2')]
            on_inst = z3.And(att0.has(K2), z3.Not(att0.get(K2, 'instance_name').n), att0.get(K2, 'instance_name').v == inst.v)
            inv2 = z3.Implies(z3.And(att0.has(K2), z3.Not(att0.get(K2, 'reason').n)), z3.Not(att0.get(K2, 'end_time').n))
            ctx.add(core.valid('%s/path%d/success-ends-every-attempt-of-the-instance' % (name, pi), hyps + [committed, on_inst, inv2], z3.Not(att1.get(K2, 'end_time').n)))
            ctx.add(core.valid('%s/path%d/attempts-of-other-instances-untouched' % (name, pi), hyps + [z3.Not(on_inst)], z3.And(att1.has(K2) == att0.has(K2), att1.get(K2, 'end_time').n == att0.get(K2, 'end_time').n)))
            ctx.add(core.valid('%s/path%d/frame-other-instances' % (name, pi), hyps + [X != inst.v], free1.get([X], 'free_cores_mcpu').v == free0.get([X], 'free_cores_mcpu').v))
            ctx.add(core.valid('%s/path%d/failure-changes-nothing' % (name, pi), hyps + [z3.Not(committed)], z3.And(free1.get([X], 'free_cores_mcpu').v == free0.get([X], 'free_cores_mcpu').v, att1.get(K2, 'end_time').n == att0.get(K2, 'end_time').n, sqlvc.sv_eq_values(ins1.get([X], 'state'), ins0.get([X], 'state')))))

    for name in ('activate_instance', 'mark_instance_deleted'):
        r = ex.routines[name]
        ctx.under_contract(r.source_file.replace(core.REPO + '/', ''), 'PROCEDURE ' + name)
        st0 = ex.new_state()
        for t in ('attempts', 'instances', 'instances_free_cores_mcpu'):
            st0.db.tab(t)
        base = st0.db.fork()
        for pi, s in enumerate(ex.run_procedure(name, st0)):
            free0, free1 = base.tab('instances_free_cores_mcpu'), s.db.tab('instances_free_cores_mcpu')
            att0, att1 = base.tab('attempts'), s.db.tab('attempts')
            K2 = [z3.Int('b2'), z3.Int('j2'), z3.Int('a2')]
            ctx.add(core.valid('%s/path%d/free-cores-and-attempts-untouched' % (name, pi), list(s.pc), z3.And(free1.get([X], 'free_cores_mcpu').v == free0.get([X], 'free_cores_mcpu').v, att1.get(K2, 'end_time').n == att0.get(K2, 'end_time').n, att1.has(K2) == att0.has(K2))))
            if name == 'mark_instance_deleted':
                ins0, ins1 = base.tab('instances'), s.db.tab('instances')
                st_0, st_1 = ins0.get([X], 'state'), ins1.get([X], 'state')
                live = lambda sv: z3.And(z3.Not(sv.n), z3.Or(sv.v == PENDING, sv.v == ACTIVE))
                ctx.add(core.valid('%s/path%d/never-makes-an-instance-live' % (name, pi), list(s.pc), z3.Implies(live(st_1), live(st_0))))

    # closed world: who writes instances_free_cores_mcpu
    from vc import sqlast as A
    writers = []
    for rn, r in ex.routines.items():
        for n in r.body.walk():
            if isinstance(n, (A.Update, A.Insert, A.Delete)):
                names = [t.name for t in n.walk() if isinstance(t, A.TableRef)] + ([n.table] if isinstance(getattr(n, 'table', None), str) else [])
                if 'instances_free_cores_mcpu' in names and not isinstance(n, A.SelectStmt):
                    writers.append(rn)
    writers = sorted(set(writers))
    ctx.extra['routines_writing_free_cores'] = writers
    ctx.add(core.decided('closed-world/routines-writing-free-cores', set(writers) <= {'add_attempt', 'unschedule_job', 'mark_job_complete', 'deactivate_instance'}, repr(writers), kind='scan'))
    from contracts import sqlspec as _SP
    _SP.engine_obligations(ctx, ex)
    ctx.assume('each procedure call is atomic (serialisable isolation); integers mathematical')
    ctx.assume('call-site facts taken as preconditions: attempt ids and instance names reported are non-NULL and an existing attempt is reported with the instance it was placed on; every instance row has a free-core row; unschedule_job is called for existing attempts; end times reported by unschedule/complete are non-NULL (the mark_job_errored call with instance None is outside the obligation)')
    ctx.assume('table invariant of attempts used as precondition and shown preserved: reason IS NOT NULL implies end_time IS NOT NULL (established because reasons are only written together with a non-NULL end time; the mark_job_errored call with end_time None is excluded by the stated precondition)')
    ctx.assume('meta-lemma L1 (sum localisation): a change of one summand changes the sum by that amount - used to lift the delta obligations to invariant F')
    ctx.assume('jobs.cores_mcpu is immutable (no UPDATE assigns it: closed-world scan under C01/A2)')
    ctx.undecided('the in-memory mirror Instance.adjust_free_cores_in_memory and Python-created instance rows (INSERT INTO instances_free_cores_mcpu in instance.py)')
