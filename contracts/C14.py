"""C14 - batch API access control.

Three layers, all generated from the real source on every run (gear/gear/auth.py, batch/batch/front_end/front_end.py,
web_common/web_common/web_common.py, batch/batch/utils.py, gear/gear/database.py; schema from the replayed migrations):

 (1) WRAPPERS (pyvc, symbolic execution of the real nested `wrapped` coroutines).  The handler call `fun(...)` is an oracle
     whose call site carries the obligations: reached only with the userdata `_fetch_userdata` returned (not None), only for
     state != 'inactive', for the developers-only wrapper only when is_developer is truthy - is_developer arrives from JSON, the
     contract is discharged for the int, the bool and the null representation, `x is False` being identity, not equality -, for
     the developers-or-auth wrapper only when is_developer is truthy or the caller is the auth service, for
     billing_project_users_only only after _user_can_access(request.app['db'], int(request.match_info['batch_id']),
     userdata['username']) returned true and with that batch id.  Every exceptional exit that is not the handler's own leaves
     the handler uncalled and is one of the HTTP errors the property allows (401 / login redirect only without a user, 403 only
     for an inactive user, 404 only when the access check said no); a normal return implies exactly one handler call.
     Frame: no call outside the modelled ones (symbolic and syntactic).
 (2) QUERIES (sqlvc on the embedded SQL + z3).  _user_can_access returns True exactly if rows (batches b, billing_project_users
     u) exist with b.id = batch_id, u.billing_project = b.billing_project, u.user_cs = user; LEFT JOIN / ON / WHERE and NULL
     semantics are those of vc/sqlvc.py, the decision is z3's, never a text comparison.  Owner filters: in _create_jobs,
     _create_job_groups.insert, _create_batch_update.update, commit_update (close_batch: its query cannot execute) the first
     database statement is a read whose result row implies a row of `batches` with id = the batch id of the request, user = the
     caller and NOT deleted; without a row 404 is raised; every write statement / writing helper is reached only under that
     row.  The route handlers pass int(request.match_info['batch_id']) and userdata['username'] (or userdata itself) to those
     helpers; create_batch / create_batch_fast work on the id _create_batch returns, and _create_batch.insert inserts a batch
     only for the caller, into a billing project the caller belongs to.
 (2c) BILLING-PROJECT LISTINGS.  get_billing_projects, get_billing_project, ui_get_billing_limits (every handler open to all
     authenticated users that calls a listing helper of batch/utils.py), executed up to that call for the int / bool / null
     representation of is_developer: the helper is asked without a user name only for a developer or the auth service - the name
     is EXACTLY 'auth'; `x in 'auth'` is modelled as the substring test it is - and otherwise with the caller's own name.
 (2d) READS OF BATCH-SCOPED HANDLERS.  _get_job_record answers only the job (batch_id, job_id) it was asked for (the WHERE of the
     real statement pins jobs.batch_id / jobs.job_id to placeholders that the real argument tuple binds to the parameters);
     get_job_container_log with the real bodies of _get_job_container_log / has_resource_available / attempt_id_from_spec executed
     in place: the worker and the log store are only asked for the checked batch, the job of the request path and a container
     that job_tasks_from_spec(record) answers (which answers only 'input' / 'main' / 'output'); _get_job_log by AST;
     _query_batch_jobs_for_billing: on every path the listing statement (real f-string, real condition list of that path) pins
     jobs.batch_id to the checked id, the follow-up statements pin batch_id to it as well; every caller chain of these helpers
     starts at the batch_id parameter of a batch-scoped route handler and never rebinds it.
 (3) ROUTE TABLE (exhaustive over the AST).  Every `@routes.<verb>(path)` handler of front_end.py, plus every registration made
     outside the table in run(), is classified by the data-driven POLICY below (derived from the property text); each route
     falls in exactly one class and carries the protection of its class, with nothing but transparent decorators above it; a
     route reaches only the writers its class may use (billing tables only from billing-administration routes ...).

Open on the unchanged tree (obligations that fail, with replays on the real code - not suppressed here):
   _create_batch_update.update/post/returns-only-for-the-owner-of-the-batch, create_update/post/succeeds-only-for-the-owner-...,
   update_batch_fast/commit/reached-only-for-the-owner-of-the-batch#4: the token lookup `WHERE batch_id = %s AND token = %s` has
   no owner conjunct; whoever replays the token of an existing update gets its ids (updates/create) and, with an empty bunch
   and no job groups, commits it (update-fast).   routes/outside-the-table/GET /metrics/protected-as-other: prometheus'
   server_stats is registered without authentication and the property's exemption list does not name it.
"""
from __future__ import annotations

import ast as pyast
import os
import re

import z3

from vc import core, pyvc, sqlast as A, sqlparse, sqlvc
from vc.pyvc import Contract, Fork, SExc, SRecord, U

AUTH = 'gear/gear/auth.py'
FE = 'batch/batch/front_end/front_end.py'
WC = 'web_common/web_common/web_common.py'
UT = 'batch/batch/utils.py'

NATIVE = os.path.join(os.path.dirname(__file__), 'native', 'c14_replay.py')
ROUTE_CLASSES = []  # [verb, path, policy class] of every route, handed to the native route-table replay


def _native(scenario):
    """replayer: run one scenario of the native script on the real code"""

    def rep(model, obl):
        return core.run_native(open(NATIVE).read(), {'scenario': scenario, 'routes': ROUTE_CLASSES})

    return rep


# ---------------------------------------------------------------------------------------------------------------------
# (1) wrappers


def _request_model():
    """an aiohttp request as far as the wrappers look at it: mapping protocol for 'api_info' / 'userdata', .path, .app['db'],
    .match_info['batch_id']"""
    return SRecord('request', {
        'has_api_info': z3.Bool('req_has_api_info'),
        'api_info': pyvc.fresh_value(('map', 'U', 'bool'), 'req_api_info'),
        'path': z3.String('req_path'),
        'app': SRecord('dict', {'db': z3.Const('app_db', U)}),
        'match_info': SRecord('dict', {'batch_id': z3.Const('path_batch_id', U)}),
        '__tag__': 'the-request',
    })


DEV_REPRS = ('int', 'bool', 'null')


def _userdata_model(dev_repr):
    """what the auth service delivers for a session: JSON object with the keys of gear.auth.UserData; is_developer is a MySQL
    TINYINT on the auth side, i.e. the integer 0/1 in JSON, or a JSON boolean, or null"""
    dev = {'int': z3.Int('ud_is_developer'), 'bool': z3.Bool('ud_is_developer_b'), 'null': None}[dev_repr]
    return SRecord('dict', {'state': z3.Const('ud_state', U), 'username': z3.Const('ud_username', U), 'is_developer': dev, '__tag__': 'the-userdata'})


def _is(v, tag):
    return isinstance(v, SRecord) and v.fields.get('__tag__') == tag


def _handler_model(checks):
    """the wrapped handler `fun`: an oracle that returns a response or raises; `checks` are the call-site obligations"""

    def model(eng, st, args, kw, node):
        for name, fn in checks:
            eng.oblige(st, 'handler/' + name, fn(eng, st, args))
        eng.oblige(st, 'handler/called-at-most-once', st.env['n_handler'] == 0)

        def ret(s):
            s.env['n_handler'] = s.env['n_handler'] + 1

        def rai(s):
            s.env['n_handler'] = s.env['n_handler'] + 1
            s.env['handler_raised'] = True

        raise Fork(node, [('handler-returns', None, 'value', z3.Const('handler_response', U), ret), ('handler-raises', None, 'raise', SExc(term=z3.Const(pyvc.fresh_name('handler_exc'), U)), rai)])

    return model


def _truthy_dev(eng, ud):
    return eng.truthy(ud.fields['is_developer'])


CK_REQUEST = ('first-argument-is-the-request', lambda eng, st, a: len(a) >= 1 and _is(a[0], 'the-request'))
CK_USERDATA = ('reached-only-with-the-authenticated-userdata', lambda eng, st, a: len(a) >= 2 and _is(a[1], 'the-userdata'))
CK_ACTIVE = ('reached-only-for-an-active-user', lambda eng, st, a: z3.Not(eng.equal(st.env['USERDATA'].fields['state'], 'inactive')) if st.env.get('USERDATA') is not None else False)
CK_DEV = ('reached-only-for-a-developer', lambda eng, st, a: _truthy_dev(eng, st.env['USERDATA']))
CK_DEV_OR_AUTH = ('reached-only-for-a-developer-or-the-auth-service', lambda eng, st, a: z3.Or(_truthy_dev(eng, st.env['USERDATA']), eng.equal(st.env['USERDATA'].fields['username'], 'auth')))

GHOSTS = {'n_handler': '0', 'handler_raised': 'False'}
ON_RAISE = [('every-rejection-leaves-the-handler-uncalled', 'handler_raised or n_handler == 0')]
NORMAL = [('a-normal-return-is-the-handlers-return', 'n_handler == 1 and result == HANDLER_RESPONSE')]
CANARY = [('the-handler-is-never-reached', 'n_handler == 0')]
NOOP = lambda eng, st, args, kw, node: None


def _allowed_calls(ctx, label, path, qualname, allowed):
    """frame, syntactic half: every call expression in the function's own text is one of `allowed` (dotted callee names)"""
    fn = pyvc.find_function(pyast.parse(core.read_repo(path)), qualname)
    seen = sorted({pyvc._dotted(n.func) or pyast.unparse(n.func) for st in fn.body for n in pyast.walk(st) if isinstance(n, pyast.Call)})
    extra = [c for c in seen if c not in allowed]
    ctx.add(core.decided('%s/frame/no-call-expression-outside-the-contract' % label, not extra, 'calls=%r not allowed=%r' % (seen, extra), kind='frame'))


def _strict(ctx, eng, label):
    ctx.add(core.decided('%s/frame/no-unmodelled-call-executed' % label, not eng.unmodelled, repr(eng.unmodelled), kind='frame'))


def _decorators(path, qualname):
    fn = pyvc.find_function(pyast.parse(core.read_repo(path)), qualname)
    return [pyast.unparse(d) for d in fn.decorator_list]


def _returns_name(path, qualname, name):
    """the function's last statement is `return <name>` and <name> is bound only by the nested def (decorator result)"""
    fn = pyvc.find_function(pyast.parse(core.read_repo(path)), qualname)
    last = fn.body[-1]
    binds = [n for st in fn.body for n in pyast.walk(st) if isinstance(n, pyast.Name) and isinstance(n.ctx, pyast.Store) and n.id == name]
    defs = [d for d in fn.body if isinstance(d, (pyast.FunctionDef, pyast.AsyncFunctionDef)) and d.name == name]
    return isinstance(last, pyast.Return) and isinstance(last.value, pyast.Name) and last.value.id == name and len(defs) == 1 and not binds


def users_only():
    def setup(eng, st):
        st.env['request'] = _request_model()

    def fetch(eng, st, args, kw, node):
        eng.oblige(st, 'userdata-is-fetched-for-this-request', len(args) == 1 and _is(args[0], 'the-request'))
        ud = _userdata_model('int')

        def got(s):
            s.env['HAS_USER'] = True
            s.env['USERDATA'] = ud

        raise Fork(node, [
            ('no-session', None, 'value', None, None),
            ('session-of-a-user', None, 'value', ud, got),
            ('auth-service-fails', None, 'raise', SExc(term=z3.Const(pyvc.fresh_name('fetch_exc'), U)), None),
        ])

    return Contract(
        path=AUTH,
        qualname='Authenticator.authenticated_users_only.wrap.wrapped',
        extra_inputs={'redirect': 'U'},
        setup=setup,
        ghost_init=dict(GHOSTS, HAS_USER='False', USERDATA='None'),
        consts={'HANDLER_RESPONSE': z3.Const('handler_response', U), 'UD_STATE': z3.Const('ud_state', U)},
        calls={'self._fetch_userdata': fetch, 'fun': _handler_model([CK_REQUEST, CK_USERDATA, CK_ACTIVE])},
        ensures=NORMAL,
        on_raise=ON_RAISE,
        raises={'login_redirect': 'not HAS_USER', 'HTTPUnauthorized': 'not HAS_USER', 'HTTPForbidden': "HAS_USER and UD_STATE == 'inactive'"},
        canaries=CANARY,
    )


def _emit_canaries(ctx, eng):
    """pyvc collects the canary path formulas but leaves emitting them to the caller: each deliberately false postcondition
    must be refuted on some normal path (newer engines do it in Engine.run() and say so)"""
    if getattr(eng, 'canaries_emitted', False):
        return
    for name, paths in eng.canary_paths.items():
        ctx.add(core.satisfiable('%s/canary/%s' % (eng.label, name), z3.Or(*paths), kind='canary'))


def _inner_setup(dev_repr):
    """state of a wrapper that sits beneath authenticated_users_only: request and userdata are what that wrapper passes on"""

    def setup(eng, st):
        st.env['request'] = _request_model()
        st.env['userdata'] = st.env['USERDATA'] = _userdata_model(dev_repr)
        dev = st.env['USERDATA'].fields['is_developer']
        # the flag as the auth service writes it for a developer: 1 (TINYINT) or true; admitted callers may only be turned away
        # when the flag is not of that form (the property itself only demands that non-developers are rejected)
        st.env['DEV_CANON'] = z3.BoolVal(False) if dev is None else (dev == 1 if z3.is_int(dev) else dev)

    return setup


# guarantee of Authenticator.authenticated_users_only.wrap.wrapped at its handler call (proved above): userdata present, active
INNER_REQUIRES = ["userdata['state'] != 'inactive'"]


def developers_only(dev_repr):
    return Contract(
        path=AUTH,
        qualname='Authenticator.authenticated_developers_only.wrap.wrapped',
        label='Authenticator.authenticated_developers_only.wrap.wrapped[is_developer:%s]' % dev_repr,
        setup=_inner_setup(dev_repr),
        requires=INNER_REQUIRES,
        ghost_init=dict(GHOSTS),
        consts={'HANDLER_RESPONSE': z3.Const('handler_response', U), '__bool_identity__': True},
        calls={'fun': _handler_model([CK_REQUEST, CK_USERDATA, CK_ACTIVE, CK_DEV])},
        ensures=NORMAL if dev_repr != 'null' else [],  # a null flag is never a developer: no normal exit exists
        on_raise=ON_RAISE,
        raises={'HTTPUnauthorized': 'not DEV_CANON'},
        canaries=CANARY if dev_repr != 'null' else [],
    )


def developers_or_auth_only(dev_repr):
    return Contract(
        path=FE,
        qualname='authenticated_developers_or_auth_only.wrapped',
        label='authenticated_developers_or_auth_only.wrapped[is_developer:%s]' % dev_repr,
        setup=_inner_setup(dev_repr),
        requires=INNER_REQUIRES,
        ghost_init=dict(GHOSTS),
        # userdata['username'] is text (gear.auth.UserData): `username in '<literal>'` is then the substring test it is in Python
        consts={'HANDLER_RESPONSE': z3.Const('handler_response', U), '__bool_identity__': True, '__text_operands__': True},
        calls={'fun': _handler_model([CK_REQUEST, CK_ACTIVE, CK_DEV_OR_AUTH])},
        ensures=NORMAL,
        on_raise=ON_RAISE,
        raises={'HTTPUnauthorized': "not DEV_CANON and not userdata['username'] == 'auth'"},
        canaries=CANARY,
    )


def billing_project_users_only():
    def to_int(eng, st, args, kw, node):
        v = args[0]
        if isinstance(v, z3.ExprRef) and v.sort() == U:
            r = eng.uf('int_of_text', ['U'], 'int')(v)
            raise Fork(node, [('int-parses', None, 'value', r, None), ('int-fails', None, 'raise', SExc('ValueError'), None)])
        raise core.Undecided('int() of %r' % (v,))

    def can_access(eng, st, args, kw, node):
        ok = len(args) == 3 and isinstance(args[0], z3.ExprRef) and args[0].eq(z3.Const('app_db', U))
        eng.oblige(st, 'access-check/asks-the-application-database', ok)
        want_id = eng.uf('int_of_text', ['U'], 'int')(z3.Const('path_batch_id', U))
        eng.oblige(st, 'access-check/is-about-the-batch-id-of-the-request-path', eng.equal(args[1], want_id) if len(args) == 3 else False)
        eng.oblige(st, 'access-check/is-about-the-authenticated-user', eng.equal(args[2], st.env['USERDATA'].fields['username']) if len(args) == 3 else False)
        eng.oblige(st, 'access-check/asked-once', st.env['n_access_checks'] == 0)
        r = z3.Bool('CAN_ACCESS')

        def done(s):
            s.env['n_access_checks'] = s.env['n_access_checks'] + 1
            s.env['CHECKED'] = r

        raise Fork(node, [('access-check-answers', None, 'value', r, done), ('access-check-fails', None, 'raise', SExc(term=z3.Const(pyvc.fresh_name('db_exc'), U)), None)])

    ck_access = ('reached-only-after-the-access-check-said-yes', lambda eng, st, a: z3.And(z3.BoolVal(st.env['n_access_checks'] == 1), eng.truthy(st.env['CHECKED'])))
    ck_batch = ('is-given-the-batch-id-that-was-checked', lambda eng, st, a: eng.equal(a[2], eng.uf('int_of_text', ['U'], 'int')(z3.Const('path_batch_id', U))) if len(a) == 3 else False)
    return Contract(
        path=FE,
        qualname='billing_project_users_only.wrap.wrapped',
        setup=_inner_setup('int'),
        requires=INNER_REQUIRES,
        ghost_init=dict(GHOSTS, n_access_checks='0', CHECKED='False'),
        consts={'HANDLER_RESPONSE': z3.Const('handler_response', U)},
        calls={'int': to_int, '_user_can_access': can_access, 'fun': _handler_model([CK_REQUEST, CK_USERDATA, CK_ACTIVE, ck_access, ck_batch])},
        ensures=NORMAL,
        on_raise=ON_RAISE,
        raises={'HTTPNotFound': 'n_access_checks == 1 and not CHECKED', 'ValueError': True},
        canaries=CANARY,
    )


def security_headers():
    """web_common.web_security_header_generator.wrapped sits ABOVE the auth decorators of the UI routes: it must hand the request
    to the wrapped function before doing anything else and only touch the response it got back"""

    def setup(eng, st):
        st.env['request'] = _request_model()

    def model(eng, st, args, kw, node):
        eng.oblige(st, 'handler/first-argument-is-the-request', len(args) >= 1 and _is(args[0], 'the-request'))
        eng.oblige(st, 'handler/called-at-most-once', st.env['n_handler'] == 0)
        resp = SRecord('response', {'headers': pyvc.fresh_value(('map', 'U', 'U'), 'resp_headers'), '__tag__': 'the-response'})

        def ret(s):
            s.env['n_handler'] = s.env['n_handler'] + 1

        def rai(s):
            s.env['n_handler'] = s.env['n_handler'] + 1
            s.env['handler_raised'] = True

        raise Fork(node, [('handler-returns', None, 'value', resp, ret), ('handler-raises', None, 'raise', SExc(term=z3.Const(pyvc.fresh_name('handler_exc'), U)), rai)])

    return Contract(
        path=WC,
        qualname='web_security_header_generator.wrapped',
        extra_inputs={'extra_script': 'U', 'extra_style': 'U', 'extra_img': 'U', 'extra_form_action': 'U'},
        setup=setup,
        ghost_init=dict(GHOSTS),
        calls={'fun': model, 'is_the_response': lambda eng, st, args, kw, node: z3.BoolVal(_is(args[0], 'the-response'))},
        ensures=[('a-normal-return-is-the-handlers-response', "n_handler == 1 and is_the_response(result)")],
        on_raise=[('raises-only-what-the-handler-raised', 'handler_raised')],
        raises={},
        canaries=CANARY,
    )


def wrappers(ctx):
    cs = [users_only()] + [developers_only(r) for r in DEV_REPRS] + [developers_or_auth_only(r) for r in DEV_REPRS] + [billing_project_users_only(), security_headers()]
    for c in cs:
        c.raises.setdefault('*', True)
        e = pyvc.Engine(ctx, c)
        e.replayer = _native('wrappers')
        e.run()
        _strict(ctx, e, e.label)
        _emit_canaries(ctx, e)
    web = ['web.HTTPUnauthorized', 'web.HTTPForbidden', 'web.HTTPNotFound']
    _allowed_calls(ctx, 'Authenticator.authenticated_users_only.wrap.wrapped', AUTH, 'Authenticator.authenticated_users_only.wrap.wrapped', ['self._fetch_userdata', 'fun', 'login_redirect'] + web)
    _allowed_calls(ctx, 'Authenticator.authenticated_developers_only.wrap.wrapped', AUTH, 'Authenticator.authenticated_developers_only.wrap.wrapped', ['fun'] + web)
    _allowed_calls(ctx, 'authenticated_developers_or_auth_only.wrapped', FE, 'authenticated_developers_or_auth_only.wrapped', ['fun'] + web)
    _allowed_calls(ctx, 'billing_project_users_only.wrap.wrapped', FE, 'billing_project_users_only.wrap.wrapped', ['fun', 'int', '_user_can_access'] + web)
    _allowed_calls(ctx, 'web_security_header_generator.wrapped', WC, 'web_security_header_generator.wrapped', ['fun'])


# ---------------------------------------------------------------------------------------------------------------------
# (2) embedded queries: the SQL text of the real call is parsed (vc/sqlparse.py) and turned by vc/sqlvc.py into the condition
# "the bound rows exist and ON / WHERE hold" over an abstract database (tables as arrays keyed by primary key, three-valued
# logic, LEFT JOIN rows optional, NULL comparisons not true).  Strings are compared for equality only and are represented by
# integer codes on both sides (MySQL collations are not modelled).

_EX = []


def _exec():
    if not _EX:
        _EX.append(sqlvc.Exec(inline_after=False))
    return _EX[0]


class Db:
    """the database as one request sees it (reads only: the statements under contract do not read their own writes)"""

    def __init__(self):
        self.ex = _exec()
        self.st = self.ex.new_state()

    def tab(self, name):
        return self.st.db.tab(name)

    # -- spec predicates, written from the property text directly over the tables (the oracle side)
    def member(self, batch_id, user):
        """rows b of batches and u of billing_project_users exist with b.id = batch_id, u.billing_project = b.billing_project,
        u.user_cs = user"""
        b, u = self.tab('batches'), self.tab('billing_project_users')
        bp = b.get([batch_id], 'billing_project')
        k = z3.Int(sqlvc.fresh('spec_member_key'))
        ucs = u.get([bp.v, k], 'user_cs')
        return z3.And(b.has([batch_id]), z3.Not(bp.n), z3.Exists([k], z3.And(u.has([bp.v, k]), z3.Not(ucs.n), ucs.v == user)))

    def owner(self, batch_id, user, live=True):
        """a row b of batches exists with b.id = batch_id, b.user = user (and, for live=True, b is not deleted)"""
        b = self.tab('batches')
        usr, dele = b.get([batch_id], 'user'), b.get([batch_id], 'deleted')
        return z3.And(b.has([batch_id]), z3.Not(usr.n), usr.v == user, *([z3.Not(dele.n), dele.v == 0] if live else []))


def _sql_text(node):
    a0 = node.args[0] if node.args else None
    if isinstance(a0, pyast.Constant) and isinstance(a0.value, str):
        return a0.value
    raise core.Undecided('embedded SQL at line %d is not a string literal' % node.lineno)


def _sv_of(v):
    if isinstance(v, bool):
        return sqlvc.lit(v)
    if isinstance(v, int):
        return sqlvc.lit(v)
    if v is None:
        return sqlvc.lit(None)
    if isinstance(v, z3.ExprRef) and z3.is_int(v):
        return sqlvc.SV(False, v)
    if isinstance(v, z3.ExprRef) and z3.is_bool(v):
        return sqlvc.SV(False, z3.If(v, z3.IntVal(1), z3.IntVal(0)))
    raise core.Undecided('query argument %r has no SQL encoding (declare it int in the contract)' % (v,))


def _from_items(f):
    if isinstance(f, A.Join):
        return _from_items(f.left) + _from_items(f.right)
    return [f]


def _unknown_columns(sel, tables):
    """names of the outer query block that no table of its FROM clause defines (MySQL: ER_BAD_FIELD_ERROR, the statement fails)"""
    cols = {}
    for it in _from_items(sel.from_):
        if isinstance(it, A.TableRef):
            if it.name not in tables:
                raise core.Undecided('unknown table %s' % it.name)
            cols[(it.alias or it.name).lower()] = {c.lower() for c in tables[it.name].columns}
        elif isinstance(it, A.SubqueryRef) and isinstance(it.select, A.Select):
            cols[(it.alias or '').lower()] = {(c.alias or (c.expr.parts[-1] if isinstance(c.expr, A.Name) else '')).lower() for c in it.select.columns}
        else:
            raise core.Undecided('FROM item %s' % type(it).__name__)
    bad = []

    def visit(e):
        if isinstance(e, (A.Select, A.Subquery, A.Exists, A.SubqueryRef)):
            return
        if isinstance(e, A.Name):
            parts = [p.lower() for p in e.parts]
            if len(parts) == 1 and parts[0] not in ('true', 'false') and not any(parts[0] in c for c in cols.values()):
                bad.append(e.parts[0])
            if len(parts) == 2 and (parts[0] not in cols or parts[1] not in cols[parts[0]]):
                bad.append('.'.join(e.parts))
            return
        for ch in e.children():
            visit(ch)

    for e in [sel.where] + [c.expr for c in sel.columns if not isinstance(c.expr, A.Star)]:
        if e is not None:
            visit(e)

    def joins(f):
        if isinstance(f, A.Join):
            if f.on is not None:
                visit(f.on)
            joins(f.left)
            joins(f.right)

    joins(sel.from_)
    return bad


TEXT_TYPES = ('VARCHAR', 'CHAR', 'TEXT', 'ENUM', 'BLOB', 'JSON', 'LONGTEXT', 'MEDIUMTEXT')


def _py_value(eng, tab, col, v):
    """a fetched column as a Python value: numbers stay integer / real terms; text (a string code on the SQL side) becomes an
    opaque Python value, so that comparing it with a string literal in the handler is left undetermined, never mis-decided"""
    ty = (tab.meta.columns[col].type or '').upper()
    if any(ty.startswith(t) for t in TEXT_TYPES):
        return eng.uf('sql_text', ['int'], 'U')(v)
    return v


def select_model(tag, on_row=None, on_query=None):
    """call model of db.select_and_fetchone / tx.execute_and_fetchone(sql, args): Fork into `a row` (the query's condition holds
    for some rows - its key variables stay free, i.e. existential, in the path condition), `no row` (it holds for no rows) and
    `statement fails`.  The SQL text and the argument tuple are those of the real call."""

    def model(eng, st, args, kw, node):
        sql = _sql_text(node)
        stn = sqlparse.parse_statement(sql)
        if isinstance(stn, (A.Insert, A.Update, A.Delete, A.Call)) and 'OWNER' in st.env:
            return _db_write(eng, st, args, kw, node)
        if not isinstance(stn, A.SelectStmt) or not isinstance(stn.select, A.Select):
            raise core.Undecided('%s: not a plain SELECT: %s' % (tag, ' '.join(sql.split())[:60]))
        sel = stn.select
        db = eng.db
        pyargs = args[2] if len(args) > 2 else ()
        if not isinstance(pyargs, tuple):
            pyargs = (pyargs,)
        nparams = len([n for n in stn.walk() if isinstance(n, A.Param)])
        if nparams != len(pyargs):
            raise core.Undecided('%s: %d placeholders but %d arguments' % (tag, nparams, len(pyargs)))
        fails = ('statement-fails', None, 'raise', SExc(term=z3.Const(pyvc.fresh_name('db_exc'), U)), None)
        if on_query is not None:
            on_query(eng, st, sel, pyargs, node)
        bad = _unknown_columns(sel, db.ex.tables)
        if bad:
            eng.ctx.notes.append('%s: the query at line %d names column(s) %s that no table of its FROM clause has (replayed schema): MySQL rejects the statement (ER_BAD_FIELD_ERROR) for every caller, so the only outcome modelled is the error' % (eng.label, node.lineno, bad))
            eng.broken_queries = getattr(eng, 'broken_queries', []) + [(node.lineno, bad)]
            raise Fork(node, [fails])
        if db.ex.has_aggregate(sel) and not sel.group_by:
            # an ungrouped aggregate (SUM / COUNT ...) answers exactly one row whatever the tables hold; its value plays no part
            # in who may do what and is left unconstrained
            row = SRecord('row', {(c.alias or 'col%d' % i_): z3.Int(pyvc.fresh_name('aggregate')) for i_, c in enumerate(sel.columns)})
            raise Fork(node, [('row', None, 'value', row, None), fails])
        for k_ in [k for k in db.st.uservars if k.startswith('%param')]:
            del db.st.uservars[k_]
        for i_, v in enumerate(pyargs):
            db.st.uservars['%%param%d' % i_] = _sv_of(v)
        try:
            aliases, cond, kv = db.ex.bind_from(sel.from_, sel.where, sqlvc.Scope(db.st), db.st)
            sc = sqlvc.Scope(db.st, aliases)
            row = SRecord('row', {})
            for i_, c in enumerate(sel.columns):
                if isinstance(c.expr, A.Star):
                    for al, ref in aliases.items():
                        if isinstance(ref, sqlvc.RowRef) and (c.expr.table is None or c.expr.table.lower() == al.lower()):
                            for cn in ref.tab.cols:
                                row.fields.setdefault(cn, _py_value(eng, ref.tab, cn, ref.col(cn).v))
                    continue
                nm = c.alias or (c.expr.parts[-1] if isinstance(c.expr, A.Name) else 'col%d' % i_)
                v = db.ex.ev(c.expr, sc).v
                if isinstance(c.expr, A.Name):
                    owners = [r.tab for al, r in aliases.items() if isinstance(r, sqlvc.RowRef) and c.expr.parts[-1] in r.tab.cols and (len(c.expr.parts) == 1 or c.expr.parts[0].lower() == al.lower())]
                    if len(owners) == 1:
                        v = _py_value(eng, owners[0], c.expr.parts[-1], v)
                row.fields[nm] = v
        except sqlvc.Undecided as e:
            raise core.Undecided('%s: query at line %d outside the sqlvc subset: %s' % (tag, node.lineno, e))
        none = z3.ForAll(kv, z3.Not(cond)) if kv else z3.Not(cond)

        def hit(s):
            if on_row is not None:
                on_row(eng, s, row, cond)

        raise Fork(node, [('row', cond, 'value', row, hit), ('no-row', none, 'value', None, None), fails])

    return model


def user_can_access():
    def setup(eng, st):
        eng.db = Db()
        st.env['MEMBER'] = eng.db.member(st.env['batch_id'], st.env['user'])

    return Contract(
        path=FE,
        qualname='_user_can_access',
        types={'db': 'U', 'batch_id': 'int', 'user': 'int', 'result': 'bool'},
        setup=setup,
        calls={'.select_and_fetchone': select_model('_user_can_access')},
        ensures=[
            ('true-only-for-a-member-of-the-batchs-billing-project', 'implies(result, MEMBER)'),
            ('every-member-of-the-batchs-billing-project-is-admitted', 'implies(MEMBER, result)'),
        ],
        raises={},
        canaries=[('nobody-is-ever-admitted', 'not result'), ('everybody-is-admitted', 'result')],
    )


def queries(ctx):
    c = user_can_access()
    c.raises.setdefault('*', True)
    e = pyvc.Engine(ctx, c)
    e.replayer = _native('membership')
    e.run()
    _strict(ctx, e, e.label)
    _emit_canaries(ctx, e)
    _allowed_calls(ctx, '_user_can_access', FE, '_user_can_access', ['db.select_and_fetchone'])


# ---------------------------------------------------------------------------------------------------------------------
# (2b) owner filters


def _db_methods():
    """public methods of gear.database.Database / Transaction (read from the real classes)"""
    tree = pyast.parse(core.read_repo('gear/gear/database.py'))
    out = set()
    for c in tree.body:
        if isinstance(c, pyast.ClassDef) and c.name in ('Database', 'Transaction'):
            out |= {f.name for f in c.body if isinstance(f, (pyast.FunctionDef, pyast.AsyncFunctionDef)) and not f.name.startswith('_') and not f.name.startswith('async_')}
    if 'select_and_fetchone' not in out or 'execute_insertone' not in out:
        raise core.Undecided('anchor-moved: gear.database.Database / Transaction')
    return out


READ_METHODS = ('select_and_fetchone', 'select_and_fetchall', 'execute_and_fetchone', 'execute_and_fetchall')
# helpers of front_end.py that change the database: reached only behind an owner gate (closed-world obligation below)
WRITERS = ('_create_jobs', '_create_job_groups', '_create_batch_update', '_commit_update')


def _walk_no_defs(node):
    """ast.walk that does not descend into nested function definitions (defining is not executing)"""
    stack = [node]
    while stack:
        n = stack.pop()
        yield n
        for ch in pyast.iter_child_nodes(n):
            if not isinstance(ch, (pyast.FunctionDef, pyast.AsyncFunctionDef, pyast.Lambda)):
                stack.append(ch)


def _db_calls(node, methods):
    return [n for n in _walk_no_defs(node) if isinstance(n, pyast.Call) and isinstance(n.func, pyast.Attribute) and n.func.attr in methods]


def _is_read(call):
    if call.func.attr not in READ_METHODS:
        return False
    try:
        stn = sqlparse.parse_statement(_sql_text(call))
    except Exception:
        return False
    return isinstance(stn, A.SelectStmt) and isinstance(stn.select, A.Select) and not stn.select.into


def _gate_prefix(ctx, tree, qualname):
    """(fragment, detail): the statements of the function from its first one up to the check that follows its first database
    statement.  Everything after the fragment runs only if the fragment completed normally."""
    fn = pyvc.find_function(tree, qualname)
    methods = _db_methods()
    body = [st for st in fn.body if not (isinstance(st, pyast.Expr) and isinstance(st.value, pyast.Constant))]
    gi = next((k for k, st in enumerate(body) if not isinstance(st, (pyast.FunctionDef, pyast.AsyncFunctionDef)) and _db_calls(st, methods)), None)
    if gi is None:
        raise core.Undecided('anchor-moved: %s has no database statement of its own' % qualname)
    calls = _db_calls(body[gi], methods)
    ctx.add(core.decided('%s/the-first-database-statement-is-a-read' % qualname, len(calls) == 1 and _is_read(calls[0]), pyast.unparse(calls[0].func) + ' at line %d' % calls[0].lineno, kind='scan'))
    end = gi
    for k in range(gi + 1, min(gi + 4, len(body))):
        if isinstance(body[k], pyast.If) and any(isinstance(n, pyast.Raise) for n in pyast.walk(body[k])):
            end = k
            break
    texts = [pyvc._header_text(x) for x in fn.body]
    first = pyvc._header_text(body[0])
    if texts.index(first) != fn.body.index(body[0]):
        raise core.Undecided('%s: first statement text is not unique' % qualname)
    return (first, end + 1), fn


def _int_model(eng, st, args, kw, node):
    v = args[0]
    if isinstance(v, (int, bool)):
        return int(v)
    if isinstance(v, z3.ExprRef) and z3.is_int(v):
        return v
    if isinstance(v, z3.ExprRef) and v.sort() == U:
        r = eng.uf('int_of_text', ['U'], 'int')(v)
        raise Fork(node, [('int-parses', None, 'value', r, None), ('int-fails', None, 'raise', SExc('ValueError'), None)])
    raise core.Undecided('int() of %r' % (v,))


def _fresh_u(base):
    return lambda eng, st, args, kw, node: z3.Const(pyvc.fresh_name(base), U)


CALLER = z3.Int('caller_username')  # userdata['username'] as a string code (strings are compared for equality only)
PATH_BATCH = z3.Const('path_batch_id', U)


def _path_batch_id(eng):
    return eng.uf('int_of_text', ['U'], 'int')(PATH_BATCH)


def _caller_userdata():
    return SRecord('dict', {'username': CALLER, 'hail_credentials_secret_name': z3.Const('ud_cred', U), 'tokens_secret_name': z3.Const('ud_tok', U), 'state': z3.Const('ud_state', U), 'is_developer': z3.Int('ud_is_developer'), '__tag__': 'the-userdata'})


def _app_model():
    return SRecord('dict', {'db': z3.Const('app_db', U), 'file_store': z3.Const('app_fs', U), 'frozen': z3.Bool('app_frozen'), '__tag__': 'the-app'})


def helper_gate_contracts(ctx, tree):
    """_create_jobs and _create_job_groups.insert: the prefix up to the owner gate, for all arguments"""

    def setup_jobs(eng, st):
        eng.db = Db()
        st.env['app'] = _app_model()
        st.env['userdata'] = _caller_userdata()
        st.env['OWNER'] = eng.db.owner(st.env['batch_id'], CALLER)

    frag, fn = _gate_prefix(ctx, tree, '_create_jobs')
    cj = Contract(
        path=FE, qualname='_create_jobs', label='_create_jobs[owner-gate]', fragment=frag,
        extra_inputs={'job_specs': 'List[U]', 'batch_id': 'int', 'update_id': 'int'},
        setup=setup_jobs,
        calls=dict(_db_write_models(), **{'.select_and_fetchone': select_model('_create_jobs')}),
        ensures=[('continues-only-for-the-owner-of-the-batch', 'OWNER')],
        raises={'HTTPNotFound': True, 'AssertionError': True},  # 404 also answers the owner when the update does not exist
        canaries=[('no-caller-gets-past-the-gate', 'not OWNER')],
    )

    def setup_groups(eng, st):
        eng.db = Db()
        st.env['OWNER'] = eng.db.owner(st.env['batch_id'], st.env['user'])

    frag2, fn2 = _gate_prefix(ctx, tree, '_create_job_groups.insert')
    cg = Contract(
        path=FE, qualname='_create_job_groups.insert', label='_create_job_groups.insert[owner-gate]', fragment=frag2,
        extra_inputs={'tx': 'U', 'job_group_specs': ('list', pyvc.rec_type(job_group_id='int')), 'batch_id': 'int', 'update_id': 'int', 'user': 'int'},
        setup=setup_groups,
        calls=dict(_db_write_models(), **{'.execute_and_fetchone': select_model('_create_job_groups.insert')}),
        ensures=[('continues-only-for-the-owner-of-the-batch', 'OWNER')],
        raises={'HTTPNotFound': True},
        canaries=[('no-caller-gets-past-the-gate', 'not OWNER')],
    )
    for c, f in ((cj, fn), (cg, fn2)):
        c.raises.setdefault('*', True)
        e = pyvc.Engine(ctx, c)
        e.replayer = _native('owner')
        e.run()
        _strict(ctx, e, e.label)
        _emit_canaries(ctx, e)
    # the transaction bodies are the only place where their outer functions touch the database
    methods = _db_methods()
    for outer in ('_create_job_groups', '_create_batch_update'):
        of = pyvc.find_function(tree, outer)
        own = [pyast.unparse(c.func) for st in of.body if not isinstance(st, (pyast.FunctionDef, pyast.AsyncFunctionDef)) for c in _db_calls(st, methods)]
        inner = [d for d in of.body if isinstance(d, (pyast.FunctionDef, pyast.AsyncFunctionDef))]
        ok = not own and len(inner) == 1 and [pyast.unparse(d) for d in inner[0].decorator_list] == ['transaction(db)']
        ctx.add(core.decided('%s/every-database-statement-is-inside-its-one-gated-transaction' % outer, ok, 'own=%r nested=%r' % (own, [d.name for d in inner]), kind='scan'))


def batch_update_contract():
    """_create_batch_update.update, whole body: every write and every normal return needs the owner row"""

    def setup(eng, st):
        eng.db = Db()
        db = eng.db
        st.env['OWNER'] = db.owner(st.env['batch_id'], st.env['user'])
        bu = db.tab('batch_updates')
        ks = [z3.Int(sqlvc.fresh('spec_upd_key')) for _ in bu.pk[1:]]
        tok = bu.get([st.env['batch_id']] + ks, 'token')
        st.env['TOKEN_ROW'] = z3.Exists(ks, z3.And(bu.has([st.env['batch_id']] + ks), z3.Not(tok.n), tok.v == st.env['update_token']))

    def write(eng, st, args, kw, node):
        eng.oblige(st, 'write/reached-only-for-the-owner-of-the-batch', st.env['OWNER'], line=node.lineno)
        st.env['n_writes'] = st.env['n_writes'] + 1
        return z3.Int(pyvc.fresh_name('insert_id'))

    return Contract(
        path=FE, qualname='_create_batch_update.update',
        types={'tx': 'U'},
        extra_inputs={'batch_id': 'int', 'update_token': 'int', 'n_jobs': 'int', 'n_job_groups': 'int', 'user': 'int'},
        setup=setup,
        ghost_init={'n_writes': '0'},
        consts={'ROOT_JOB_GROUP_ID': 0},
        calls={'.execute_and_fetchone': select_model('_create_batch_update.update'), '.execute_insertone': write, 'time_msecs': lambda eng, st, args, kw, node: z3.Int(pyvc.fresh_name('now')), 'int': _int_model},
        ensures=[
            ('returns-only-for-the-owner-of-the-batch-or-on-a-replayed-update-token', 'OWNER or TOKEN_ROW'),
            ('returns-only-for-the-owner-of-the-batch', 'OWNER'),
            ('without-the-owner-row-nothing-is-written', 'implies(not OWNER, n_writes == 0)'),
        ],
        on_raise=[('a-rejected-request-has-written-nothing', 'n_writes == 0')],
        raises={'HTTPNotFound': 'not OWNER', 'HTTPBadRequest': True, 'AssertionError': True},
        canaries=[('no-update-is-ever-created', 'n_writes == 0')],
    )


def _commit_model(batch_arg, user_arg):
    def model(eng, st, args, kw, node):
        eng.oblige(st, 'commit/names-the-batch-of-the-request', eng.equal(args[batch_arg], st.env['BATCH']) if len(args) > batch_arg and st.env.get('BATCH') is not None else False, line=node.lineno)
        eng.oblige(st, 'commit/reached-only-for-the-owner-of-the-batch', st.env['OWNER'], line=node.lineno)
        raise Fork(node, [('commit-done', None, 'value', None, lambda s: s.env.__setitem__('n_commits', s.env['n_commits'] + 1)), ('commit-fails', None, 'raise', SExc(term=z3.Const(pyvc.fresh_name('commit_exc'), U)), None)])

    return model


def _request_for_handlers(extra_match=()):
    r = _request_model()
    r.fields['app'] = _app_model()
    r.fields['match_info'] = SRecord('dict', dict({'batch_id': PATH_BATCH}, **{k: z3.Const('path_' + k, U) for k in extra_match}))
    r.fields['batch_telemetry'] = SRecord('dict', {})
    return r


def _handler_setup(extra_match=()):
    def setup(eng, st):
        eng.db = Db()
        st.env['request'] = _request_for_handlers(extra_match)
        st.env['userdata'] = _caller_userdata()
        st.env['BATCH'] = _path_batch_id(eng)  # the batch the request is about: int(request.match_info['batch_id'])
        st.env['OWNER'] = eng.db.owner(st.env['BATCH'], CALLER)

    return setup


def _db_write(eng, st, args, kw, node):
    """any statement-executing method of Database / Transaction that is not one of the reads modelled by select_model: treated
    as a write; allowed only once the owner row of the request's batch is established"""
    eng.oblige(st, 'write/reached-only-for-the-owner-of-the-batch', st.env['OWNER'], line=node.lineno)
    raise Fork(node, [('statement-done', None, 'value', z3.Const(pyvc.fresh_name('db_result'), U), None), ('statement-fails', None, 'raise', SExc(term=z3.Const(pyvc.fresh_name('db_exc'), U)), None)])


def _db_write_models():
    return {'.' + m: _db_write for m in _db_methods() if m not in READ_METHODS and m != 'start'}


def _validator(eng, st, args, kw, node):
    raise Fork(node, [('valid', None, 'value', None, None), ('invalid', None, 'raise', SExc('ValidationError'), None)])


def _helper_model(name, batch_arg, user_arg, result=None, grants='OWNER'):
    """a writing helper called by a route handler: the call must name the batch of the request path and the authenticated
    user; the helper returns normally only behind its own owner gate (its contract, proved separately)"""

    def model(eng, st, args, kw, node):
        eng.oblige(st, '%s/is-given-the-batch-id-of-the-request' % name, eng.equal(args[batch_arg], st.env['BATCH']) if len(args) > batch_arg and st.env.get('BATCH') is not None else False, line=node.lineno)
        a = args[user_arg] if len(args) > user_arg else None
        okuser = z3.BoolVal(_is(a, 'the-userdata')) if isinstance(a, SRecord) else (eng.equal(a, CALLER) if a is not None else z3.BoolVal(False))
        eng.oblige(st, '%s/is-given-the-authenticated-user' % name, okuser, line=node.lineno)
        res = result(eng) if result is not None else z3.Const(pyvc.fresh_name(name + '_result'), U)
        guarantee = st.env['OWNER'] if grants == 'OWNER' else z3.Or(st.env['OWNER'], z3.Bool('update_token_replayed'))

        def ret(s):
            s.assume(guarantee)
            s.env['n_helper_calls'] = s.env['n_helper_calls'] + 1

        raise Fork(node, [('%s-returns' % name, None, 'value', res, ret), ('%s-raises' % name, None, 'raise', SExc(term=z3.Const(pyvc.fresh_name(name + '_exc'), U)), None)])

    return model


def _update_ids(eng):
    return (z3.Int(pyvc.fresh_name('update_id')), z3.Int(pyvc.fresh_name('start_job_group_id')), z3.Int(pyvc.fresh_name('start_job_id')))


HELPERS = {
    '_create_jobs': _helper_model('_create_jobs', 2, 0),
    '_create_job_groups': _helper_model('_create_job_groups', 1, 3),
    # the handlers are checked against the helper's CONTRACT (it returns only for the owner of the batch); the helper's own
    # obligation _create_batch_update.update/post/returns-only-for-the-owner-of-the-batch decides whether its body meets it
    '_create_batch_update': _helper_model('_create_batch_update', 0, 4, result=_update_ids, grants='OWNER'),
    '_commit_update': _commit_model(1, 3),
}


def _json_body(shape):
    def model(eng, st, args, kw, node):
        if shape == 'list':
            v = pyvc.fresh_value(('list', 'U'), 'body')
            st.assume(v.len >= 0)
            return v
        upd = SRecord('dict', {'token': z3.Int('body_token'), 'n_jobs': z3.Int('body_n_jobs'), 'n_job_groups': z3.Int('body_n_job_groups'), 'has_n_job_groups': z3.Bool('body_has_n_job_groups')})
        if shape == 'update':
            return upd
        bunch, groups = pyvc.fresh_value(('list', 'U'), 'bunch'), pyvc.fresh_value(('list', 'U'), 'job_groups')
        st.assume(bunch.len >= 0)
        st.assume(groups.len >= 0)
        return SRecord('dict', {'update': upd, 'bunch': bunch, 'job_groups': groups, 'has_job_groups': z3.Bool('body_has_job_groups')})

    return model


def handler_contracts(tree):
    common = {'int': _int_model, 'str': _fresh_u('text'), 'json_response': _fresh_u('response'), 'web.Response': _fresh_u('response'),
              'validate_and_clean_jobs': _validator, 'validate_job_groups': _validator, 'validate_batch_update': _validator}
    common.update(HELPERS)
    common.update(_db_write_models())
    ghost = {'n_commits': '0', 'n_helper_calls': '0'}
    rz = {'HTTPBadRequest': True, 'HTTPServiceUnavailable': True, 'ValueError': True, 'AssertionError': True}

    def mk(name, shape, extra_match=(), **kw):
        return Contract(path=FE, qualname=name, setup=_handler_setup(extra_match), ghost_init=dict(ghost), calls=dict(common, json_request=_json_body(shape)), types={'.reason': 'U'}, **kw)

    cs = [
        mk('create_jobs', 'list', raises=rz, ensures=[('succeeds-only-through-the-gated-helper', 'n_helper_calls == 1 and OWNER')], canaries=[('never-succeeds', 'False')]),
        mk('create_jobs_for_update', 'list', ('update_id',), raises=rz, ensures=[('succeeds-only-through-the-gated-helper', 'n_helper_calls == 1 and OWNER')], canaries=[('never-succeeds', 'False')]),
        mk('create_job_groups', 'list', ('update_id',), raises=rz, ensures=[('succeeds-only-through-the-gated-helper', 'n_helper_calls == 1 and OWNER')], canaries=[('never-succeeds', 'False')]),
        mk('create_update', 'update', raises=rz, ensures=[('succeeds-only-through-the-gated-helper', 'n_helper_calls == 1'), ('succeeds-only-for-the-owner-of-the-batch', 'OWNER')], canaries=[('never-succeeds', 'False')]),
        mk('update_batch_fast', 'update+bunch', raises=rz, ensures=[('commits-at-most-once', 'n_commits <= 1')], canaries=[('never-commits', 'n_commits == 0')]),
    ]
    # the two handlers with their own gate query
    own = dict(common)
    own['.select_and_fetchone'] = select_model('handler')
    rz2 = dict(rz, HTTPNotFound='n_commits == 0')
    rz2['HTTPBadRequest'] = 'n_commits == 0'
    cs.append(Contract(path=FE, qualname='commit_update', setup=_handler_setup(('update_id',)), ghost_init=dict(ghost), calls=own, consts={'ROOT_JOB_GROUP_ID': 0}, raises=rz2,
                       ensures=[('succeeds-only-after-committing-for-the-owner', 'n_commits == 1 and OWNER')], canaries=[('never-commits', 'n_commits == 0')]))
    # close_batch (deprecated): if its gate query cannot execute at all (see _unknown_columns) there is no normal exit to state a
    # postcondition about; the call-site obligations of _commit_update stay in force either way
    dead = _has_unexecutable_query(tree, 'close_batch')
    cs.append(Contract(path=FE, qualname='close_batch', setup=_handler_setup(), ghost_init=dict(ghost), calls=own, consts={'ROOT_JOB_GROUP_ID': 0}, raises=rz2,
                       ensures=[] if dead else [('succeeds-only-for-the-owner', 'OWNER')], canaries=[] if dead else [('never-succeeds', 'False')]))
    return cs


def new_batch_handler_contracts():
    """create_batch / create_batch_fast: the batch the request is about is the one _create_batch returns for the authenticated
    user (contract of _create_batch, proved below: the returned id is a batch whose `user` is the caller); every later helper
    must be given that id and the caller"""
    NEW = z3.Int('created_batch_id')

    def setup(eng, st):
        eng.db = Db()
        st.env['request'] = _request_for_handlers()
        st.env['userdata'] = _caller_userdata()
        st.env['BATCH'] = None
        # what _create_batch.insert guarantees of the id it returns (its postcondition): a batch whose `user` is the caller; a
        # batch found again by its token may have been deleted meanwhile, the later gates (which demand NOT deleted) decide that
        st.env['OWNER'] = eng.db.owner(NEW, CALLER, live=False)

    def create_batch_model(eng, st, args, kw, node):
        eng.oblige(st, '_create_batch/is-given-the-authenticated-userdata', len(args) == 3 and _is(args[1], 'the-userdata'), line=node.lineno)
        eng.oblige(st, '_create_batch/called-before-any-other-helper', st.env['n_helper_calls'] == 0 and st.env['n_commits'] == 0, line=node.lineno)

        def ret(s):
            s.env['BATCH'] = NEW
            s.assume(s.env['OWNER'])

        raise Fork(node, [('_create_batch-returns', None, 'value', NEW, ret), ('_create_batch-raises', None, 'raise', SExc(term=z3.Const(pyvc.fresh_name('create_exc'), U)), None)])

    def body(shape):
        def model(eng, st, args, kw, node):
            spec = SRecord('dict', {'token': z3.Int('body_token'), 'n_jobs': z3.Int('body_n_jobs'), 'n_job_groups': z3.Int('body_n_job_groups'), 'has_n_job_groups': z3.Bool('body_has_n_job_groups'), 'billing_project': z3.Int('body_billing_project')})
            if shape == 'batch':
                return spec
            bunch, groups = pyvc.fresh_value(('list', 'U'), 'bunch'), pyvc.fresh_value(('list', 'U'), 'job_groups')
            st.assume(bunch.len >= 0)
            st.assume(groups.len >= 0)
            return SRecord('dict', {'batch': spec, 'bunch': bunch, 'job_groups': groups, 'has_job_groups': z3.Bool('body_has_job_groups')})

        return model

    common = {'int': _int_model, 'str': _fresh_u('text'), 'json_response': _fresh_u('response'), 'validate_and_clean_jobs': _validator, 'validate_job_groups': _validator, 'validate_batch': _validator, '_create_batch': create_batch_model}
    common.update(HELPERS)
    rz = {'HTTPBadRequest': True, 'ValueError': True, 'AssertionError': True}
    out = []
    for name, shape in (('create_batch', 'batch'), ('create_batch_fast', 'batch+bunch')):
        out.append(Contract(path=FE, qualname=name, setup=setup, ghost_init={'n_commits': '0', 'n_helper_calls': '0'}, calls=dict(common, json_request=body(shape)), types={'.reason': 'U'}, raises=rz,
                            ensures=[('succeeds-only-with-a-batch-of-the-caller', 'BATCH is not None and OWNER')], canaries=[('never-succeeds', 'False')]))
    return out


def create_batch_contracts(ctx, tree):
    """_create_batch: (outer) the closure variables of the transaction are the caller's name and the requested billing project
    and token; (insert) a batch row is only inserted for the caller, into the billing project whose membership was checked, and
    the id returned is that of a batch whose `user` is the caller"""
    fn = pyvc.find_function(tree, '_create_batch')
    k = next((i for i, st_ in enumerate(fn.body) if isinstance(st_, (pyast.FunctionDef, pyast.AsyncFunctionDef))), None)
    tail = [pyast.unparse(x) for x in fn.body[k + 1:]] if k is not None else None
    inner = fn.body[k] if k is not None else None
    rebound = [n.id for n in pyast.walk(inner) if isinstance(n, pyast.Name) and isinstance(n.ctx, (pyast.Store, pyast.Del)) and n.id in ('user', 'billing_project', 'token', 'userdata')] if inner is not None else ['?']
    nonloc = [n for n in pyast.walk(inner) if isinstance(n, (pyast.Nonlocal, pyast.Global))] if inner is not None else ['?']
    ok = k is not None and k > 0 and inner.name == 'insert' and [pyast.unparse(d) for d in inner.decorator_list] == ['transaction(db)'] and tail == ['return await insert()'] and not rebound and not nonloc
    ctx.add(core.decided('_create_batch/runs-one-transaction-over-its-closure-and-returns-its-result', ok, 'tail=%r rebound=%r' % (tail, rebound), kind='scan'))
    if not ok:
        return

    def setup_outer(eng, st):
        st.env['userdata'] = _caller_userdata()
        st.env['batch_spec'] = SRecord('dict', {'billing_project': z3.Int('body_billing_project'), 'token': z3.Int('body_token')})
        st.env['CALLER'], st.env['REQ_BP'], st.env['REQ_TOKEN'] = CALLER, z3.Int('body_billing_project'), z3.Int('body_token')

    outer = Contract(
        path=FE, qualname='_create_batch', label='_create_batch[closure]', fragment=(pyvc._header_text(fn.body[0]), k),
        extra_inputs={'db': 'U'}, setup=setup_outer,
        ensures=[('the-transaction-sees-the-callers-name-and-the-requested-project-and-token', 'user == CALLER and billing_project == REQ_BP and token == REQ_TOKEN')],
        raises={}, canaries=[('never-gets-here', 'False')],
    )

    def owned(eng, st, args, kw, node):
        b = eng.db.tab('batches')
        i_ = pyvc.to_z3(args[0], 'int')
        u = b.get([i_], 'user')
        return z3.And(b.has([i_]), z3.Not(u.n), u.v == st.env['user'])

    def setup_inner(eng, st):
        eng.db = Db()
        db = eng.db
        st.env['userdata'] = _caller_userdata()
        st.env['batch_spec'] = SRecord('dict', {'billing_project': st.env['billing_project'], 'token': st.env['token']})
        st.env['owned_by_the_caller'] = pyvc.SFunc('owned_by_the_caller', owned)
        bp, bpu = db.tab('billing_projects'), db.tab('billing_project_users')
        kp, ku = z3.Int(sqlvc.fresh('spec_project')), z3.Int(sqlvc.fresh('spec_member'))
        ncs, ucs = bp.get([kp], 'name_cs'), bpu.get([kp, ku], 'user_cs')
        st.env['PROJECT_MEMBER'] = z3.Exists([kp, ku], z3.And(bp.has([kp]), z3.Not(ncs.n), ncs.v == st.env['billing_project'], bpu.has([kp, ku]), z3.Not(ucs.n), ucs.v == st.env['user']))

    def insert_batch(eng, st, args, kw, node):
        stn = sqlparse.parse_statement(_sql_text(node))
        vals = args[2] if len(args) > 2 else None
        if not isinstance(stn, A.Insert) or not isinstance(vals, tuple) or len(vals) != len(stn.columns):
            raise core.Undecided('_create_batch.insert: unexpected write at line %d' % node.lineno)
        row = dict(zip(stn.columns, vals))
        eng.oblige(st, 'insert/writes-the-batches-table-only', z3.BoolVal(stn.table == 'batches' and not stn.on_duplicate), line=node.lineno)
        eng.oblige(st, 'insert/the-new-batch-belongs-to-the-caller', eng.equal(row['user'], st.env['user']) if 'user' in row else False, line=node.lineno)
        eng.oblige(st, 'insert/the-new-batch-is-in-the-billing-project-that-was-asked-for', eng.equal(row['billing_project'], st.env['billing_project']) if 'billing_project' in row else False, line=node.lineno)
        eng.oblige(st, 'insert/only-into-a-billing-project-the-caller-belongs-to', st.env['PROJECT_MEMBER'], line=node.lineno)
        eng.oblige(st, 'insert/at-most-one-batch-per-request', st.env['n_inserts'] == 0, line=node.lineno)
        st.env['n_inserts'] = st.env['n_inserts'] + 1
        st.env['INSERTED_ID'] = z3.Int('inserted_batch_id')
        return st.env['INSERTED_ID']

    def root_group(eng, st, args, kw, node):
        eng.oblige(st, 'root-job-group/created-for-the-new-batch-and-the-caller', z3.And(eng.equal(kw.get('batch_id'), st.env['INSERTED_ID']), eng.equal(kw.get('user'), st.env['user'])) if st.env.get('INSERTED_ID') is not None and 'batch_id' in kw and 'user' in kw else False, line=node.lineno)
        raise Fork(node, [('group-created', None, 'value', None, None), ('group-fails', None, 'raise', SExc(term=z3.Const(pyvc.fresh_name('group_exc'), U)), None)])

    inner_c = Contract(
        path=FE, qualname='_create_batch.insert',
        types={'tx': 'U'},
        extra_inputs={'user': 'int', 'billing_project': 'int', 'token': 'int', 'attributes': 'U'},
        setup=setup_inner,
        ghost_init={'n_inserts': '0', 'INSERTED_ID': 'None'},
        consts={'ROOT_JOB_GROUP_ID': 0},
        calls={'.execute_and_fetchone': select_model('_create_batch.insert'), '.execute_insertone': insert_batch, '_create_job_group': root_group, 'time_msecs': lambda eng, st, args, kw, node: z3.Int(pyvc.fresh_name('now')),
               'json.dumps': _fresh_u('json'), 'cost_str': _fresh_u('cost')},
        ensures=[('returns-a-batch-of-the-caller', '(n_inserts == 1 and result == INSERTED_ID) or (n_inserts == 0 and owned_by_the_caller(result))')],
        raises={'HTTPForbidden': 'n_inserts == 0'},
        canaries=[('no-batch-is-ever-created', 'n_inserts == 0')],
    )
    for c in (outer, inner_c):
        c.raises.setdefault('*', True)
        e = pyvc.Engine(ctx, c)
        e.replayer = _native('owner')
        e.run()
        _strict(ctx, e, e.label)
        _emit_canaries(ctx, e)


def _has_unexecutable_query(tree, qualname):
    fn = pyvc.find_function(tree, qualname)
    tables = _exec().tables
    for c in _db_calls(fn, _db_methods()):
        try:
            stn = sqlparse.parse_statement(_sql_text(c))
        except Exception:
            continue
        if isinstance(stn, A.SelectStmt) and isinstance(stn.select, A.Select) and stn.select.from_ is not None and _unknown_columns(stn.select, tables):
            return True
    return False


def owner_filters(ctx):
    tree = pyast.parse(core.read_repo(FE))
    helper_gate_contracts(ctx, tree)
    create_batch_contracts(ctx, tree)
    c = batch_update_contract()
    c.raises.setdefault('*', True)
    e = pyvc.Engine(ctx, c)
    e.replayer = _native('update')
    e.run()
    _strict(ctx, e, e.label)
    _emit_canaries(ctx, e)
    broken = []
    for c in handler_contracts(tree) + new_batch_handler_contracts():
        c.raises.setdefault('*', True)
        e = pyvc.Engine(ctx, c)
        e.replayer = _native({'update_batch_fast': 'token-replay', 'create_update': 'token-replay-ids'}.get(c.qualname, 'owner'))
        e.run()
        _strict(ctx, e, e.label)
        _emit_canaries(ctx, e)
        broken.extend((c.qualname, ln, cols) for ln, cols in getattr(e, 'broken_queries', []))
    ctx.extra['queries_that_cannot_execute'] = sorted(set('%s line %d: unknown column(s) %s' % b for b in broken))
    # closed world: the writing helpers are called only from functions under the contracts above
    allowed = set(OWNER_HANDLERS) | set(NEW_BATCH_HANDLERS)
    callers = {}
    for fn in pyast.walk(tree):
        if isinstance(fn, (pyast.FunctionDef, pyast.AsyncFunctionDef)):
            for n in _walk_no_defs(fn):
                if isinstance(n, pyast.Call) and isinstance(n.func, pyast.Name) and n.func.id in WRITERS and n is not fn:
                    callers.setdefault(n.func.id, set()).add(fn.name)
    stray = {w: sorted(c - allowed) for w, c in callers.items() if c - allowed}
    ctx.add(core.decided('closed-world/the-writing-helpers-are-called-only-by-handlers-under-contract', not stray and set(callers) == set(WRITERS), 'callers=%r' % {k: sorted(v) for k, v in callers.items()}, kind='scan'))
    refs = [n for n in pyast.walk(tree) if isinstance(n, pyast.Name) and n.id in WRITERS and isinstance(n.ctx, pyast.Load)]
    ncalls = sum(1 for n in pyast.walk(tree) if isinstance(n, pyast.Call) and isinstance(n.func, pyast.Name) and n.func.id in WRITERS)
    ctx.add(core.decided('closed-world/the-writing-helpers-are-never-passed-around', len(refs) == ncalls, '%d references, %d calls' % (len(refs), ncalls), kind='scan'))


# ---------------------------------------------------------------------------------------------------------------------
# (2c) billing-project listings.  "only developers or the auth service can administer billing projects" and "a user can read
# ... billing only if they belong to the billing project": the listing helpers of batch/utils.py answer EVERY project (with
# its members and accrued cost) when asked without a user name, so the handlers that are open to every authenticated user may
# ask without a name only for a developer or the auth service, and otherwise must ask for the caller's own name.

LISTING_HELPERS = ('query_billing_projects_with_cost', 'query_billing_projects_without_cost')


def _listing_callers(tree):
    """{function name: [call nodes]} for every module-level function of front_end.py that calls a listing helper"""
    out = {}
    for fn in tree.body:
        if isinstance(fn, (pyast.FunctionDef, pyast.AsyncFunctionDef)):
            cs = [n for n in pyast.walk(fn) if isinstance(n, pyast.Call) and isinstance(n.func, pyast.Name) and n.func.id in LISTING_HELPERS]
            if cs:
                out[fn.name] = cs
    return out


def _stmt_prefix_through(fn, call):
    """fragment (first statement text, count) of fn's top-level statements up to and including the one that contains `call`"""
    body = [st for st in fn.body if not (isinstance(st, pyast.Expr) and isinstance(st.value, pyast.Constant))]
    k = next((i for i, st in enumerate(body) if any(n is call for n in pyast.walk(st))), None)
    if k is None or not body:
        raise core.Undecided('anchor-moved: listing call of %s is not in a top-level statement' % fn.name)
    return (pyvc._header_text(body[0]), k + 1)


def billing_listing_contract(name, frag, dev_repr):
    def setup(eng, st):
        st.env['request'] = _request_for_handlers(('billing_project',))
        st.env['userdata'] = st.env['USERDATA'] = _userdata_model(dev_repr)
        st.assume(z3.Not(eng.is_none(st.env['USERDATA'].fields['username'])))  # gear.auth.UserData: username is text (assumption recorded in build())

    def listing(eng, st, args, kw, node):
        ud = st.env['USERDATA']
        eng.oblige(st, 'listing/asks-the-application-database', len(args) >= 1 and isinstance(args[0], z3.ExprRef) and args[0].eq(z3.Const('app_db', U)), line=node.lineno)
        extra = [k for k in kw if k not in ('user', 'billing_project')]
        if len(args) > 3 or extra or (len(args) > 1 and 'user' in kw):
            raise core.Undecided('%s: listing helper called with arguments the contract does not know' % name)
        u = args[1] if len(args) > 1 else kw.get('user')
        privileged = z3.Or(_truthy_dev(eng, ud), eng.equal(ud.fields['username'], 'auth'))
        eng.oblige(st, 'listing/without-a-user-name-only-for-a-developer-or-the-auth-service', z3.Or(privileged, z3.Not(eng.is_none(u))), line=node.lineno)
        eng.oblige(st, 'listing/otherwise-restricted-to-the-callers-own-name', z3.Or(privileged, eng.equal(u, ud.fields['username'])), line=node.lineno)
        eng.oblige(st, 'listing/asked-at-most-once', st.env['n_listings'] == 0, line=node.lineno)
        restricted = z3.Not(eng.is_none(u))

        def done(s):
            s.env['n_listings'] = s.env['n_listings'] + 1
            s.env['RESTRICTED'] = restricted

        raise Fork(node, [('listing-answers', None, 'value', z3.Const(pyvc.fresh_name('billing_projects'), U), done), ('listing-fails', None, 'raise', SExc(term=z3.Const(pyvc.fresh_name('db_exc'), U)), None)])

    return Contract(
        path=FE, qualname=name, label='%s[is_developer:%s]' % (name, dev_repr), fragment=frag,
        setup=setup,
        requires=INNER_REQUIRES,
        ghost_init={'n_listings': '0', 'RESTRICTED': 'False'},
        consts={'__bool_identity__': True, '__text_operands__': True},
        calls={h: listing for h in LISTING_HELPERS},
        ensures=[('the-listing-helper-was-asked', 'n_listings == 1')],
        raises={},
        canaries=[('the-listing-is-never-restricted', 'not RESTRICTED')] + ([('the-listing-is-always-restricted', 'RESTRICTED')] if dev_repr != 'null' else []),
    )


def billing_listings(ctx):
    tree = pyast.parse(core.read_repo(FE))
    callers = _listing_callers(tree)
    routes = {fn.name: (v, p, fn) for v, p, fn in enumerate_routes(tree)}
    under = []
    for name, calls in sorted(callers.items()):
        prot = protection_of(routes[name][2])[0] if name in routes else None
        if prot in ('dev', 'dev_or_auth'):
            continue  # reached only by developers / the auth service (wrapper contract + route table): any listing is theirs to see
        ctx.add(core.decided('billing-listing/%s/asks-the-listing-helper-in-one-place' % name, len(calls) == 1, '%d calls' % len(calls), kind='scan'))
        if len(calls) != 1:
            continue
        fn = pyvc.find_function(tree, name)
        frag = _stmt_prefix_through(fn, calls[0])
        for r in DEV_REPRS:
            c = billing_listing_contract(name, frag, r)
            c.raises.setdefault('*', True)
            e = pyvc.Engine(ctx, c)
            e.replayer = _native('billing-listing')
            e.run()
            _strict(ctx, e, e.label)
            _emit_canaries(ctx, e)
        under.append(name)
    ctx.extra['billing_listing_handlers_under_contract'] = under
    ctx.add(core.decided('billing-listing/vacuity/some-handler-open-to-every-user-lists-billing-projects', len(under) >= 2, repr(under), kind='vacuity'))
    # closed world: the helpers are only ever called (never passed around), and only from module-level functions (the ones above)
    refs = [n for n in pyast.walk(tree) if isinstance(n, pyast.Name) and n.id in LISTING_HELPERS and isinstance(n.ctx, pyast.Load)]
    ncalls = sum(len(v) for v in callers.values())
    ctx.add(core.decided('billing-listing/closed-world/the-listing-helpers-are-only-called-from-functions-under-contract-or-developer-routes', len(refs) == ncalls and all(n in routes for n in callers), '%d references, %d calls in %r' % (len(refs), ncalls, sorted(callers)), kind='scan'))


# ---------------------------------------------------------------------------------------------------------------------
# (2d) reads inside batch-scoped handlers: "a user can read ... a batch (and its jobs, groups, LOGS and BILLING) only if they
# belong to the batch's billing project".  billing_project_users_only checked ONE batch id; what the handler then reads must be
# keyed by that id: a query answers only rows of that batch (its WHERE has a top-level conjunct `<key> = %s` whose placeholder
# is bound - by the real argument tuple, evaluated symbolically - to the checked id), and a job log is fetched from the worker /
# the log store only for that batch, the job of the request and a container that is one of the job's own tasks.


def _conjuncts(e, out):
    if isinstance(e, A.BinOp) and e.op.upper() == 'AND':
        _conjuncts(e.left, out)
        _conjuncts(e.right, out)
    elif e is not None:
        out.append(e)
    return out


def _pinned(sel):
    """{'table.column' | 'column': placeholder index} for every top-level conjunct `name = %s` of the WHERE of a query block: the
    rows the block answers all carry the bound value in that column"""
    out = {}
    if not isinstance(sel, A.Select) or isinstance(sel.where, A.Hole):
        return out
    for c in _conjuncts(sel.where, []):
        if isinstance(c, A.BinOp) and c.op == '=':
            for a, b in ((c.left, c.right), (c.right, c.left)):
                if isinstance(a, A.Name) and isinstance(b, A.Param):
                    out.setdefault('.'.join(a.lower), b.index)
    return out


def _select_of(sql, what):
    try:
        stn = sqlparse.parse_statement(sql)
    except Exception as ex:  # pylint: disable=broad-except
        raise core.Undecided('%s: statement not parsed: %s' % (what, ex))
    if not isinstance(stn, A.SelectStmt) or not isinstance(stn.select, A.Select):
        raise core.Undecided('%s: not a plain SELECT' % what)
    return stn.select


def _concrete_list(v, what):
    """the elements (z3 terms) of a list whose length is a numeral on this path"""
    if isinstance(v, tuple):
        return list(v)
    if isinstance(v, pyvc.SList):
        n = z3.simplify(v.len) if isinstance(v.len, z3.ExprRef) else z3.IntVal(v.len)
        if not z3.is_int_value(n):
            raise core.Undecided('%s: list of symbolic length' % what)
        return [pyvc.from_z3(z3.simplify(z3.Select(v.arr, i)), v.et) for i in range(n.as_long())]
    raise core.Undecided('%s: not a list' % what)


def _concrete_text(v, what):
    if isinstance(v, str):
        return v
    if isinstance(v, z3.ExprRef):
        v = z3.simplify(v)
        if z3.is_string_value(v):
            return v.as_string()
    raise core.Undecided('%s: text is not determined on this path' % what)


def job_record_contract():
    """_get_job_record(app, batch_id, job_id): the one row it answers is a job of THAT batch with THAT job id"""

    def setup(eng, st):
        st.env['app'] = _app_model()

    def read(eng, st, args, kw, node):
        sel = _select_of(_sql_text(node), '_get_job_record')
        pins = _pinned(sel)
        pyargs = args[2] if len(args) > 2 else ()
        pyargs = pyargs if isinstance(pyargs, tuple) else (pyargs,)
        eng.oblige(st, 'query/asks-the-application-database', isinstance(args[0], z3.ExprRef) and args[0].eq(z3.Const('app_db', U)), line=node.lineno)
        for key, want, nm in (('jobs.batch_id', st.env['batch_id'], 'answers-only-a-job-of-the-batch-it-was-asked-for'), ('jobs.job_id', st.env['job_id'], 'answers-only-the-job-it-was-asked-for')):
            i_ = pins.get(key)
            eng.oblige(st, 'query/' + nm, eng.equal(pyargs[i_], want) if i_ is not None and i_ < len(pyargs) else False, line=node.lineno)
        eng.oblige(st, 'query/asked-once', st.env['n_reads'] == 0, line=node.lineno)
        row = SRecord('dict', {'__tag__': 'the-record'})

        def got(s):
            s.env['n_reads'] = s.env['n_reads'] + 1
            s.env['ROW'] = True

        raise Fork(node, [('row', None, 'value', row, got), ('no-row', None, 'value', None, lambda s: s.env.__setitem__('n_reads', s.env['n_reads'] + 1)), ('statement-fails', None, 'raise', SExc(term=z3.Const(pyvc.fresh_name('db_exc'), U)), None)])

    return Contract(
        path=FE, qualname='_get_job_record', types={'app': 'U', 'batch_id': 'int', 'job_id': 'int'}, setup=setup,
        ghost_init={'n_reads': '0', 'ROW': 'False'},
        calls={'.select_and_fetchone': read, 'is_the_record': lambda eng, st, args, kw, node: z3.BoolVal(_is(args[0], 'the-record'))},
        ensures=[('returns-the-row-of-that-query', 'n_reads == 1 and ROW and is_the_record(result)')],
        raises={'HTTPNotFound': 'n_reads == 1 and not ROW'},
        canaries=[('no-job-is-ever-found', 'False')],
    )


TASK_NAMES = ('input', 'main', 'output')  # the containers of a job; plain names (no separator, no dot segment)


def job_tasks_contract():
    """job_tasks_from_spec(record): only ever answers the three container names"""

    def setup(eng, st):
        st.env['record'] = SRecord('dict', {'format_version': z3.Const('rec_format_version', U), 'spec': z3.Const('rec_spec', U)})

    def flag(eng, st, args, kw, node):
        return z3.Bool(pyvc.fresh_name('spec_has_files'))

    return Contract(
        path=FE, qualname='job_tasks_from_spec', setup=setup, types={'result': 'List[U]'}, opaque_methods=True,  # anything else it asks of the spec is havocked and reported by the frame obligation
        calls={'BatchFormatVersion': _fresh_u('format'), 'json.loads': _fresh_u('spec'), 'batch_format_version.get_spec_has_input_files': flag, 'batch_format_version.get_spec_has_output_files': flag},
        ensures=[('answers-only-the-container-names-of-a-job', "all(t in ('input', 'main', 'output') for t in result)"), ('a-job-always-has-its-main-container', "'main' in result")],
        raises={},
        canaries=[('never-answers-an-input-container', "not ('input' in result)")],
    )


def _free_names(fn):
    params = {a.arg for a in fn.args.posonlyargs + fn.args.args + fn.args.kwonlyargs}
    stored = {n.id for n in pyast.walk(fn) if isinstance(n, pyast.Name) and isinstance(n.ctx, (pyast.Store, pyast.Del))}
    return {n.id for n in pyast.walk(fn) if isinstance(n, pyast.Name) and isinstance(n.ctx, pyast.Load)} - params - stored


def container_log_contract(tree):
    """get_job_container_log(request, batch_id) with the REAL body of _get_job_container_log (and has_resource_available,
    attempt_id_from_spec) executed in place: wherever the membership test sits, a log is only fetched for the checked batch, the
    job of the request path and a container that job_tasks_from_spec(record) answers"""
    BATCH = z3.Int('checked_batch_id')
    JOB = lambda eng: eng.uf('int_of_text', ['U'], 'int')(z3.Const('path_job_id', U))  # noqa: E731
    TASKS = pyvc.fresh_value(('map', 'U', 'bool'), 'tasks_of_the_record')
    record = SRecord('dict', {'state': z3.Const('rec_state', U), 'ip_address': z3.Const('rec_ip', U), 'format_version': z3.Const('rec_format_version', U), 'spec': z3.Const('rec_spec', U),
                              'attempt_id': z3.Const('rec_attempt', U), 'last_cancelled_attempt_id': z3.Const('rec_last_cancelled', U), '__tag__': 'the-record'})
    inlined = {}
    for nm in ('_get_job_container_log', 'has_resource_available', 'attempt_id_from_spec'):
        f = pyvc.find_function(tree, nm)
        inlined[nm] = f

    def setup(eng, st):
        r = _request_for_handlers(('job_id', 'container'))
        r.fields['app'].fields['client_session'] = z3.Const('app_client_session', U)
        st.env['request'] = r
        st.env['batch_id'] = BATCH
        st.env['CommonAiohttpAppKeys'] = SRecord('namespace', {'CLIENT_SESSION': 'client_session'})
        local = {n.id for n in pyast.walk(eng.fn) if isinstance(n, pyast.Name) and isinstance(n.ctx, pyast.Store)} | {a.arg for a in eng.fn.args.args}
        for nm, f in inlined.items():
            clash = _free_names(f) & local
            if clash:
                raise core.Undecided('%s executed in place would see locals %r of its caller' % (nm, sorted(clash)))

    def inline(nm):
        return lambda eng, st, args, kw, node: eng.call_localdef(inlined[nm], node, st, allow_async=True)

    def get_record(eng, st, args, kw, node):
        ok = len(args) == 3 and _is(args[0], 'the-app')
        eng.oblige(st, 'record/read-for-the-batch-that-was-checked', eng.equal(args[1], BATCH) if ok else False, line=node.lineno)
        eng.oblige(st, 'record/read-for-the-job-of-the-request-path', eng.equal(args[2], JOB(eng)) if ok else False, line=node.lineno)
        raise Fork(node, [('record-found', None, 'value', record, lambda s: s.env.__setitem__('n_records', s.env['n_records'] + 1)), ('no-such-job', None, 'raise', SExc('HTTPNotFound'), None), ('statement-fails', None, 'raise', SExc(term=z3.Const(pyvc.fresh_name('db_exc'), U)), None)])

    def tasks(eng, st, args, kw, node):
        eng.oblige(st, 'tasks/asked-of-the-record-that-was-read', len(args) == 1 and _is(args[0], 'the-record'), line=node.lineno)
        return TASKS

    def sink(name, b_, j_, c_):
        def model(eng, st, args, kw, node):
            n = len(args)
            eng.oblige(st, '%s/names-the-batch-that-was-checked' % name, eng.equal(args[b_], BATCH) if n > b_ else False, line=node.lineno)
            eng.oblige(st, '%s/names-the-job-of-the-request-path' % name, eng.equal(args[j_], JOB(eng)) if n > j_ else False, line=node.lineno)
            eng.oblige(st, '%s/names-a-container-of-that-job' % name, z3.Select(TASKS.has, pyvc.to_z3(args[c_], 'U')) if n > c_ else False, line=node.lineno)
            eng.oblige(st, '%s/reached-only-with-the-record-of-that-job' % name, st.env['n_records'] == 1, line=node.lineno)
            raise Fork(node, [('log-read', None, 'value', z3.Const(pyvc.fresh_name('log_bytes'), U), lambda s: s.env.__setitem__('n_logs', s.env['n_logs'] + 1)), ('log-read-fails', None, 'raise', SExc(term=z3.Const(pyvc.fresh_name('io_exc'), U)), None)])

        return model

    calls = {'int': _int_model, '_get_job_record': get_record, 'job_tasks_from_spec': tasks, 'web.Response': _fresh_u('response'), 'BatchFormatVersion': _fresh_u('format'),
             '_get_job_container_log_from_worker': sink('worker-log', 1, 2, 3), '_read_job_container_log_from_cloud_storage': sink('stored-log', 2, 3, 4)}
    calls.update({nm: inline(nm) for nm in inlined})
    gl = module_constants_of('batch/batch/globals.py')
    return Contract(
        path=FE, qualname='get_job_container_log', label='get_job_container_log[with _get_job_container_log in place]', setup=setup,
        ghost_init={'n_records': '0', 'n_logs': '0'},
        consts={'complete_states': gl.get('complete_states', ())},
        calls=calls,
        ensures=[('answers-at-most-one-log', 'n_logs <= 1')],
        raises={'HTTPNotFound': True, 'HTTPBadRequest': 'n_logs == 0', 'ValueError': 'n_logs == 0', 'AssertionError': 'n_logs == 0'},
        canaries=[('no-log-is-ever-read', 'n_logs == 0')],
    )


def module_constants_of(path):
    return pyvc.module_constants(pyast.parse(core.read_repo(path)))


def _calls_of(tree, name):
    """[(enclosing module-level function, call node)] for every call of the module-level function `name`"""
    out = []
    for fn in tree.body:
        if isinstance(fn, (pyast.FunctionDef, pyast.AsyncFunctionDef)):
            out += [(fn, n) for n in pyast.walk(fn) if isinstance(n, pyast.Call) and isinstance(n.func, pyast.Name) and n.func.id == name]
    return out


def _only_called(tree, name):
    refs = [n for n in pyast.walk(tree) if isinstance(n, pyast.Name) and n.id == name and isinstance(n.ctx, pyast.Load)]
    return len(refs) == len(_calls_of(tree, name))


def _arg_names(call):
    return [a.id if isinstance(a, pyast.Name) else pyast.unparse(a) for a in call.args] + ['%s=%s' % (k.arg, pyast.unparse(k.value)) for k in call.keywords]


def _never_rebound(fn, names):
    return not [n for n in pyast.walk(fn) if isinstance(n, pyast.Name) and n.id in names and isinstance(n.ctx, (pyast.Store, pyast.Del))]


def billing_jobs_query_contract(tree):
    """_query_batch_jobs_for_billing(request, batch_id), from its first statement up to the first database statement: on every
    path the statement text (the real f-string with the real list of conditions of that path) pins jobs.batch_id to a
    placeholder that the real argument tuple binds to the batch id that was checked"""
    fn = pyvc.find_function(tree, '_query_batch_jobs_for_billing')
    methods = _db_methods()
    body = [st for st in fn.body if not (isinstance(st, pyast.Expr) and isinstance(st.value, pyast.Constant))]
    k = next((i for i, st in enumerate(body) if _db_calls(st, methods) or any(isinstance(n, (pyast.ListComp, pyast.AsyncFor)) and _db_calls_deep(n, methods) for n in pyast.walk(st))), None)
    if not k:
        raise core.Undecided('anchor-moved: _query_batch_jobs_for_billing has no database statement after a prefix')
    calls = _db_calls_deep(body[k], methods)
    if len(calls) != 1 or len(calls[0].args) < 2:
        raise core.Undecided('_query_batch_jobs_for_billing: first database statement not understood')
    call = calls[0]
    template, arg_tuple = _sql_template(fn, call.args[0]), call.args[1]

    def setup(eng, st):
        r = _request_for_handlers()
        st.env['request'] = r

    def query_get(eng, st, args, kw, node):
        key = args[0] if args and isinstance(args[0], str) else None
        if key is None:
            raise core.Undecided('request.query.get of a computed key')
        return z3.Const('query_' + key, U)

    def scoped(eng, st, args, kw, node):
        parts = []
        for kind, v in template:
            if kind == 'text':
                parts.append(v)
            else:
                sep, lname = v
                if lname not in st.env:
                    raise core.Undecided('statement text uses %s, unbound on this path' % lname)
                parts.append(sep.join(_concrete_text(x, 'condition') for x in _concrete_list(st.env[lname], lname)))
        sel = _select_of(''.join(parts), '_query_batch_jobs_for_billing')
        bound = []
        for e in (arg_tuple.elts if isinstance(arg_tuple, pyast.Tuple) else [arg_tuple]):
            if isinstance(e, pyast.Starred):
                if not isinstance(e.value, pyast.Name) or e.value.id not in st.env:
                    raise core.Undecided('argument tuple of the listing statement not understood')
                bound += _concrete_list(st.env[e.value.id], e.value.id)
            else:
                bound.append(eng.ev(e, st))
        i_ = _pinned(sel).get('jobs.batch_id')
        tabs = [it.name for it in _from_items(sel.from_) if isinstance(it, A.TableRef)]
        if not tabs or tabs[0] != 'jobs':
            return z3.BoolVal(False)
        return eng.equal(bound[i_], st.env['batch_id']) if i_ is not None and i_ < len(bound) else z3.BoolVal(False)

    def setup2(eng, st):
        setup(eng, st)
        st.env['the_listing_answers_only_jobs_of_the_checked_batch'] = pyvc.SFunc('the_listing_answers_only_jobs_of_the_checked_batch', scoped)

    return Contract(
        path=FE, qualname='_query_batch_jobs_for_billing', label='_query_batch_jobs_for_billing[job listing]', fragment=(pyvc._header_text(body[0]), k),
        extra_inputs={'batch_id': 'int'}, setup=setup2,
        calls={'request.query.get': query_get, 'int': _int_model},
        ensures=[('the-listing-answers-only-jobs-of-the-batch-that-was-checked', 'the_listing_answers_only_jobs_of_the_checked_batch()')],
        raises={'HTTPBadRequest': True, 'ValueError': True},
        canaries=[('the-listing-is-never-asked', 'False')],
    ), fn, body[k + 1:]


def _db_calls_deep(node, methods):
    return [n for n in pyast.walk(node) if isinstance(n, pyast.Call) and isinstance(n.func, pyast.Attribute) and n.func.attr in methods]


def _sql_template(fn, expr):
    """the statement text handed to a database call as [('text', str) | ('join', (separator, list name))]: a literal, or a name
    assigned exactly once in the function from a literal / an f-string whose holes are `'<sep>'.join(<list name>)`"""
    if isinstance(expr, pyast.Name):
        asg = [st for st in pyast.walk(fn) if isinstance(st, pyast.Assign) and any(isinstance(t, pyast.Name) and t.id == expr.id for t in st.targets)]
        stores = [n for n in pyast.walk(fn) if isinstance(n, pyast.Name) and n.id == expr.id and isinstance(n.ctx, pyast.Store)]
        if len(asg) != 1 or len(stores) != 1:
            raise core.Undecided('statement text %s is assigned %d times' % (expr.id, len(stores)))
        expr = asg[0].value
    if isinstance(expr, pyast.Constant) and isinstance(expr.value, str):
        return [('text', expr.value)]
    if not isinstance(expr, pyast.JoinedStr):
        raise core.Undecided('statement text is neither a literal nor an f-string')
    out = []
    for v in expr.values:
        if isinstance(v, pyast.Constant):
            out.append(('text', str(v.value)))
        else:
            e = v.value
            if isinstance(e, pyast.Call) and isinstance(e.func, pyast.Attribute) and e.func.attr == 'join' and isinstance(e.func.value, pyast.Constant) and isinstance(e.func.value.value, str) and len(e.args) == 1 and isinstance(e.args[0], pyast.Name) and v.format_spec is None and v.conversion == -1:
                out.append(('join', (e.func.value.value, e.args[0].id)))
            else:
                out.append(('hole', pyast.unparse(e)))
    return out


def batch_scoped_reads(ctx):
    tree = pyast.parse(core.read_repo(FE))
    methods = _db_methods()
    # logs
    for c, scn in ((job_record_contract(), 'job-log'), (job_tasks_contract(), 'job-log'), (container_log_contract(tree), 'job-log')):
        c.raises.setdefault('*', True)
        e = pyvc.Engine(ctx, c)
        e.replayer = _native(scn)
        e.run()
        _strict(ctx, e, e.label)
        _emit_canaries(ctx, e)
    for nm in ('_get_job_container_log', 'has_resource_available', 'attempt_id_from_spec'):
        ctx.under_contract(FE, nm + ' (executed in place inside get_job_container_log)')
    # closed world of the log chain: who calls what, with which arguments
    for nm in ('_get_job_container_log_from_worker', '_read_job_container_log_from_cloud_storage'):
        cs = _calls_of(tree, nm)
        ctx.add(core.decided('job-log/closed-world/%s-is-called-only-by-_get_job_container_log' % nm, bool(cs) and all(f.name == '_get_job_container_log' for f, _ in cs) and _only_called(tree, nm), repr([f.name for f, _ in cs]), kind='scan'), replay=_native('job-log'))
    cs = _calls_of(tree, '_get_job_container_log')
    ctx.add(core.decided('job-log/closed-world/_get_job_container_log-is-called-only-by-get_job_container_log-and-_get_job_log', sorted({f.name for f, _ in cs}) == ['_get_job_log', 'get_job_container_log'] and len(cs) == 2 and _only_called(tree, '_get_job_container_log'), repr([f.name for f, _ in cs]), kind='scan'), replay=_native('job-log'))
    # _get_job_log: every container comes from job_tasks_from_spec(record) of the record read for (batch_id, job_id)
    gl = pyvc.find_function(tree, '_get_job_log')
    texts = [pyast.unparse(st) for st in gl.body]
    inner = [n for f, n in cs if f.name == '_get_job_log']
    comp = [n for n in pyast.walk(gl) if isinstance(n, (pyast.ListComp, pyast.GeneratorExp)) and inner and any(x is inner[0] for x in pyast.walk(n))]
    ok = (len(inner) == 1 and len(comp) == 1 and len(comp[0].generators) == 1 and not comp[0].generators[0].ifs and isinstance(comp[0].generators[0].target, pyast.Name)
          and isinstance(comp[0].generators[0].iter, pyast.Name) and _arg_names(inner[0]) == ['app', 'batch_id', 'job_id', comp[0].generators[0].target.id, 'record']
          and 'record = await _get_job_record(app, batch_id, job_id)' in texts and '%s = job_tasks_from_spec(record)' % comp[0].generators[0].iter.id in texts
          and [a.arg for a in gl.args.args] == ['app', 'batch_id', 'job_id'] and len([n for n in pyast.walk(gl) if isinstance(n, pyast.Name) and n.id in ('app', 'batch_id', 'job_id', 'record', comp[0].generators[0].iter.id) and isinstance(n.ctx, pyast.Store)]) == 2)
    ctx.add(core.decided('job-log/_get_job_log/reads-the-logs-of-exactly-the-tasks-of-the-record-of-its-batch-and-job', ok, repr(texts)[:300], kind='scan'), replay=_native('job-log'))
    # callers hand over the checked batch id: get_job_container_log(request, batch_id) / _get_job_log(<app>, batch_id, job_id) from
    # batch-scoped route handlers (whose batch_id parameter is the checked one and is never rebound: route-table layer)
    routes = {fn.name: (v, p) for v, p, fn in enumerate_routes(tree)}
    funcs = {f.name: f for f in tree.body if isinstance(f, (pyast.FunctionDef, pyast.AsyncFunctionDef))}

    def handed(nm, seen):
        """problems with the claim: every call of `nm` passes, in the position of nm's batch_id parameter, the (never rebound)
        batch_id parameter of a batch-scoped route handler, or of a helper of which the same holds (transitively)"""
        if nm in seen:
            return []
        seen.add(nm)
        params = [a.arg for a in funcs[nm].args.posonlyargs + funcs[nm].args.args]
        if 'batch_id' not in params:
            return ['%s has no batch_id parameter' % nm]
        pos = params.index('batch_id')
        cs_ = _calls_of(tree, nm)
        bad = [] if cs_ and _only_called(tree, nm) else ['%s is referenced other than by calls, or never called' % nm]
        for f, n in cs_:
            fparams = [a.arg for a in f.args.posonlyargs + f.args.args]
            a = n.args[pos] if len(n.args) > pos else next((k.value for k in n.keywords if k.arg == 'batch_id'), None)
            if not (isinstance(a, pyast.Name) and a.id == 'batch_id' and 'batch_id' in fparams and _never_rebound(f, ('batch_id',))):
                bad.append('%s line %d passes %s' % (f.name, n.lineno, pyast.unparse(a) if a is not None else None))
            elif f.name in routes:
                if classify(*routes[f.name]) != ['batch-scoped']:
                    bad.append('%s line %d: route is not batch-scoped' % (f.name, n.lineno))
            else:
                bad += handed(f.name, seen)
        return bad

    for nm in ('get_job_container_log', '_get_job_log', '_query_batch_jobs_for_billing', '_get_job_record'):
        bad = handed(nm, set()) if nm in funcs else ['not found']
        ctx.add(core.decided('batch-scoped-reads/%s/is-only-ever-handed-the-batch-id-that-was-checked' % nm, not bad, repr(bad), kind='scan'))
    # per-batch billing listing
    c, fn, rest = billing_jobs_query_contract(tree)
    c.raises.setdefault('*', True)
    e = pyvc.Engine(ctx, c)
    e.replayer = _native('billing-jobs')
    e.run()
    _strict(ctx, e, e.label)
    _emit_canaries(ctx, e)
    # the follow-up statements of the same function (attributes, resources of the jobs just listed): text with holes
    later = [cl for st in rest for cl in _db_calls_deep(st, methods)]
    ctx.add(core.decided('_query_batch_jobs_for_billing/vacuity/follow-up-statements-found', len(later) >= 1 and len(_db_calls_deep(fn, methods)) == len(later) + 1, '%d follow-up statements' % len(later), kind='vacuity'))
    for i_, cl in enumerate(later):
        label = '_query_batch_jobs_for_billing/follow-up-statement#%d' % (i_ + 1)
        try:
            tpl = _sql_template(fn, cl.args[0])
            text = ''.join(v if kind == 'text' else '{%s}' % (v if kind == 'hole' else 'joined') for kind, v in tpl)
            sel = _select_of(text, label)
            pins = _pinned(sel)
            i0 = next((pins[k_] for k_ in pins if k_.split('.')[-1] == 'batch_id'), None)
            at = cl.args[1] if len(cl.args) > 1 else None
            first = at.elts[:i0 + 1] if isinstance(at, pyast.Tuple) and i0 is not None else []
            ok = i0 is not None and len(first) == i0 + 1 and not any(isinstance(x, pyast.Starred) for x in first) and isinstance(first[i0], pyast.Name) and first[i0].id == 'batch_id' and _never_rebound(fn, ('batch_id',))
            holes_before = [n for n in sel.walk() if isinstance(n, A.Hole)]
            detail = 'pinned=%r args=%s' % (pins, pyast.unparse(at) if at is not None else None)
        except core.Undecided as ex:
            ok, detail = False, 'not understood: %s' % ex
        ctx.add(core.decided(label + '/answers-only-rows-of-the-batch-that-was-checked', ok, detail, kind='scan'), replay=_native('billing-jobs'))
    # the conditions spliced into the follow-up statements are closed under AND
    for asg in [st for st in pyast.walk(fn) if isinstance(st, pyast.Assign) and len(st.targets) == 1 and isinstance(st.targets[0], pyast.Name) and st.targets[0].id == 'job_condition']:
        v = asg.value
        text = v.value if isinstance(v, pyast.Constant) else ''.join(x.value if isinstance(x, pyast.Constant) else '%s' for x in v.values) if isinstance(v, pyast.JoinedStr) else None
        ok = False
        if text is not None:
            try:
                cj = _conjuncts(sqlparse.parse_expr('sentinel_a = 1 AND ' + text + ' AND sentinel_b = 2'), [])
                ok = len(cj) == 3
            except Exception:  # pylint: disable=broad-except
                ok = False
        ctx.add(core.decided('_query_batch_jobs_for_billing/job_condition-line-%d/cannot-widen-the-batch-condition' % asg.lineno, ok, repr(text), kind='scan'))


# ---------------------------------------------------------------------------------------------------------------------
# (3) route table.  The policy is data: classes with a path/verb predicate (derived from the property text, not from the
# decorators found) and the protections a class accepts.

VERBS = ('get', 'post', 'put', 'patch', 'delete', 'head', 'options')

# "except health, version/cloud information, documentation, legal pages and static assets"
EXEMPT = {
    'health': ['/healthcheck'],
    'version/cloud information': ['/api/v1alpha/version', '/api/v1alpha/cloud'],
    'documentation': ['/swagger', '/openapi.yaml'],
    'legal pages': ['/tos', '/privacy'],
    'static assets': ['/batch/static/*', '/common_static*'],
}
# "can add jobs, groups or updates to, or commit, only batches they own" (close = commit of the first update, deprecated)
OWNER_OPERATIONS = ('create', 'update-fast', 'commit', 'close')


def _exempt_reason(path):
    for why, pats in EXEMPT.items():
        for p in pats:
            if (p.endswith('*') and path.startswith(p[:-1])) or path == p:
                return why
    return None


def _last(path):
    return path.rstrip('/').split('/')[-1]


POLICY = [
    # name, predicate(verb, path), accepted protections, what the class is in the property text
    ('exempt', lambda v, p: _exempt_reason(p) is not None, ('none', 'users', 'bpu', 'dev', 'dev_or_auth'), 'health, version/cloud information, documentation, legal pages, static assets'),
    ('billing-administration', lambda v, p: _exempt_reason(p) is None and v != 'get' and ('billing_projects' in p or 'billing_limits' in p), ('dev', 'dev_or_auth'), 'only developers or the auth service can administer billing projects'),
    ('owner-only', lambda v, p: _exempt_reason(p) is None and '{batch_id}' in p and _last(p) in OWNER_OPERATIONS, ('users+owner-filter',), 'add jobs, groups or updates to, or commit, only batches they own'),
    ('new-batch', lambda v, p: _exempt_reason(p) is None and '{batch_id}' not in p and '/batches/' in p and _last(p) in ('create', 'create-fast'), ('users+new-batch',), 'creation by an authenticated, active user (who becomes the owner)'),
    ('batch-scoped', lambda v, p: _exempt_reason(p) is None and '{batch_id}' in p and _last(p) not in OWNER_OPERATIONS, ('bpu',), 'read, cancel or delete a batch (and its jobs, groups, logs and billing) only if they belong to its billing project'),
]
OTHER = ('other', ('users', 'bpu', 'dev', 'dev_or_auth'), 'every other endpoint requires an authenticated, active user')

AUTH_DECORATORS = [
    (r'auth\.authenticated_users_only\((redirect=(True|False|None))?\)', 'users'),
    (r'billing_project_users_only\((redirect=(True|False|None))?\)', 'bpu'),
    (r'auth\.authenticated_developers_only\((redirect=(True|False|None))?\)', 'dev'),
    (r'authenticated_developers_or_auth_only', 'dev_or_auth'),
]
TRANSPARENT_ABOVE = ('web_security_headers', 'web_security_headers_swagger')  # proved to call the wrapped function first (layer 1)
BELOW_AUTH = ('add_metadata_to_request', 'catch_ui_error_in_dev', 'deprecated')  # run after the auth wrapper admitted the caller
# handlers whose owner filter / creation check is under contract in layer 2 (checked there; a route of these classes whose
# handler is not listed has no contract and fails here)
OWNER_HANDLERS = ('create_jobs', 'create_jobs_for_update', 'create_job_groups', 'create_update', 'update_batch_fast', 'commit_update', 'close_batch')
NEW_BATCH_HANDLERS = ('create_batch', 'create_batch_fast')


DB_METHOD_NAMES = set()  # filled from gear/gear/database.py by route_table()


def _route_decorator(d):
    if isinstance(d, pyast.Call) and isinstance(d.func, pyast.Attribute) and isinstance(d.func.value, pyast.Name) and d.func.value.id == 'routes':
        path = d.args[0].value if d.args and isinstance(d.args[0], pyast.Constant) and isinstance(d.args[0].value, str) else None
        return (d.func.attr, path)
    return None


def enumerate_routes(tree):
    """[(verb, path, function node)] for every route decorator in the module, wherever the function is defined"""
    out = []
    for fn in pyast.walk(tree):
        if isinstance(fn, (pyast.FunctionDef, pyast.AsyncFunctionDef)):
            for d in fn.decorator_list:
                r = _route_decorator(d)
                if r is not None:
                    out.append((r[0], r[1], fn))
    return out


def protection_of(fn):
    """-> (protection, problems): the first decorator beneath the route decorators and the transparent ones decides"""
    problems = []
    decs = list(fn.decorator_list)
    k = 0
    while k < len(decs) and _route_decorator(decs[k]) is not None:
        k += 1
    if any(_route_decorator(d) is not None for d in decs[k:]):
        problems.append('a route decorator sits beneath another decorator: the function registered is not the protected one')
    rest = [pyast.unparse(d) for d in decs[k:]]
    while rest and rest[0] in TRANSPARENT_ABOVE:
        rest.pop(0)
    prot = 'none'
    if rest:
        for pat, name in AUTH_DECORATORS:
            if re.fullmatch(pat, rest[0]):
                prot = name
                rest.pop(0)
                break
    for d in rest:
        if any(re.fullmatch(pat, d) for pat, _ in AUTH_DECORATORS):
            problems.append('auth decorator %s is not the outermost one' % d)
        elif d not in BELOW_AUTH:
            problems.append('decorator %s is not known to the contract' % d)
    if prot == 'none' and rest:
        problems.append('decorators %r run without any auth decorator above them' % rest)
    return prot, problems


def classify(verb, path):
    hits = [name for name, pred, _, _ in POLICY if pred(verb, path)]
    return hits if hits else [OTHER[0]]


def check_route(verb, path, fn, handler_name=None):
    """-> [(obligation suffix, ok, detail)] for one registered route"""
    res = []
    label = '%s %s' % (verb.upper(), path)
    if verb not in VERBS or path is None:
        return [('%s/registration-understood' % label, False, 'verb=%r path=%r' % (verb, path))]
    classes = classify(verb, path)
    res.append(('%s/falls-in-exactly-one-class' % label, len(classes) == 1, repr(classes)))
    cls = classes[0]
    accepted = dict((n, a) for n, _, a, _ in POLICY).get(cls, OTHER[1])
    prot, problems = protection_of(fn) if fn is not None else ('none', [])
    name = handler_name or (fn.name if fn is not None else '?')
    eff = prot
    if cls == 'owner-only' and prot == 'users' and name in OWNER_HANDLERS:
        eff = 'users+owner-filter'
    if cls == 'new-batch' and prot == 'users' and name in NEW_BATCH_HANDLERS:
        eff = 'users+new-batch'
    res.append(('%s/protected-as-%s' % (label, cls), eff in accepted, 'handler=%s protection=%s accepted=%r' % (name, prot, accepted)))
    res.append(('%s/decorator-stack-understood' % label, not problems, '; '.join(problems) or 'ok'))
    if cls == 'exempt':
        res.append(('%s/exempt-routes-only-read' % label, verb == 'get', 'verb=%s' % verb))
        if fn is not None:
            touches = [pyast.unparse(n)[:40] for st in fn.body for n in pyast.walk(st) if (isinstance(n, pyast.Subscript) and isinstance(n.slice, pyast.Constant) and n.slice.value == 'db') or (isinstance(n, pyast.Name) and n.id in ('db', 'userdata')) or (isinstance(n, pyast.Call) and isinstance(n.func, pyast.Attribute) and n.func.attr in DB_METHOD_NAMES)]
            res.append(('%s/exempt-handler-touches-neither-the-database-nor-user-data' % label, not touches, repr(touches)))
    if cls == 'batch-scoped' and fn is not None:
        params = [a.arg for a in fn.args.posonlyargs + fn.args.args]
        rebinds = [n for st in fn.body for n in pyast.walk(st) if isinstance(n, pyast.Name) and n.id == 'batch_id' and isinstance(n.ctx, (pyast.Store, pyast.Del))]
        rereads = [n for st in fn.body for n in pyast.walk(st) if isinstance(n, pyast.Subscript) and isinstance(n.slice, pyast.Constant) and n.slice.value == 'batch_id']
        res.append(('%s/handler-works-on-the-batch-id-that-was-checked' % label, len(params) == 3 and params[2] == 'batch_id' and not rebinds and not rereads, 'params=%r rebinds=%d rereads=%d' % (params, len(rebinds), len(rereads))))
    return res


def _passes_arguments_through(fn):
    """the wrapper calls `fun` exactly once, with exactly its own parameters in order (request, [userdata,] *args, **kwargs)"""
    calls = [n for st in fn.body for n in pyast.walk(st) if isinstance(n, pyast.Call) and isinstance(n.func, pyast.Name) and n.func.id == 'fun']
    if len(calls) != 1:
        return False, '%d calls of fun' % len(calls)
    c = calls[0]
    want = [a.arg for a in fn.args.posonlyargs + fn.args.args] + (['*' + fn.args.vararg.arg] if fn.args.vararg else [])
    got = [('*' + a.value.id) if isinstance(a, pyast.Starred) and isinstance(a.value, pyast.Name) else (a.id if isinstance(a, pyast.Name) else '?') for a in c.args]
    kw_ok = [k.arg for k in c.keywords] == ([None] if fn.args.kwarg else []) and all(isinstance(k.value, pyast.Name) and k.value.id == fn.args.kwarg.arg for k in c.keywords)
    return want == got and kw_ok, 'parameters=%r call=%r' % (want, got)


BILLING_TABLES = ('billing_projects', 'billing_project_users')


def _written_tables(fn, methods):
    """tables / procedures changed by the statements a function executes itself: literal INSERT / UPDATE / DELETE / CALL texts
    anywhere in it, plus '?' for a statement-executing call whose text is not a literal"""
    out = set()
    for n in pyast.walk(fn):
        if isinstance(n, pyast.Constant) and isinstance(n.value, str) and re.match(r'\s*(INSERT|UPDATE|DELETE|REPLACE|CALL)\b', n.value, re.I):
            try:
                stn = sqlparse.parse_statement(n.value)
            except Exception:
                if re.search(r'\b(SET|INTO|FROM|VALUES)\b', n.value):
                    out.add('?')
                continue
            if isinstance(stn, A.Call):
                out.add('CALL ' + str(getattr(stn, 'name', '?')))
            elif isinstance(stn, A.Insert):
                out.add(stn.table)
            elif isinstance(stn, (A.Update, A.Delete)):
                out |= {t.name for t in stn.walk() if isinstance(t, A.TableRef)} or {'?'}
        if isinstance(n, pyast.Call) and isinstance(n.func, pyast.Attribute) and n.func.attr in methods and n.func.attr not in READ_METHODS and n.func.attr != 'start':
            a0 = n.args[0] if n.args else None
            if not (isinstance(a0, pyast.Constant) and isinstance(a0.value, str)):
                out.add('?')
    return out


def writes_by_class(ctx, tree, routes):
    """closed world over front_end.py: a route reaches (through references to module-level functions, transitively) only the
    writers its class may use - billing tables only from billing-administration routes, batch data only from owner-only /
    new-batch / batch-scoped routes, nothing from exempt and other routes"""
    methods = _db_methods()
    funcs = {f.name: f for f in tree.body if isinstance(f, (pyast.FunctionDef, pyast.AsyncFunctionDef))}
    writes = {name: _written_tables(f, methods) for name, f in funcs.items()}
    refs = {name: {n.id for n in pyast.walk(f) if isinstance(n, pyast.Name) and isinstance(n.ctx, pyast.Load) and n.id in funcs and n.id != name} for name, f in funcs.items()}
    # helpers imported from elsewhere that are known to write (checked by name; their own bodies are outside this module)
    imported_writers = {'cancel_job_group_in_db': {'CALL cancel_job_group'}}
    for name, f in funcs.items():
        for n in pyast.walk(f):
            if isinstance(n, pyast.Name) and n.id in imported_writers:
                writes[name] = writes[name] | imported_writers[n.id]
    seen_classes = {}
    for verb, path, fn in routes:
        if path is None:
            continue
        cls = classify(verb, path)[0]
        reach, todo = set(), [fn.name]
        while todo:
            x = todo.pop()
            if x in reach:
                continue
            reach.add(x)
            todo.extend(refs.get(x, ()))
        tabs = set().union(*[writes[x] for x in reach])
        billing = tabs & set(BILLING_TABLES)
        data = tabs - set(BILLING_TABLES)
        ok = (not billing or cls == 'billing-administration') and (not data or cls in ('owner-only', 'new-batch', 'batch-scoped', 'billing-administration'))
        if cls == 'billing-administration':
            ok = ok and not (data - {'?'})
        ctx.add(core.decided('routes/%s %s/reaches-only-the-writers-of-its-class' % (verb.upper(), path), ok, 'class=%s writes=%r' % (cls, sorted(tabs)), kind='scan'), replay=_native('routes'))
        for t in tabs:
            seen_classes.setdefault(t, set()).add(cls)
    ctx.extra['written_by_route_class'] = {t: sorted(c) for t, c in sorted(seen_classes.items())}
    ctx.add(core.decided('routes/vacuity/some-route-writes-billing-tables-and-some-route-writes-batch-data', any(t in seen_classes for t in BILLING_TABLES) and 'batch_updates' in seen_classes and 'CALL commit_batch_update' in seen_classes, repr(sorted(seen_classes)), kind='vacuity'))


def route_table(ctx):
    src = core.read_repo(FE)
    tree = pyast.parse(src)
    ctx.under_contract(FE, 'routes (every @routes.<verb>(path) handler with its decorator stack; registrations in run())')
    DB_METHOD_NAMES.update(_db_methods())
    routes = enumerate_routes(tree)
    ctx.add(core.decided('routes/vacuity/the-table-is-not-empty', len(routes) >= 10, '%d routes' % len(routes), kind='vacuity'))
    counts = {}
    for verb, path, fn in routes:
        toplevel = fn in tree.body
        for suffix, ok, detail in check_route(verb, path, fn):
            ctx.add(core.decided('routes/' + suffix, ok, detail, kind='scan'), replay=_native('routes'))
        if not toplevel:
            ctx.add(core.decided('routes/%s %s/handler-is-a-module-level-function' % (verb.upper(), path), False, fn.name, kind='scan'))
        c = classify(verb, path)[0]
        counts[c] = counts.get(c, 0) + 1
        if path is not None:
            ROUTE_CLASSES.append([verb, path, c])
    ctx.extra['route_classes'] = counts
    writes_by_class(ctx, tree, routes)
    ctx.extra['routes'] = ['%s %s -> %s [%s] %s' % (v.upper(), p, fn.name, classify(v, p)[0], protection_of(fn)[0]) for v, p, fn in routes]
    for cls in [n for n, _, _, _ in POLICY] + [OTHER[0]]:
        ctx.add(core.decided('routes/vacuity/class-%s-is-inhabited' % cls, counts.get(cls, 0) > 0, repr(counts), kind='vacuity'))
    # every mention of the table object is a decorator, its creation, or one of the two registrations in run()
    mentions = [n for n in pyast.walk(tree) if isinstance(n, pyast.Name) and n.id == 'routes']
    decorator_mentions = sum(1 for fn in pyast.walk(tree) if isinstance(fn, (pyast.FunctionDef, pyast.AsyncFunctionDef)) for d in fn.decorator_list if _route_decorator(d) is not None)
    creation = [st for st in tree.body if isinstance(st, pyast.Assign) and pyast.unparse(st) == 'routes = web.RouteTableDef()']
    run = pyvc.find_function(tree, 'run')
    run_calls = [pyast.unparse(n) for n in pyast.walk(run) if isinstance(n, pyast.Call) and any(isinstance(a, pyast.Name) and a.id == 'routes' for a in n.args)]
    ok = len(creation) == 1 and sorted(run_calls) == ['app.add_routes(routes)', 'setup_common_static_routes(routes)'] and len(mentions) == decorator_mentions + 1 + 2
    ctx.add(core.decided('routes/closed-world/the-table-is-only-filled-by-decorators-and-registered-once', ok, 'mentions=%d decorators=%d run=%r' % (len(mentions), decorator_mentions, run_calls), kind='scan'))
    # registrations outside the table
    outside = []
    for fn in pyast.walk(tree):
        if isinstance(fn, (pyast.FunctionDef, pyast.AsyncFunctionDef)):
            for n in pyast.walk(fn):
                if isinstance(n, pyast.Call) and isinstance(n.func, pyast.Attribute) and re.fullmatch(r'add_(get|post|put|patch|delete|head|route|view|static|subapp|resource)', n.func.attr):
                    outside.append((fn.name, n))
    for where, n in outside:
        verb = n.func.attr[4:]
        path = n.args[0].value if n.args and isinstance(n.args[0], pyast.Constant) else None
        handler = pyast.unparse(n.args[1]) if len(n.args) > 1 else '?'
        ctx.extra['routes'].append('%s %s -> %s [registered in %s(), outside the table] none' % (verb.upper(), path, handler, where))
        for suffix, ok, detail in check_route(verb, path, None, handler_name=handler):
            ctx.add(core.decided('routes/outside-the-table/' + suffix, ok, detail + ' (registered by %s in %s())' % (pyast.unparse(n.func), where), kind='scan'), replay=_native('metrics'))
    # the shared static route of web_common
    wtree = pyast.parse(core.read_repo(WC))
    scs = pyvc.find_function(wtree, 'setup_common_static_routes')
    regs = [pyast.unparse(n) for n in pyast.walk(scs) if isinstance(n, pyast.Call) and isinstance(n.func, pyast.Attribute) and isinstance(n.func.value, pyast.Name) and n.func.value.id == 'routes']
    ok = len(regs) == 1 and regs[0].startswith("routes.static('/common_static'")
    ctx.add(core.decided('routes/outside-the-table/setup_common_static_routes-registers-static-assets-only', ok and _exempt_reason('/common_static') == 'static assets', repr(regs), kind='scan'))
    # the objects the decorators refer to
    auth_assign = [pyast.unparse(st) for st in tree.body if isinstance(st, pyast.Assign) and any(isinstance(t, pyast.Name) and t.id == 'auth' for t in st.targets)]
    auth_stores = [n for n in pyast.walk(tree) if isinstance(n, pyast.Name) and n.id == 'auth' and isinstance(n.ctx, pyast.Store)]
    ctx.add(core.decided('routes/closed-world/auth-is-the-authenticator-and-never-rebound', auth_assign == ['auth = get_authenticator()'] and len(auth_stores) == 1, repr(auth_assign), kind='scan'))
    for nm in ('billing_project_users_only', 'authenticated_developers_or_auth_only', 'catch_ui_error_in_dev', 'deprecated', '_user_can_access'):
        defs = [n for n in pyast.walk(tree) if isinstance(n, (pyast.FunctionDef, pyast.AsyncFunctionDef, pyast.ClassDef)) and n.name == nm]
        stores = [n for n in pyast.walk(tree) if isinstance(n, pyast.Name) and n.id == nm and isinstance(n.ctx, pyast.Store)]
        ctx.add(core.decided('routes/closed-world/%s-is-defined-once-and-never-rebound' % nm, len(defs) == 1 and defs[0] in tree.body and not stores, '%d definitions, %d assignments' % (len(defs), len(stores)), kind='scan'))
    atree = pyast.parse(core.read_repo(AUTH))
    sub = [c for c in atree.body if isinstance(c, pyast.ClassDef) and c.name != 'Authenticator' and any(pyast.unparse(b) == 'Authenticator' for b in c.bases)]
    over = [(c.name, f.name) for c in sub for f in c.body if isinstance(f, (pyast.FunctionDef, pyast.AsyncFunctionDef)) and f.name in ('authenticated_users_only', 'authenticated_developers_only')]
    ga = pyvc.find_function(atree, 'get_authenticator')
    rets = sorted(pyast.unparse(n.value) for n in pyast.walk(ga) if isinstance(n, pyast.Return))
    ctx.add(core.decided('routes/closed-world/every-authenticator-uses-the-wrappers-under-contract', not over and all(r[:-2] in [c.name for c in sub] for r in rets) and len(rets) >= 1, 'subclasses=%r overrides=%r get_authenticator returns %r' % ([c.name for c in sub], over, rets), kind='scan'))
    # which authenticator guards the routes: the one that trusts every caller (single-tenant Terra deployments: no credentials
    # are looked at, every request is a developer's) only when HAIL_TERRA carries a non-empty value - an unset or EMPTY variable
    # (a chart value rendered as "") means the ordinary deployment, whose callers are checked against the auth service
    def _environ(eng, st, args, kw, node):
        if not args or args[0] != 'HAIL_TERRA':
            raise core.Undecided('get_authenticator reads another variable than HAIL_TERRA')
        dflt = args[1] if len(args) > 1 else kw.get('default')
        setk = lambda k: (lambda s_: s_.env.__setitem__('TERRA', k))  # noqa: E731
        raise Fork(node, [('variable-unset', None, 'value', dflt, setk('unset')), ('variable-empty', None, 'value', '', setk('empty')), ('variable-set', None, 'value', 'terra', setk('set'))])

    def _mk(kind):
        def model(eng, st, args, kw, node):
            st.env['BUILT'] = kind
            return z3.Const('authenticator_' + kind, pyvc.U)
        return model

    gc = Contract(path=AUTH, qualname='get_authenticator', ghost_init={'TERRA': "'none'", 'BUILT': "'none'"},
                  calls={'os.environ.get': _environ, 'os.getenv': _environ, 'TrustedSingleTenantAuthenticator': _mk('trusting'), 'AuthServiceAuthenticator': _mk('checking')},
                  ensures=[('every-caller-is-trusted-only-where-HAIL_TERRA-has-a-non-empty-value', "implies(BUILT == 'trusting', TERRA == 'set')"),
                           ('otherwise-callers-are-checked-against-the-auth-service', "implies(TERRA != 'set', BUILT == 'checking')"),
                           ('the-authenticator-built-is-the-one-returned', "result == (authenticator_trusting if BUILT == 'trusting' else authenticator_checking)")],
                  setup=lambda eng, st: st.env.update(authenticator_trusting=z3.Const('authenticator_trusting', pyvc.U), authenticator_checking=z3.Const('authenticator_checking', pyvc.U)),
                  raises={}, canaries=[('never-trusting', "BUILT != 'trusting'"), ('never-checking', "BUILT != 'checking'")])
    ge = pyvc.Engine(ctx, gc).run()
    ctx.add(core.decided('get_authenticator/no-call-outside-the-contract', not ge.unmodelled, repr(ge.unmodelled), kind='frame'))
    ctx.under_contract(AUTH, 'get_authenticator')
    # composition of the wrappers: each inner `wrapped` is only reachable through authenticated_users_only
    comp = [
        (AUTH, 'Authenticator.authenticated_developers_only.wrap.wrapped', ['self.authenticated_users_only(redirect)', 'wraps(fun)'], [('Authenticator.authenticated_developers_only.wrap', 'wrapped'), ('Authenticator.authenticated_developers_only', 'wrap')]),
        (AUTH, 'Authenticator.authenticated_users_only.wrap.wrapped', ['wraps(fun)'], [('Authenticator.authenticated_users_only.wrap', 'wrapped'), ('Authenticator.authenticated_users_only', 'wrap')]),
        (FE, 'billing_project_users_only.wrap.wrapped', ['auth.authenticated_users_only(redirect)', 'wraps(fun)'], [('billing_project_users_only.wrap', 'wrapped'), ('billing_project_users_only', 'wrap')]),
        (FE, 'authenticated_developers_or_auth_only.wrapped', ['auth.authenticated_users_only()', 'wraps(fun)'], [('authenticated_developers_or_auth_only', 'wrapped')]),
        (WC, 'web_security_header_generator.wrapped', ['wraps(fun)'], [('web_security_header_generator', 'wrapped')]),
    ]
    for path, qn, want, rets in comp:
        got = _decorators(path, qn)
        ok = got == want and all(_returns_name(path, outer, nm) for outer, nm in rets)
        ctx.add(core.decided('%s/composition/built-on-authenticated_users_only-and-returned-as-the-decorator-result' % qn, ok, 'decorators=%r' % got, kind='scan'))
    for fnname in TRANSPARENT_ABOVE:
        f = pyvc.find_function(wtree, fnname)
        ok = len(f.body) == 1 and isinstance(f.body[0], pyast.Return) and pyast.unparse(f.body[0].value).startswith('web_security_header_generator(fun')
        ctx.add(core.decided('%s/composition/is-web_security_header_generator-of-the-handler' % fnname, ok, pyast.unparse(f.body[-1])[:120], kind='scan'))
    utree = pyast.parse(core.read_repo(UT))
    for path, t, qn in ((FE, tree, 'catch_ui_error_in_dev.wrapped'), (FE, tree, 'deprecated.wrapped'), (UT, utree, 'add_metadata_to_request.wrapped'), (WC, wtree, 'web_security_header_generator.wrapped')):
        ok, detail = _passes_arguments_through(pyvc.find_function(t, qn))
        ctx.under_contract(path, qn + ' (argument pass-through)')
        ctx.add(core.decided('%s/passes-its-arguments-to-the-handler-unchanged' % qn, ok, detail, kind='scan'))
    # canary: the classifier must reject routes that are protected too weakly
    bad = pyast.parse(
        "@routes.get('/api/v1alpha/batches/{batch_id}/secret')\n@auth.authenticated_users_only()\nasync def a(request, userdata): pass\n"
        "@routes.post('/api/v1alpha/billing_projects/{billing_project}/drain')\n@auth.authenticated_users_only()\nasync def b(request, userdata): pass\n"
        "@routes.get('/api/v1alpha/whoami')\nasync def c(request): pass\n"
        "@auth.authenticated_users_only()\n@routes.get('/api/v1alpha/inverted')\nasync def d(request, userdata): pass\n"
        "@routes.post('/api/v1alpha/batches/{batch_id}/jobs/create')\n@auth.authenticated_users_only()\nasync def e(request, userdata): pass\n"
    )
    verdicts = [all(ok for _, ok, _ in check_route(v, p, fn)) for v, p, fn in enumerate_routes(bad)]
    ctx.add(core.decided('routes/canary/weakly-protected-routes-are-rejected', verdicts == [False] * 5, repr(verdicts), kind='canary'))


def ownership_is_immutable(ctx):
    """between the owner gate and the writes that follow it the owner of a batch cannot change: no statement anywhere in the
    batch service assigns batches.user (closed-world scan of the Python sources and the SQL of batch/)"""
    hits = []
    root = os.path.join(core.REPO, 'batch')
    pat = re.compile(r'UPDATE\s+`?batches`?\b[^;]*?\bSET\b[^;]*?(?<![\w.`])`?user`?\s*=', re.I | re.S)
    n = 0
    for d, _, fs in os.walk(root):
        for f in fs:
            if f.endswith(('.py', '.sql')):
                n += 1
                txt = open(os.path.join(d, f), encoding='utf-8', errors='replace').read()
                for m in pat.finditer(txt):
                    hits.append('%s: %s' % (os.path.relpath(os.path.join(d, f), core.REPO), ' '.join(m.group(0).split())[:80]))
    ctx.add(core.decided('closed-world/the-owner-of-a-batch-never-changes', not hits and n > 50, '%d files scanned; %r' % (n, hits[:3]), kind='scan'))


def listing_scope(ctx):
    """listing endpoints: the WHERE clause is ' AND '.join(conditions) whose first condition restricts to the batch of the request
    path / to the caller's billing projects.  A search term must not be able to widen that scope: every condition appended must be
    CLOSED under AND (parsed with the project's SQL parser between two sentinels, the sentinels stay top-level conjuncts).  v1
    builders: the real functions are run natively (returning the list just before the SQL text is formatted) on a corpus that is
    checked to execute every `condition = ...` site; v2 builders wrap every query condition in parentheses (AST obligation)."""
    from vc import sqlparse as _sp, sqlast as _A

    Q1, Q2 = 'batch/batch/front_end/query/query_v1.py', 'batch/batch/front_end/query/query_v2.py'

    def conj(e, out):
        if isinstance(e, _A.BinOp) and e.op == 'AND':
            conj(e.left, out)
            conj(e.right, out)
        else:
            out.append(e)
        return out

    def closed(cond):
        try:
            e = _sp.parse_expr('sentinel_a = 1 AND ' + cond + ' AND sentinel_b = 2')
        except Exception as ex:  # pylint: disable=broad-except
            return None, 'not parsed: %s' % ex
        cs = conj(e, [])
        nm = lambda x: getattr(getattr(x, 'left', None), 'parts', None)  # noqa: E731
        return (len(cs) >= 3 and nm(cs[0]) == ('sentinel_a',) and nm(cs[-1]) == ('sentinel_b',)), ''

    SCOPE = {'parse_list_batches_query_v1': 'billing_project_users.`user` = %s', 'parse_job_group_jobs_query_v1': 'jobs.batch_id = %s'}
    r = core.run_native(open(os.path.join(os.path.dirname(NATIVE), 'c14_listing.py')).read(), {})
    if 'error' in r or 'builders' not in r:
        raise core.CheckerBug('listing helper failed: %r' % (r,))
    ctx.add(core.decided('C14/listing/v1/builders-found-and-runnable', not r['errors'] and set(r['builders']) == set(SCOPE), repr(r['errors'])[:300]))
    for name, info in r['builders'].items():
        ctx.add(core.decided('C14/listing/%s/corpus-executes-every-condition-site' % name, not info['uncovered_condition_sites'], repr(info['uncovered_condition_sites'])))
        seen = {}
        for row in info['rows']:
            conds = row['conditions'] or []
            ok_scope = bool(conds) and SCOPE[name] in conds[0]
            seen.setdefault(('scope', ok_scope), row['term'])
            for c in conds:
                if c not in seen:
                    seen[c] = row['term']
        ctx.add(core.decided('C14/listing/%s/first-condition-restricts-to-the-callers-scope' % name, ('scope', False) not in seen, 'term %r' % seen.get(('scope', False))))
        n = 0
        for c, term in seen.items():
            if isinstance(c, tuple):
                continue
            ok, why = closed(c)
            n += 1
            ctx.add(core.decided('C14/listing/%s/condition-closed-under-AND#%d' % (name, n), bool(ok), 'condition %r (first produced by term %r) %s' % (' '.join(c.split())[:160], term, why), kind='scan'))
    # the SQL text joins the conditions with AND at the WHERE of the statement that selects the rows
    for path, fns in ((Q1, ('parse_list_batches_query_v1', 'parse_list_job_groups_query_v1', 'parse_job_group_jobs_query_v1')), (Q2, ('parse_list_batches_query_v2', 'parse_job_group_jobs_query_v2'))):
        tree = pyast.parse(core.read_repo(path))
        for fname in fns:
            fn = [x for x in tree.body if isinstance(x, pyast.FunctionDef) and x.name == fname]
            if not fn:
                ctx.add(core.decided('C14/listing/%s/found' % fname, False, 'anchor-moved'))
                continue
            fn = fn[0]
            joined = [pyast.unparse(x.value) for x in pyast.walk(fn) if isinstance(x, pyast.FormattedValue)]
            ok = any(j.replace('"', "'") in ("' AND '.join(where_conditions)", "' AND '.join(where_conds)") for j in joined)
            ctx.add(core.decided('C14/listing/%s/where-clause-is-the-AND-of-the-conditions' % fname, ok, repr(joined)[:200], kind='scan'))
            if path == Q2:
                # every appended condition is a literal or a parenthesised query condition f'({cond})'
                bad = []
                for x in pyast.walk(fn):
                    if isinstance(x, pyast.Call) and isinstance(x.func, pyast.Attribute) and x.func.attr == 'append' and pyast.unparse(x.func.value) == 'where_conditions':
                        a = x.args[0]
                        t = pyast.unparse(a)
                        if isinstance(a, pyast.Constant) and isinstance(a.value, str):
                            if not closed(a.value)[0]:
                                bad.append(t)
                        elif isinstance(a, pyast.JoinedStr):
                            parts = a.values
                            if not (len(parts) == 3 and isinstance(parts[0], pyast.Constant) and parts[0].value == '(' and isinstance(parts[2], pyast.Constant) and parts[2].value == ')'):
                                bad.append(t)
                        elif isinstance(a, pyast.Name) and a.id == 'jg_cond':
                            pass  # the two literal job-group conditions, checked below
                        else:
                            bad.append(t)
                lits = [x.value.value for x in pyast.walk(fn) if isinstance(x, pyast.Assign) and pyast.unparse(x.targets[0]) == 'jg_cond' and isinstance(x.value, pyast.Constant)]
                bad += [l for l in lits if not closed(l)[0]]
                ctx.add(core.decided('C14/listing/%s/every-condition-is-parenthesised' % fname, not bad and (bool(lits) or 'job_group_jobs' not in fname), repr(bad)[:200], kind='scan'))


def build(ctx):
    del ROUTE_CLASSES[:]
    wrappers(ctx)
    queries(ctx)
    owner_filters(ctx)
    ownership_is_immutable(ctx)
    billing_listings(ctx)
    batch_scoped_reads(ctx)
    route_table(ctx)
    listing_scope(ctx)
    # failing obligations without a replayer of their own: every scenario except the token replay (which has its own obligations)
    ctx.witness_search = lambda: core.run_native(open(NATIVE).read(), {'scenario': 'all', 'routes': ROUTE_CLASSES})
    ctx.extra['policy'] = [{'class': n, 'accepted_protection': list(a), 'property_text': t} for n, _, a, t in POLICY] + [{'class': OTHER[0], 'accepted_protection': list(OTHER[1]), 'property_text': OTHER[2]}]
    ctx.extra['exempt_paths'] = EXEMPT
    ctx.assume('Authenticator._fetch_userdata (what the auth service answers for a session, cookies, bearer tokens) is an oracle: it returns None, raises, or returns a mapping with the keys state / username / is_developer of gear.auth.UserData; is_developer is quantified over int, bool and null')
    ctx.assume('aiohttp dispatches a request to the function object the @routes.<verb> decorator received; functools.wraps returns its argument with copied metadata; the middlewares of run() (check_csrf_token, unavailable_if_frozen, monitor_endpoints_middleware) call the handler or raise')
    ctx.assume('strings are compared for equality only and are represented by integer codes on the Python and on the SQL side; MySQL collations (case-insensitive `user` / `billing_project` key columns) are not modelled, user_cs is taken as the case-sensitive identity')
    ctx.assume('SQL semantics (three-valued logic, LEFT JOIN, NULL comparisons) as encoded in vc/sqlvc.py; schema (columns, keys, nullability) from the replayed migrations; the reads of one request see one database state, and a transaction decorated with transaction(db) is rolled back when its body raises (C27)')
    ctx.assume('composition is by call name: a route handler is checked against the contract of the helper it calls (_create_jobs, _create_job_groups, _create_batch_update, _create_batch return normally only behind their gate - each proved on the real helper); after the gate of _create_jobs / _create_job_groups.insert the rest of the function body is dominated by the gate (prefix fragment)')
    ctx.assume('userdata[\'username\'] is text (gear.auth.UserData) and never None: `username in <str literal>` is read as Python\'s substring test, and the billing-project listing helpers of batch/utils.py (query_billing_projects_with_cost / _without_cost, not under contract) restrict their answer to the projects of `user` exactly when a non-empty user name is passed')
    ctx.assume('job logs: the worker URL and the log-store path are built by _get_job_container_log_from_worker / FileStore.read_log_file from exactly the batch id, job id and container name they are handed (their bodies are not under contract); BatchFormatVersion.get_spec_has_input_files / _output_files are oracles; a function executed in place sees no local of its caller (checked on the AST)')
    ctx.assume('a top-level conjunct `<column> = %s` of the WHERE clause of a query block restricts every answered row to the bound value (conjunct analysis on the parse of the real statement text; joins and sub-selects of these statements are otherwise not interpreted)')
    ctx.undecided('listing endpoints: the scope condition and the closedness of every search-term condition are decided (listing/...); the joins and sub-selects of the listing queries themselves, and the billing pages, are not under contract')
    ctx.undecided('inside batch-scoped handlers the batch id is tracked (handed over by the wrapper, never rebound); under contract are the job-record read, the job-log chain and the per-batch billing job listing (batch-scoped-reads/..., job-log/..., _query_batch_jobs_for_billing/...); the remaining queries of batch-scoped handlers (job groups, attempts, resource usage, cancel / delete procedures) are keyed by the batch id in their text but are not under contract')
    ctx.undecided('routes of the batch driver, the auth service itself (sessions, tokens, userinfo), TrustedSingleTenantAuthenticator (its userdata has no state key: the active-state test raises KeyError, i.e. every request fails closed)')
    ctx.undecided('nothing-changes for a rejected caller is decided for the statements of the front end (no write before / without the gate); effects of middlewares and of the asynchronous driver notification are not modelled')


NATIVE_SCENARIOS = ('wrappers', 'membership', 'owner', 'routes', 'billing-listing', 'job-log', 'billing-jobs', 'authenticator')


def native_witness(ctx):
    """fallback of vc.check when the contracts no longer fit a changed source (exit 2 / 3): the concrete scenarios of the native
    script, each a request replayed on the real code under /venv/bin/python; only a confirmed failing input is reported"""
    classes = list(ROUTE_CLASSES)
    if not classes:
        try:
            for verb, path, fn in enumerate_routes(pyast.parse(core.read_repo(FE))):
                if path is not None:
                    classes.append([verb, path, classify(verb, path)[0]])
        except Exception:  # pylint: disable=broad-except
            classes = []
    for scn in NATIVE_SCENARIOS:
        if scn == 'routes' and not classes:
            continue
        r = core.run_native(open(NATIVE).read(), {'scenario': scn, 'routes': classes})
        if isinstance(r, dict) and r.get('confirmed'):
            return r
    return {'confirmed': False}


def thorough(ctx):
    """concrete cross-validation: the scenarios of the native script on the real code must agree with the contracts (no caller
    outside the property's allowance gets through); the token-replay scenario is the subject of its own obligations"""
    for scn in NATIVE_SCENARIOS:
        r = core.run_native(open(NATIVE).read(), {'scenario': scn, 'routes': ROUTE_CLASSES})
        ok = isinstance(r, dict) and r.get('confirmed') is False and 'error' not in r
        ctx.add(core.decided('native/%s/the-real-code-agrees-with-the-contracts-on-the-concrete-scenarios' % scn, ok, json_dumps(r)[:400], kind='validation'))


def json_dumps(x):
    import json

    return json.dumps(x, default=str)
