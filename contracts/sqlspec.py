"""Shared spec vocabulary for the batch schema (C01-C10, C41), transcribed from the property statements.

All functions build z3 terms over an abstract database (vc.sqlvc.Db): they are the ORACLE side of the obligations and are
deliberately written directly against the tables, not obtained from the SQL under verification.
"""
from __future__ import annotations

import z3

from vc import sqlvc
from vc.sqlvc import intern

STATES = ['Pending', 'Ready', 'Creating', 'Running', 'Success', 'Failed', 'Error', 'Cancelled']
TERMINAL = ['Success', 'Failed', 'Error', 'Cancelled']


def S(name):
    return z3.IntVal(intern(name))


def is_state(sv, *names):
    return z3.And(z3.Not(sv.n), z3.Or(*[sv.v == intern(n) for n in names]))


def terminal(sv):
    return is_state(sv, *TERMINAL)


def grp_cancelled(db, b, g):
    """exists a in anc*(b, g) with (b, a) in job_groups_cancelled"""
    jgsa = db.tab('job_group_self_and_ancestors')
    canc = db.tab('job_groups_cancelled')
    a = z3.Int(sqlvc.fresh('anc'))
    return z3.Exists([a], z3.And(jgsa.has([b, g, a]), canc.has([b, a])))


def job_marked(db, b, j):
    jobs = db.tab('jobs')
    c = jobs.get([b, j], 'cancelled')
    g = jobs.get([b, j], 'job_group_id')
    return z3.Or(z3.And(z3.Not(c.n), c.v != 0), grp_cancelled(db, b, g.v))


def job_cancelled(db, b, j):
    """not always_run and (cancelled flag or group/ancestor cancelled)"""
    jobs = db.tab('jobs')
    ar = jobs.get([b, j], 'always_run')
    return z3.And(z3.Not(z3.And(z3.Not(ar.n), ar.v != 0)), job_marked(db, b, j))


ALLOWED = (
    [('Pending', 'Ready'), ('Ready', 'Creating'), ('Ready', 'Running'), ('Creating', 'Running')]
    + [(s, t) for s in ('Ready', 'Creating', 'Running') for t in TERMINAL]
    + [('Creating', 'Ready'), ('Running', 'Ready')]
)


def allowed_transition(old_sv, new_sv):
    same = sqlvc.sv_eq_values(old_sv, new_sv)
    steps = [z3.And(is_state(old_sv, a), is_state(new_sv, b)) for a, b in ALLOWED]
    return z3.Or(same, *steps)


def proc_exec(inline_after=False):
    ex = sqlvc.Exec(inline_after=inline_after)
    return ex


def rel(path):
    from vc import core

    return path.replace(core.REPO + '/', '')


def _tables_of(from_):
    from vc import sqlast as A

    if from_ is None:
        return []
    return [t.name for t in ([from_] if isinstance(from_, A.TableRef) else from_.walk()) if isinstance(t, A.TableRef)]


def written_tables_deep(ex, r, seen=None):
    from vc import sqlast as A

    seen = seen or set()
    w = set()
    for n in r.body.walk():
        if isinstance(n, A.Update):
            tabs = _tables_of(n.tables)
            for tg, _ in n.assignments:
                if len(tg.parts) == 2:
                    w.add(tg.parts[0])
                else:
                    owners = [t for t in tabs if tg.parts[0] in ex.tables[t].columns] if all(t in ex.tables for t in tabs) else tabs[:1]
                    w.update(owners[:1] if owners else tabs[:1])
        elif isinstance(n, (A.Insert, A.Delete)):
            w.add(n.table if isinstance(n.table, str) else n.table.name)
        elif isinstance(n, A.Call):
            nm = n.name if isinstance(n.name, str) else n.name.parts[-1]
            if nm in ex.routines and nm not in seen:
                w |= written_tables_deep(ex, ex.routines[nm], seen | {nm})
    return w


def lock_discipline(ctx, ex, proc_names, label='locking'):
    """The model treats each procedure call as atomic.  That is justified by row locks: the first access of a procedure to a
    table it later writes must be a locking read (FOR UPDATE / FOR SHARE / LOCK IN SHARE MODE) or a write.  Locking clauses
    are otherwise dropped by the extraction, so this obligation is what notices a removed lock."""
    from vc import core, sqlast as A

    for name in proc_names:
        r = ex.routines[name]
        w = written_tables_deep(ex, r)
        touched = set()
        bad = []
        for n in r.body.walk():
            if isinstance(n, A.SelectStmt) and isinstance(n.select, A.Select) and n.select.from_ is not None:
                tabs = _tables_of(n.select.from_)
                for t in tabs:
                    if t in w and t not in touched and not n.select.locking:
                        bad.append((t, n.line))
                if n.select.locking:
                    touched.update(tabs)
            elif isinstance(n, A.Update):
                touched.update(_tables_of(n.tables))
            elif isinstance(n, (A.Insert, A.Delete)):
                touched.add(n.table if isinstance(n.table, str) else n.table.name)
        ctx.add(core.decided('%s/%s/first-read-of-every-written-table-takes-a-lock' % (label, name), not bad, 'unlocked first reads: %r' % bad, kind='scan'))


_DEDUP = {}


def add_valid(ctx, name, pc, pre, goal, dedupe_key=None, **kw):
    """obligation `pc /\\ pre => goal` with the path condition sliced to the cone of influence of goal and pre, and
    de-duplicated across paths (many procedure paths differ only in branches that are irrelevant to the goal)."""
    import z3
    from vc import core

    probe = z3.And(goal, *pre) if pre else goal
    hyps = core.slice_hyps(list(pc), probe) + list(pre)
    key = (ctx.pid, dedupe_key or name.split('/path')[0] + '/' + name.split('/')[-1], z3.And(*hyps, z3.Not(goal)).sexpr())
    if key in _DEDUP:
        return None
    _DEDUP[key] = True
    o = core.valid(name, hyps, goal, **kw)
    ctx.add(o)
    return o


def engine_obligations(ctx, ex):
    """obligations the executor itself raises: every joined UPDATE must determine the joined row per updated row"""
    from vc import core

    ctx.add(core.decided('sql/every-joined-update-determines-its-joined-rows', not ex.determinism_issues, repr(ex.determinism_issues[:4]), kind='scan'))
