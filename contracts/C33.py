"""C33 - value binary encoding round-trips and matches the engine layout.

Real code under contract (re-read on every run): hail/python/hail/expr/types.py (`_convert_to_encoding` /
`_convert_from_encoding` of tint32, tint64, tfloat32, tfloat64, tbool, tstr, tarray, tset, tdict, tstruct, ttuple, tinterval,
tlocus, tndarray (writer), HailType._missing / _to_encoding / _from_encoding), hail/python/hail/utils/byte_reader.py (every
ByteWriter / ByteReader method), hail/python/hail/utils/misc.py (lookup_bit); engine side as a text scan:
hail/hail/src/is/hail/types/encoded/EType.scala (fromPythonTypeEncoding) and the E-type files it names.  tcall: one int32 token
with the phase flag in bit 0, the ploidy in bits 1-2 and the allele representation above, for every ploidy (call_codec, on the
value model of contracts/C34.py, which owns the agreement with the engine Call and the round trip).  The two call sites where
values cross to the engine: hail/python/hail/ir/ir.py EncodedLiteral.encoded_value (value -> base64 text of exactly
typ._to_encoding(value)) and hail/python/hail/backend/backend.py Backend.execute (the engine's bytes of ANY length, zero included,
go whole to ir.typ._from_encoding unless the type is void) - and a closed-world scan that there is no third one.

Two layers.

BYTES (byte_reader.py).  A buffer is a list of byte values.  Every ByteWriter.write_X appends exactly calcsize(fmt) bytes, the
image pk_fmt(v, k) of the value under struct.pack(fmt, .) (uninterpreted), and leaves the prefix alone; every ByteReader.read_X
placed on such an image returns v and advances the offset by exactly the same width - with the assumed contract of the struct
module that unpack(fmt, pack(fmt, v)) == (v,) for the SAME format string.  A reader that uses another format, another width or
another stride fails an obligation.  '=' is native byte order with standard sizes: little-endian is an assumption on the host.

TOKENS (types.py).  Justified by the byte layer, the stream a codec writes is a list of tokens
(kind, int payload, byte payload (64-bit vector), codec, opaque payload); kinds: int32, int64, float32, float64, bool, byte,
raw bytes, ELEM = "the encoding of value `payload` by the codec object `codec`" (the induction hypothesis of the structural
induction over types: the element codec's own stream is abstracted to one token, and the element reader returns the payload
of the ELEM token it is placed on and moves past it - that is reader(writer(v)) == v for the element type).
Writer contracts pin ORDER and COUNT of the tokens, for every value, without bound:
  tarray   [int32 len] [ceil(len/8) bytes: bit t of byte k <=> element 8k+t missing, bits beyond len are 0]
           [ELEM of every present element, in index order, at position header + rank(i)]        (rank(i) = #present before i)
  tstruct / ttuple   the same without the length, one slot per field in declaration order, each field with ITS type as codec
  tdict    [int32 len] [ELEM(array_repr.element_type, {key, value}) per item in insertion order]   - no missing bytes
  tstr     [int32 len(utf8(value))] [bytes utf8(value)]   (utf8 uninterpreted: its length is NOT assumed to be len(value))
  tset / tinterval / tlocus   one ELEM of the array / struct representation;  primitives: one token of their kind
Reader contracts take the writer's postcondition (the identical clause text, over the input stream) as precondition and prove:
every read meets a token of the kind it reads (so it consumes exactly the bytes the writer produced), the cursor ends at the
end of the written data, and the decoded value is the original with every missing slot decoded as None.  That is the
composition lemma reader(writer(v)) == v per type constructor; the induction over the nesting of types is a paper step.

ENGINE (text scan, not a proof of the Scala decoder): each arm of EType.fromPythonTypeEncoding names the E-type whose layout
is the token layout proved above (EInt32.., EBinary, EArray with optional elements, EBaseStruct with index i for field i and
optional fields, EDictAsUnsortedArrayOfPairs over a REQUIRED element struct = no missing bytes, ENDArrayColumnMajor over
required elements), in an order in which the specific arms precede `TIterable` / `TBaseStruct`.
"""
from __future__ import annotations

import ast as pyast
import os
import re
import struct as pystruct
import sys

import z3

from vc import core, pyvc
from vc.pyclass import ClassIndex, Inliner
from vc.pyvc import Contract, LoopSpec, SExc, SList, SRecord, Undecided, to_z3

TYPES = 'hail/python/hail/expr/types.py'
BYTEIO = 'hail/python/hail/utils/byte_reader.py'
MISC = 'hail/python/hail/utils/misc.py'
ENC = 'hail/hail/src/is/hail/types/encoded/'

TOK = ('tuple', ('int', 'int', 'bv64', 'U', 'U'))
TOKS = 'List[Tuple[int, int, bv64, U, U]]'
K_I32, K_I64, K_F32, K_F64, K_BOOL, K_BYTE, K_BYTES, K_ELEM = range(8)
KIND_NAME = {K_I32: 'int32', K_I64: 'int64', K_F32: 'float32', K_F64: 'float64', K_BOOL: 'bool', K_BYTE: 'byte', K_BYTES: 'bytes', K_ELEM: 'element'}
UNUSED = z3.Const('tok_unused', pyvc.U)
# ByteWriter method -> (token kind, payload slot); the ByteReader method of the same suffix reads that kind
PRIM = {'int32': (K_I32, 'int'), 'int64': (K_I64, 'int'), 'float32': (K_F32, 'U'), 'float64': (K_F64, 'U'), 'bool': (K_BOOL, 'bool')}


def mk_tok(kind, ival=None, bval=None, codec=None, uval=None):
    s = pyvc.sort_of(TOK)
    return s.mk(z3.IntVal(kind), ival if ival is not None else z3.IntVal(0), bval if bval is not None else z3.BitVecVal(0, 64), codec if codec is not None else UNUSED, uval if uval is not None else UNUSED)


def _param(eng, k):
    return eng.inputs.get(eng.fn.args.args[k].arg)


def _same(a, b):
    return isinstance(a, z3.ExprRef) and isinstance(b, z3.ExprRef) and a.eq(b)


def rec_uf(eng, fields, vals):
    """a dict display {'f1': v1, ...} handed to a codec is the opaque record rec_f1_..(v1, ..) (constructor; the readers see it
    through the axioms rec_f1_..(v1, ..).fi == vi)"""
    name = 'rec_' + '_'.join(fields)
    if name not in eng.c.spec_funcs:
        raise Undecided('record %s handed to a codec is not declared in the contract' % name)
    ats = eng.c.spec_funcs[name][0]
    return eng.uf(name, ats, 'U')(*[to_z3(v, pyvc.parse_type(t)) for v, t in zip(vals, ats)])


# ---- writer-side call models: the stream is the ghost list `out` ---------------------------------------------------------------

def writer_models():
    def chk(eng, recv):
        if not _same(recv, _param(eng, 1)):
            raise Undecided('a write goes through something that is not the byte_writer parameter')
        if getattr(eng, 'in_spec', False):
            raise Undecided('a write inside a comprehension / contract expression')

    def put(st, t):
        out = st.env['out']
        st.env['out'] = SList(out.len + 1, z3.Store(out.arr, out.len, t), TOK)

    def prim(suffix):
        kind, slot = PRIM[suffix]

        def model(eng, st, args, kw, node):
            chk(eng, args[0])
            v = args[1]
            if slot == 'int':
                put(st, mk_tok(kind, ival=eng.num(v)))
            elif slot == 'bool':
                put(st, mk_tok(kind, ival=z3.If(eng.truthy(v), z3.IntVal(1), z3.IntVal(0))))
            else:
                put(st, mk_tok(kind, uval=to_z3(v, 'U')))
            return None

        return model

    def w_byte(eng, st, args, kw, node):
        chk(eng, args[0])
        b = to_z3(args[1], 'bv64')
        eng.oblige(st, 'safety/write_byte-value-fits-one-byte@L%d' % node.lineno, z3.LShR(b, 8) == 0, kind='safety')
        put(st, mk_tok(K_BYTE, bval=b))
        return None

    def w_bytes(eng, st, args, kw, node):
        chk(eng, args[0])
        put(st, mk_tok(K_BYTES, uval=to_z3(args[1], 'U')))
        return None

    def w_elem(eng, st, args, kw, node):
        if len(args) != 3:
            raise Undecided('element codec called with %d arguments' % (len(args) - 1))
        chk(eng, args[1])
        x = args[2]
        if isinstance(x, SRecord) and x.cls == 'dict':
            x = rec_uf(eng, list(x.fields), list(x.fields.values()))
        put(st, mk_tok(K_ELEM, codec=to_z3(args[0], 'U'), uval=to_z3(x, 'U')))
        return None

    m = {'.write_' + s: prim(s) for s in PRIM}
    m.update({'.write_byte': w_byte, '.write_bytes': w_bytes, '._convert_to_encoding': w_elem})
    return m


# ---- reader-side call models: the stream is the ghost list `inp`, the cursor the ghost `pos` ----------------------------------

def reader_models():
    def chk(eng, recv):
        if not _same(recv, _param(eng, 1)):
            raise Undecided('a read goes through something that is not the byte_reader parameter')
        if getattr(eng, 'in_spec', False):
            raise Undecided('a read inside a comprehension / contract expression')

    def take(eng, st, kind, node):
        inp, pos = st.env['inp'], st.env['pos']
        eng.oblige(st, 'read/%s-read-lies-inside-the-written-data@L%d' % (KIND_NAME[kind], node.lineno), z3.And(pos >= 0, pos < inp.len), kind='safety')
        tok = pyvc.from_z3(z3.Select(inp.arr, pos), TOK)
        eng.oblige(st, 'read/%s-read-meets-a-%s-token@L%d' % (KIND_NAME[kind], KIND_NAME[kind], node.lineno), tok[0] == kind)
        st.env['pos'] = pos + 1
        return tok

    def prim(suffix):
        kind, slot = PRIM[suffix]

        def model(eng, st, args, kw, node):
            chk(eng, args[0])
            tok = take(eng, st, kind, node)
            return tok[1] if slot == 'int' else (tok[1] != 0 if slot == 'bool' else tok[4])

        return model

    def r_view(eng, st, args, kw, node):
        chk(eng, args[0])
        n = eng.num(args[1])
        inp, pos = st.env['inp'], st.env['pos']
        k = z3.Int(pyvc.fresh_name('mb_k'))
        kind_of = lambda p: pyvc.sort_of(TOK).accessor(0, 0)(z3.Select(inp.arr, p))
        eng.oblige(st, 'read/byte-view-lies-inside-the-written-data@L%d' % node.lineno, z3.And(n >= 0, pos >= 0, pos + n <= inp.len), kind='safety')
        eng.oblige(st, 'read/byte-view-covers-byte-tokens-only@L%d' % node.lineno, z3.ForAll([k], z3.Implies(z3.And(0 <= k, k < n), kind_of(pos + k) == K_BYTE)))
        st.env['pos'] = pos + n
        j = z3.Int(pyvc.fresh_name('mb_j'))
        return SList(n, z3.Lambda([j], pyvc.sort_of(TOK).accessor(0, 2)(z3.Select(inp.arr, pos + j))), 'bv64')

    def r_bytes(eng, st, args, kw, node):
        chk(eng, args[0])
        tok = take(eng, st, K_BYTES, node)
        lenf = eng.uf('len_U', ['U'], 'int')
        eng.oblige(st, 'read/read_bytes-takes-exactly-the-bytes-written@L%d' % node.lineno, eng.num(args[1]) == lenf(tok[4]))
        return tok[4]

    def r_elem(eng, st, args, kw, node):
        chk(eng, args[1])
        # was this nested value asked for in its hashable (frozen) form?  (third positional argument or keyword)
        fr = kw.get('_should_freeze', args[2] if len(args) > 2 else False)
        st.env['LAST_DECODE_FROZEN'] = eng.truthy(fr)
        tok = take(eng, st, K_ELEM, node)
        eng.oblige(st, 'read/element-decoded-by-the-codec-that-encoded-it@L%d' % node.lineno, tok[3] == to_z3(args[0], 'U'))
        return tok[4]

    m = {'.read_' + s: prim(s) for s in PRIM}
    m.update({'.read_bytes_view': r_view, '.read_bytes': r_bytes, '._convert_from_encoding': r_elem})
    return m


def missing_model(eng, st, args, kw, node):
    return eng.uf('missing', ['U'], 'bool')(to_z3(args[0], 'U'))


def identity_model(eng, st, args, kw, node):
    return args[0]


def lookup_bit_model(eng, st, args, kw, node):
    """modular call of hail.utils.misc.lookup_bit through its contract, which is discharged on the real body for each of the
    eight bit positions of a byte (lookup_bit_contracts): for which_bit == t the result is non-zero iff bit t of the byte is set.
    Preconditions asserted here: the byte has nothing above bit 7 and 0 <= which_bit < 8."""
    if len(args) != 2 or kw:
        raise Undecided('lookup_bit called with unexpected arguments')
    byte, wb = to_z3(args[0], 'bv64'), eng.num(args[1])
    eng.oblige(st, 'call/lookup_bit/pre-byte-has-8-bits-and-bit-index-below-8@L%d' % node.lineno, z3.And(z3.LShR(byte, 8) == 0, wb >= 0, wb < 8))
    r = z3.BitVec(pyvc.fresh_name('lookup_bit'), 64)
    for t in range(8):
        st.assume(z3.Implies(wb == t, z3.And((r != 0) == (z3.Extract(0, 0, z3.LShR(byte, t)) == 1), z3.Or(r == 0, r == 1))))
    return r


def ceil_model(eng, st, args, kw, node):
    """math.ceil(x) is the integer r with r - 1 < x <= r; for x = a / c (a an int, c a positive integer constant - the only
    form the codecs use) that is c * r >= a > c * (r - 1), stated over the integers"""
    x = eng.num(args[0])
    if z3.is_int(x):
        return x
    r = z3.Int(pyvc.fresh_name('ceil'))
    num = den = None
    if z3.is_app(x) and x.decl().kind() == z3.Z3_OP_DIV:
        num, den = x.arg(0), z3.simplify(x.arg(1))
    if num is not None and num.decl().kind() == z3.Z3_OP_TO_REAL and z3.is_rational_value(den) and den.denominator_as_long() == 1 and den.numerator_as_long() > 0:
        a, c = num.arg(0), den.numerator_as_long()
        st.assume(z3.And(c * r >= a, c * (r - 1) < a))
    else:
        st.assume(z3.And(z3.ToReal(r) >= x, z3.ToReal(r) - 1 < x))
    return r


# ---- slot containers: tarray / tstruct / ttuple --------------------------------------------------------------------------------

# tstruct._field_types is the keyword mapping name -> type; the contracts see it as the list of its (name, type) items in declaration
# order with pairwise distinct names (a finite map given by its item list; `.items()` of it is that list)
FT = 'self._field_types'
WHILE, FOR_RANGE, FOR_OTHER, FOR_ANY = 're:^while ', 're:^for \\w+ in range\\(', 're:^for (?!\\w+ in range\\()', 're:^for '
DISTINCT_NAMES = 'forall(lambda i, j: implies(0 <= i and i < j and j < len(%s), %s[i][0] != %s[j][0]))' % (FT, FT, FT)


class Slots:
    def __init__(self, kind):
        self.kind = kind
        if kind == 'array':
            self.cls, self.n, self.pre = 'tarray', 'len(value)', 1
            self.val, self.cod = (lambda i: 'value[%s]' % i), (lambda i: 'self.element_type')
            self.value_type, self.self_fields, self.requires = 'List[U]', {'element_type': 'U'}, []
        elif kind == 'struct':
            self.cls, self.n, self.pre = 'tstruct', 'len(%s)' % FT, 0
            self.val, self.cod = (lambda i: 'value[%s[%s][0]]' % (FT, i)), (lambda i: '%s[%s][1]' % (FT, i))
            self.value_type, self.self_fields, self.requires = 'Array[U, U]', {'_field_types': 'List[Tuple[U, U]]'}, [DISTINCT_NAMES]
        else:
            self.cls, self.n, self.pre = 'ttuple', 'len(self.types)', 0
            self.val, self.cod = (lambda i: 'value[%s]' % i), (lambda i: 'self.types[%s]' % i)
            self.value_type, self.self_fields, self.requires = 'List[U]', {'types': 'List[U]'}, ['len(value) == len(self.types)']
        self.nb = '((%s + 7) // 8)' % self.n
        self.first = 'L0 + 1' if self.pre else 'L0'  # position of the first missing byte
        self.hdr = '(%s + %s)' % (self.first, self.nb)
        # rank(i) = number of present slots before i: recursive definition (the step is added by rank_step_setup with an explicit
        # trigger), plus its monotonicity (lemma by induction: base and step are discharged in rank_lemma(), the induction
        # principle is a paper step)
        self.axioms = ['rank(0) == 0', 'forall(lambda i, j: implies(0 <= i and i <= j and j <= %s, rank(i) <= rank(j)))' % self.n]
        self.step = 'implies(0 <= i_ and i_ < %s, rank(i_ + 1) == rank(i_) + (0 if missing(%s) else 1))' % (self.n, self.val('i_'))
        self.spec_funcs = {'missing': (['U'], 'bool'), 'rank': (['int'], 'int')}

    def bytespec(self, b, base, lim):
        """bit t of byte `b` <=> slot base+t exists below `lim` and is missing; nothing above bit 7"""
        bits = ' and '.join('bit(%s, %d) == (%d < %s and missing(%s))' % (b, t, t, lim, self.val('%s + %d' % (base, t))) for t in range(8))
        return '(%s and (%s >> 8) == 0)' % (bits, b)

    def missing_bytes(self, S, upto):
        tok = '%s[%s + k]' % (S, self.first)
        return 'forall(lambda k: implies(0 <= k < %s, %s[0] == %d and %s))' % (upto, tok, K_BYTE, self.bytespec(tok + '[2]', '8 * k', '%s - 8 * k' % self.n))

    def elems(self, S, upto):
        tok = '%s[%s + rank(i)]' % (S, self.hdr)
        return 'forall(lambda i: implies(0 <= i < %s and not missing(%s), %s[0] == %d and %s[3] == %s and %s[4] == %s))' % (upto, self.val('i'), tok, K_ELEM, tok, self.cod('i'), tok, self.val('i'))

    def length_prefix(self, S):
        return 'len(%s) > L0 and %s[L0][0] == %d and %s[L0][1] == %s' % (S, S, K_I32, S, self.n)

    def layout(self, S):
        """the writer's postcondition = the reader's precondition (identical text over the stream S)"""
        out = []
        if self.pre:
            out.append(('int32-length-first', self.length_prefix(S)))
        out += [
            ('then-ceil-n-over-8-missing-bytes-bit-t-of-byte-k-iff-slot-8k+t-missing', self.missing_bytes(S, self.nb)),
            ('then-exactly-the-present-slots', 'len(%s) == %s + rank(%s)' % (S, self.hdr, self.n)),
            ('present-slots-in-order-each-by-its-codec-missing-slots-write-nothing', self.elems(S, self.n)),
        ]
        return out

    def decoded_is(self, acc, upto, as_map=False):
        want = lambda i: '(None if missing(%s) else %s)' % (self.val(i), self.val(i))
        if as_map:
            key = '%s[j][0]' % FT
            return 'forall(lambda j: implies(0 <= j < %s, %s in %s and %s[%s] == %s))' % (upto, key, acc, acc, key, want('j'))
        return 'forall(lambda j: implies(0 <= j < %s, %s[j] == %s))' % (upto, acc, want('j'))


def rank_step_setup(sl):
    """the recursion step of rank as a quantified fact whose only trigger is rank(i + 1): instantiated where the successor of
    some index is talked about, and never on its own instances (the default trigger rank(i) makes every instance create the
    next one - a matching loop the solver sometimes fell into)"""

    def setup(eng, st):
        iv = z3.Int('i_')
        s2 = st.fork()
        s2.env['i_'] = iv
        body = eng.ev_bool_str(sl.step, s2)
        rank = eng.uf('rank', ['int'], 'int')
        st.assume(z3.ForAll([iv], body, patterns=[rank(iv + 1)]))

    return setup


def rank_lemma(ctx):
    """monotonicity of rank, by induction on j: rank(i) <= rank(i), and rank(i) <= rank(j) => rank(i) <= rank(j + 1)"""
    rank = z3.Function('rank', z3.IntSort(), z3.IntSort())
    present = z3.Function('present', z3.IntSort(), z3.BoolSort())
    i, j, k = z3.Ints('i j k')
    step = z3.ForAll([k], z3.Implies(k >= 0, rank(k + 1) == rank(k) + z3.If(present(k), 1, 0)))
    ctx.add(core.valid('C33/lemma/rank-monotone/base', [step, 0 <= i], rank(i) <= rank(i)))
    ctx.add(core.valid('C33/lemma/rank-monotone/step', [step, 0 <= i, i <= j, rank(i) <= rank(j)], rank(i) <= rank(j + 1)))
    ctx.add(core.satisfiable('C33/lemma/rank-monotone/vacuity', [0 <= i, i <= j, rank(i) <= rank(j), rank(j + 1) == rank(j) + 1]))


def _fn(qualname, path=TYPES):
    return pyvc.find_function(pyast.parse(core.read_repo(path)), qualname)


def local_names(fn):
    """the locals the loop invariants have to mention are read from the real AST, so that renaming them does not matter"""
    d = {}
    for n in pyast.walk(fn):
        if isinstance(n, pyast.While) and isinstance(n.test, pyast.Compare) and len(n.test.ops) == 1 and isinstance(n.test.ops[0], pyast.Lt) and isinstance(n.test.left, pyast.Name) and isinstance(n.test.comparators[0], pyast.Name):
            d.setdefault('cursor', n.test.left.id)
            d.setdefault('bound', n.test.comparators[0].id)
        if isinstance(n, pyast.Call) and isinstance(n.func, pyast.Attribute) and n.func.attr == 'write_byte' and len(n.args) == 1 and isinstance(n.args[0], pyast.Name):
            d.setdefault('acc_byte', n.args[0].id)
        if isinstance(n, pyast.Assign) and len(n.targets) == 1 and isinstance(n.targets[0], pyast.Name):
            v = n.value
            if isinstance(v, pyast.Subscript) and isinstance(v.value, pyast.Name) and isinstance(v.slice, pyast.BinOp) and isinstance(v.slice.op, pyast.FloorDiv):
                d.setdefault('cur', n.targets[0].id)
                d.setdefault('mbs', v.value.id)
            if (isinstance(v, pyast.List) and not v.elts) or (isinstance(v, pyast.Dict) and not v.keys):
                d.setdefault('acc', n.targets[0].id)
    return d


def _need(d, keys, qualname):
    for k in keys:
        if k not in d:
            raise Undecided('anchor-moved: %s no longer has the loop shape the contract describes (no %s found)' % (qualname, k))
    return d


def container_calls(sl):
    def keys(eng, st, args, kw, node):
        d = st.env['self'].fields['_field_types']
        i = z3.Int(pyvc.fresh_name('keys_i'))
        return SList(d.len, z3.Lambda([i], pyvc.sort_of(d.et).accessor(0, 0)(z3.Select(d.arr, i))), 'U')

    def items(eng, st, args, kw, node):
        return st.env['self'].fields['_field_types']

    def length(eng, st, args, kw, node):
        if args and args[0] is st.env.get('self'):
            return st.env['self'].fields['_field_types'].len if sl.kind == 'struct' else st.env['self'].fields['types'].len
        return eng.call_builtin('len', node, st)

    def items_of(eng, st, args, kw, node):
        if isinstance(args[0], SList) and args[0] is st.env['self'].fields['_field_types']:
            return args[0]
        if _same(args[0], eng.inputs.get('value')) and not getattr(eng, 'in_spec', False):
            # `.items()` of the struct VALUE: a mapping lists its items in an order of ITS OWN (a dict / hl.Struct built in any
            # key order is the same Hail value): some list of (name, value[name]) pairs, one per field of the type, names pairwise
            # distinct - and nothing else is known about it; in particular NOT that it follows the type's field order
            if 'VALUE_ITEMS' not in st.env:
                ft = st.env['self'].fields['_field_types']
                vi = pyvc.fresh_value(pyvc.parse_type('List[Tuple[U, U]]'), 'value_items')
                s2 = st.fork()
                s2.env.update({'VI_': vi, 'V_': args[0]})
                for fact in ('len(VI_) == len(%s)' % FT,
                             'forall(lambda i, j: implies(0 <= i and i < j and j < len(VI_), VI_[i][0] != VI_[j][0]))',
                             'forall(lambda i: implies(0 <= i < len(VI_), V_[VI_[i][0]] == VI_[i][1]))',
                             'forall(lambda i: implies(0 <= i < len(VI_), exists(lambda j: 0 <= j < len(%s) and %s[j][0] == VI_[i][0])))' % (FT, FT)):
                    st.assume(eng.ev_bool_str(fact, s2))
                st.env['VALUE_ITEMS'] = vi
            return st.env['VALUE_ITEMS']
        raise Undecided('.items() of something that is neither the field-type mapping nor the struct value')

    def keys_of(eng, st, args, kw, node):
        # `.keys()` / `.values()` of the struct value: the names / the values of its items, in the value's own order
        vi = items_of(eng, st, args, kw, node)
        if vi is st.env['self'].fields['_field_types'] and node.func.attr != 'keys':
            raise Undecided('.values() of the field-type mapping')
        i = z3.Int(pyvc.fresh_name('vk_i'))
        return SList(vi.len, z3.Lambda([i], pyvc.sort_of(vi.et).accessor(0, 0 if node.func.attr == 'keys' else 1)(z3.Select(vi.arr, i))), 'U')

    def type_by_name(eng, st, args, kw, node):
        # self._field_types[name] / self[name] (tstruct.__getitem__, scanned): the type of the field of that name; KeyError for
        # a name that is no field
        cont, key = args
        ft = st.env['self'].fields['_field_types']
        if not (isinstance(key, z3.ExprRef) and key.sort() == pyvc.U) or not (cont is ft or cont is st.env['self']):
            if cont is st.env['self']:
                raise Undecided('subscript of the struct type with something that is not a field name')
            return eng.index(cont, key, st, node)
        j = z3.Int(pyvc.fresh_name('ft_j'))
        name_at = lambda p: pyvc.sort_of(ft.et).accessor(0, 0)(z3.Select(ft.arr, p))
        type_at = lambda p: pyvc.sort_of(ft.et).accessor(0, 1)(z3.Select(ft.arr, p))
        eng.oblige(st, 'safety/field-type-looked-up-by-a-name-that-is-a-field@L%d' % node.lineno, z3.Exists([j], z3.And(0 <= j, j < ft.len, name_at(j) == key)), kind='safety')
        r = z3.Const(pyvc.fresh_name('type_of_field'), pyvc.U)
        st.assume(z3.ForAll([j], z3.Implies(z3.And(0 <= j, j < ft.len, name_at(j) == key), r == type_at(j))))
        return r

    m = {'HailType._missing': missing_model}
    if sl.kind == 'struct':
        m.update({'self.keys': keys, 'self.items': items, 'len': length, '.items': items_of, '.keys': keys_of, '.values': keys_of, 'subscript:self._field_types': type_by_name, 'subscript:self': type_by_name})
    if sl.kind == 'tuple':
        m['len'] = length
    return m


def slot_writer(kind):
    sl = Slots(kind)
    q = sl.cls + '._convert_to_encoding'
    nm = _need(local_names(_fn(q)), ['cursor', 'bound', 'acc_byte'], q)
    I, N, MB = nm['cursor'], nm['bound'], nm['acc_byte']
    common = [
        ('bound-is-the-slot-count', '%s == %s' % (N, sl.n)),
        ('earlier-output-untouched', 'forall(lambda p: implies(0 <= p < L0, out[p] == OUT0[p]))'),
    ] + ([('int32-length-first', sl.length_prefix('out'))] if sl.pre else [('nothing-before-the-missing-bytes', 'len(out) >= L0')])
    return sl, Contract(
        path=TYPES, qualname=q,
        types={'value': sl.value_type, MB: 'bv64', 'out': TOKS},
        self_fields=sl.self_fields,
        extra_inputs={'OUT0': TOKS},
        ghost_init={'out': 'OUT0', 'L0': 'len(OUT0)'},
        consts={'__shift_as_bv__': True},
        calls=dict(writer_models(), **container_calls(sl)),
        spec_funcs=sl.spec_funcs, axioms=sl.axioms, requires=sl.requires, setup=rank_step_setup(sl),
        loops={  # keyed by the shape of the loop header, not by position: moving a loop keeps its invariant attached to it
            WHILE: LoopSpec(modifies=['out'], invariants=common + [
                ('cursor-on-a-group-of-8', '%s >= 0 and %s %% 8 == 0 and %s <= %s + 7' % (I, I, I, N)),
                ('one-byte-per-group-so-far', 'len(out) == %s + %s // 8' % (sl.first, I)),
                ('missing-bytes-so-far', sl.missing_bytes('out', '%s // 8' % I)),
            ]),
            FOR_RANGE: LoopSpec(index='jj', invariants=[('bits-of-this-group-so-far', sl.bytespec(MB, I, 'jj'))]),
            FOR_OTHER: LoopSpec(index='e', modifies=['out'], invariants=common + [
                ('all-missing-bytes-written', sl.missing_bytes('out', sl.nb)),
                ('one-element-per-present-slot-so-far', 'len(out) == %s + rank(e)' % sl.hdr),
                ('present-slots-so-far-in-order', sl.elems('out', 'e')),
            ]),
        },
        ensures=[('earlier-output-untouched', 'forall(lambda p: implies(0 <= p < L0, out[p] == OUT0[p]))')] + sl.layout('out'),
        raises={},
        canaries=[('writes-no-element-data', 'len(out) == %s' % sl.hdr), ('all-missing-bytes-zero', 'forall(lambda k: implies(0 <= k < %s, out[%s + k][2] == 0))' % (sl.nb, sl.first))],
    )


def slot_reader(kind, ctx):
    sl = Slots(kind)
    q = sl.cls + '._convert_from_encoding'
    fn = _fn(q)
    nm = _need(local_names(fn), ['cur', 'mbs', 'acc'] + (['cursor', 'bound'] if kind == 'array' else []), q)
    CUR, MBS, ACC = nm['cur'], nm['mbs'], nm['acc']
    as_map = kind == 'struct'
    I = nm.get('cursor', 'n_')
    inv = [
        ('cursor-past-the-present-slots-so-far', 'pos == %s + rank(%s)' % (sl.hdr, I)),
        ('current-missing-byte-is-the-byte-of-this-group', 'implies(%s %% 8 != 0, %s == %s[%s // 8])' % (I, CUR, MBS, I)),
        ('decoded-so-far-is-the-original-with-None-for-missing', sl.decoded_is(ACC, I, as_map)),
    ]
    if kind == 'array':
        inv = [('bound-is-the-slot-count', '%s == %s' % (nm['bound'], sl.n)), ('cursor-in-range', '0 <= %s and %s <= %s' % (I, I, sl.n)), ('one-decoded-per-slot', 'len(%s) == %s' % (ACC, I))] + inv
    elif kind == 'tuple':
        inv = [('one-decoded-per-slot', 'len(%s) == n_' % ACC)] + inv
    else:
        inv = inv + [('no-other-field', "forall('U', lambda q: implies(q in %s, exists(lambda j: 0 <= j < n_ and %s[j][0] == q)))" % (ACC, FT))]

    def struct_ctor(eng, st, args, kw, node):
        stars = [k for k in node.keywords if k.arg is None]
        if node.args or len(stars) != 1 or len(node.keywords) != 1:
            raise Undecided('Struct(...) not built from one **mapping')
        return eng.ev(stars[0].value, st)

    calls = dict(reader_models(), **container_calls(sl))
    calls.update({'lookup_bit': lookup_bit_model, 'math.ceil': ceil_model, 'frozenlist': identity_model, 'Struct': struct_ctor})
    ens = [('cursor-at-the-end-of-the-written-data', 'pos == len(inp)')]
    if as_map:
        ens += [('every-field-decoded-to-the-original-None-for-missing', sl.decoded_is('result', sl.n, True)), ('no-other-field', "forall('U', lambda q: implies(q in result, exists(lambda j: 0 <= j < %s and %s[j][0] == q)))" % (sl.n, FT))]
    else:
        ens += [('one-decoded-per-slot', 'len(result) == %s' % sl.n), ('every-slot-decoded-to-the-original-None-for-missing', sl.decoded_is('result', sl.n))]
    return sl, Contract(
        path=TYPES, qualname=q,
        types={CUR: 'bv64', ACC: 'Map[U, U]' if as_map else 'List[U]', 'result': 'Map[U, U]' if as_map else 'List[U]'},
        self_fields=sl.self_fields,
        extra_inputs={'value': sl.value_type, 'inp': TOKS, 'L0': 'int'},
        ghost_init={'pos': 'L0'},
        float_as_real=True,
        calls=calls, spec_funcs=sl.spec_funcs, axioms=sl.axioms, setup=rank_step_setup(sl),
        requires=['0 <= L0'] + sl.requires + [e for _, e in sl.layout('inp')],
        loops={(WHILE if kind == 'array' else FOR_ANY): LoopSpec(index=None if kind == 'array' else 'n_', modifies=['pos'], invariants=inv)},
        ensures=ens,
        raises={},
        canaries=[('decodes-nothing', ('len(result) == 0' if not as_map else 'pos == L0'))],
    )


# ---- tstr and the fixed-width primitives ---------------------------------------------------------------------------------------

def _encode_model(eng, st, args, kw, node):
    if len(args) != 2 or args[1] != 'utf-8':
        raise Undecided('str.encode with a codec other than the literal utf-8')
    return eng.uf('utf8', ['U'], 'U')(to_z3(args[0], 'U'))


def _decode_model(eng, st, args, kw, node):
    if len(args) != 2 or args[1] != 'utf-8':
        raise Undecided('bytes.decode with a codec other than the literal utf-8')
    return eng.uf('from_utf8', ['U'], 'U')(to_z3(args[0], 'U'))


STR_LAYOUT = lambda S: [
    ('int32-utf8-BYTE-length-then-the-utf8-bytes', 'len(%s) == L0 + 2 and %s[L0][0] == %d and %s[L0][1] == len_U(utf8(value)) and %s[L0 + 1][0] == %d and %s[L0 + 1][4] == utf8(value)' % (S, S, K_I32, S, S, K_BYTES, S)),
]
STR_FUNCS = {'utf8': (['U'], 'U'), 'from_utf8': (['U'], 'U'), 'len_U': (['U'], 'int')}


def str_writer():
    return Contract(
        path=TYPES, qualname='_tstr._convert_to_encoding', types={'value': 'U', 'out': TOKS},
        self_fields={}, extra_inputs={'OUT0': TOKS}, ghost_init={'out': 'OUT0', 'L0': 'len(OUT0)'},
        calls=dict(writer_models(), **{'.encode': _encode_model}), spec_funcs=STR_FUNCS,
        ensures=[('earlier-output-untouched', 'forall(lambda p: implies(0 <= p < L0, out[p] == OUT0[p]))')] + STR_LAYOUT('out'),
        raises={},
        canaries=[('prefix-is-zero', 'out[L0][1] == 0')],
    )


def str_reader():
    return Contract(
        path=TYPES, qualname='_tstr._convert_from_encoding', types={'result': 'U'},
        self_fields={}, extra_inputs={'value': 'U', 'inp': TOKS, 'L0': 'int'}, ghost_init={'pos': 'L0'},
        calls=dict(reader_models(), **{'.decode': _decode_model}), spec_funcs=STR_FUNCS,
        axioms=['from_utf8(utf8(value)) == value'],  # assumed contract of str.encode / bytes.decode, at the one string the contract talks about
        requires=['0 <= L0'] + [e for _, e in STR_LAYOUT('inp')],
        ensures=[('decodes-the-original-string', 'result == value'), ('cursor-at-the-end-of-the-written-data', 'pos == len(inp)')],
        raises={},
        canaries=[('returns-the-raw-bytes', 'result == utf8(value)')],
    )


def prim_layout(S, suffix):
    kind, slot = PRIM[suffix]
    payload = {'int': '%s[L0][1] == value', 'bool': '%s[L0][1] == (1 if value else 0)', 'U': '%s[L0][4] == value'}[slot] % S
    return [('one-%s-token-holding-the-value' % suffix, 'len(%s) == L0 + 1 and %s[L0][0] == %d and %s' % (S, S, kind, payload))]


PRIM_CLASS = {'int32': '_tint32', 'int64': '_tint64', 'float32': '_tfloat32', 'float64': '_tfloat64', 'bool': '_tbool'}


def prim_writer(suffix):
    slot = PRIM[suffix][1]
    return Contract(
        path=TYPES, qualname=PRIM_CLASS[suffix] + '._convert_to_encoding', types={'value': slot, 'out': TOKS},
        self_fields={}, extra_inputs={'OUT0': TOKS}, ghost_init={'out': 'OUT0', 'L0': 'len(OUT0)'}, calls=writer_models(),
        ensures=[('earlier-output-untouched', 'forall(lambda p: implies(0 <= p < L0, out[p] == OUT0[p]))')] + prim_layout('out', suffix),
        raises={},
        canaries=[('writes-nothing', 'len(out) == L0')],
    )


def prim_reader(suffix):
    slot = PRIM[suffix][1]
    return Contract(
        path=TYPES, qualname=PRIM_CLASS[suffix] + '._convert_from_encoding', types={'result': slot},
        self_fields={}, extra_inputs={'value': slot, 'inp': TOKS, 'L0': 'int'}, ghost_init={'pos': 'L0'}, calls=reader_models(),
        requires=['0 <= L0'] + [e for _, e in prim_layout('inp', suffix)],
        ensures=[('decodes-the-original-value', 'result == value'), ('cursor-at-the-end-of-the-written-data', 'pos == len(inp)')],
        raises={},
        canaries=[('cursor-does-not-move', 'pos == L0')],
    )


# ---- tdict: int32 length, then one required (key, value) struct per item in insertion order, no missing bytes --------------------

# a dict value is seen as the list of its items in insertion order, keys pairwise distinct (`value.items()` is that list)
VI = 'value'
DISTINCT_KEYS = 'forall(lambda i, j: implies(0 <= i and i < j and j < len(value), value[i][0] != value[j][0]))'


def _value_items(eng, st, args, kw, node):
    if not (isinstance(args[0], SList) and args[0] is st.env.get('value')):
        raise Undecided('.items() of something that is not the dict value')
    return args[0]

DICT_CODEC = 'self._array_repr.element_type'
DICT_LAYOUT = lambda S, upto='len(value)': [
    ('int32-length-first', 'len(%s) > L0 and %s[L0][0] == %d and %s[L0][1] == len(value)' % (S, S, K_I32, S)),
    ('then-one-key-value-struct-per-item-in-insertion-order-no-missing-bytes', 'forall(lambda i: implies(0 <= i < %s, %s[L0 + 1 + i][0] == %d and %s[L0 + 1 + i][3] == %s and %s[L0 + 1 + i][4] == rec_key_value(%s[i][0], %s[i][1])))' % (upto, S, K_ELEM, S, DICT_CODEC, S, VI, VI)),
]
DICT_FUNCS = {'rec_key_value': (['U', 'U'], 'U')}


def dict_writer():
    return Contract(
        path=TYPES, qualname='tdict._convert_to_encoding', types={'value': 'List[Tuple[U, U]]', 'out': TOKS, '.element_type': 'U'},
        self_fields={'_array_repr': 'U'}, extra_inputs={'OUT0': TOKS}, ghost_init={'out': 'OUT0', 'L0': 'len(OUT0)'},
        calls=dict(writer_models(), **{'.items': _value_items}), spec_funcs=DICT_FUNCS, requires=[DISTINCT_KEYS],
        loops={FOR_ANY: LoopSpec(index='e', modifies=['out'], invariants=[
            ('earlier-output-untouched', 'forall(lambda p: implies(0 <= p < L0, out[p] == OUT0[p]))'),
            ('one-struct-per-item-so-far', 'len(out) == L0 + 1 + e'),
        ] + DICT_LAYOUT('out', 'e'))},
        ensures=[('earlier-output-untouched', 'forall(lambda p: implies(0 <= p < L0, out[p] == OUT0[p]))'), ('exactly-length-plus-items', 'len(out) == L0 + 1 + len(value)')] + DICT_LAYOUT('out'),
        raises={},
        canaries=[('writes-only-the-length', 'len(out) == L0 + 1')],
    )


def dict_reader():
    nm = _need(local_names(_fn('tdict._convert_from_encoding')), ['acc'], 'tdict._convert_from_encoding')
    D = nm['acc']
    seen = "forall(lambda j: implies(0 <= j < {U}, {V}[j][0] in {D} and {D}[{V}[j][0]] == {V}[j][1]))"
    only = "forall('U', lambda q: implies(q in {D}, exists(lambda j: 0 <= j < {U} and {V}[j][0] == q)))"
    return Contract(
        path=TYPES, qualname='tdict._convert_from_encoding', types={D: 'Map[U, U]', 'result': 'Map[U, U]', '.element_type': 'U', '.key': 'U', '.value': 'U'},
        self_fields={'_array_repr': 'U'}, extra_inputs={'value': 'List[Tuple[U, U]]', 'inp': TOKS, 'L0': 'int'}, ghost_init={'pos': 'L0'},
        calls=dict(reader_models(), **{'frozendict': identity_model}), spec_funcs=DICT_FUNCS,
        axioms=["forall('U', 'U', lambda a, b: rec_key_value(a, b).key == a and rec_key_value(a, b).value == b)"],
        requires=['0 <= L0', DISTINCT_KEYS, 'len(inp) == L0 + 1 + len(value)'] + [e for _, e in DICT_LAYOUT('inp')],
        loops={FOR_ANY: LoopSpec(index='n_', modifies=['pos'], invariants=[
            ('cursor-past-the-items-so-far', 'pos == L0 + 1 + n_'),
            ('items-so-far-are-in-the-dict', seen.format(U='n_', V=VI, D=D)),
            ('nothing-else-is', only.format(U='n_', V=VI, D=D)),
            ('one-entry-per-item', 'len(%s) == n_' % D),
        ])},
        ensures=[
            ('cursor-at-the-end-of-the-written-data', 'pos == len(inp)'),
            ('every-item-written-is-in-the-dict-with-its-value', seen.format(U='len(value)', V=VI, D='result')),
            ('no-other-key', only.format(U='len(value)', V=VI, D='result')),
            ('same-size', 'len(result) == len(value)'),
        ],
        raises={},
        canaries=[('decodes-an-empty-dict', 'len(result) == 0')],
    )


# ---- tset / tinterval / tlocus: one ELEM of the array / struct representation ------------------------------------------------

def _uf_model(name, ats, rt='U'):
    def model(eng, st, args, kw, node):
        return pyvc.from_z3(eng.uf(name, ats, rt)(*[to_z3(a, pyvc.parse_type(t)) for a, t in zip(args, ats)]), pyvc.parse_type(rt))

    return model


def one_elem(S, codec, payload):
    return [('exactly-one-element-of-the-representation-type', 'len(%s) == L0 + 1 and %s[L0][0] == %d and %s[L0][3] == %s and %s[L0][4] == %s' % (S, S, K_ELEM, S, codec, S, payload))]


def _frame():
    return ('earlier-output-untouched', 'forall(lambda p: implies(0 <= p < L0, out[p] == OUT0[p]))')


def delegating_writer(qualname, self_fields, codec, payload, types, spec_funcs, calls=None):
    return Contract(
        path=TYPES, qualname=qualname, types=dict({'value': 'U', 'out': TOKS}, **types), self_fields=self_fields,
        extra_inputs={'OUT0': TOKS}, ghost_init={'out': 'OUT0', 'L0': 'len(OUT0)'},
        calls=dict(writer_models(), **(calls or {})), spec_funcs=spec_funcs,
        ensures=[_frame()] + one_elem('out', codec, payload), raises={},
        canaries=[('writes-nothing', 'len(out) == L0')],
    )


def delegating_reader(qualname, self_fields, codec, payload, types, spec_funcs, axioms, calls, ensures, canary):
    return Contract(
        path=TYPES, qualname=qualname, types=types, self_fields=self_fields,
        extra_inputs={'value': 'U', 'inp': TOKS, 'L0': 'int'}, ghost_init={'pos': 'L0'},
        calls=dict(reader_models(), **calls), spec_funcs=spec_funcs, axioms=axioms,
        requires=['0 <= L0'] + [e for _, e in one_elem('inp', codec, payload)],
        ensures=[('cursor-at-the-end-of-the-written-data', 'pos == len(inp)')] + ensures, raises={},
        canaries=[canary],
    )


SET_FUNCS = {'list_of': (['U'], 'U'), 'set_of': (['U'], 'U')}
IV_REC = 'rec_start_end_includes_start_includes_end'
IV_FUNCS = {IV_REC: (['U', 'U', 'bool', 'bool'], 'U')}
IV_TYPES = {'.start': 'U', '.end': 'U', '.includes_start': 'bool', '.includes_end': 'bool'}
IV_PAYLOAD = IV_REC + '(value.start, value.end, value.includes_start, value.includes_end)'
LOC_FUNCS = {'rec_contig_pos': (['U', 'int'], 'U')}
LOC_TYPES = {'.contig': 'U', '.position': 'int', '.pos': 'int'}
LOC_CODEC = z3.Const('const_tlocus.struct_repr', pyvc.U)


def _locus_writer_model(eng, st, args, kw, node):
    return writer_models()['._convert_to_encoding'](eng, st, [LOC_CODEC] + args, kw, node)


def _locus_reader_model(eng, st, args, kw, node):
    return reader_models()['._convert_from_encoding'](eng, st, [LOC_CODEC] + args, kw, node)


def _record_ctor(cls, names):
    def model(eng, st, args, kw, node):
        vals = list(args) + [kw[n] for n in names[len(args):] if n in kw]
        if len(vals) != len(names):
            raise Undecided('%s(...) built with unexpected arguments' % cls)
        return SRecord(cls, dict(zip(names, vals)))

    return model


def _set_ctor_model(eng, st, args, kw, node):
    # set(xs) / frozenset(xs) needs hashable elements: the element list must have been decoded in its frozen form whatever the
    # caller asked for (a set<array<..>> decoded at top level would otherwise raise TypeError: unhashable type)
    eng.oblige(st, 'set-elements-are-decoded-in-their-hashable-form', st.env.get('LAST_DECODE_FROZEN', z3.BoolVal(False)))
    return _uf_model('set_of', ['U'])(eng, st, args, kw, node)


def simple_codecs():
    freeze_axiom = 'set_of(list_of(value)) == value'  # list(s) enumerates exactly the elements of s (at the one set the contract talks about)
    return [
        delegating_writer('tset._convert_to_encoding', {'_array_repr': 'U'}, 'self._array_repr', 'list_of(value)', {}, SET_FUNCS, {'list': _uf_model('list_of', ['U'])}),
        delegating_reader('tset._convert_from_encoding', {'_array_repr': 'U'}, 'self._array_repr', 'list_of(value)', {'result': 'U'}, SET_FUNCS, [freeze_axiom],
                          {'set': _set_ctor_model, 'frozenset': _set_ctor_model}, [('decodes-the-set-of-the-elements-written', 'result == value')], ('returns-the-list', 'result == list_of(value)')),
        delegating_writer('tinterval._convert_to_encoding', {'_struct_repr': 'U'}, 'self._struct_repr', IV_PAYLOAD, IV_TYPES, IV_FUNCS),
        delegating_reader('tinterval._convert_from_encoding', {'_struct_repr': 'U', 'point_type': 'U'}, 'self._struct_repr', IV_PAYLOAD, dict(IV_TYPES), IV_FUNCS,
                          ['{P}.start == value.start and {P}.end == value.end and {P}.includes_start == value.includes_start and {P}.includes_end == value.includes_end'.format(P=IV_PAYLOAD)],
                          {'hl.Interval': _record_ctor('Interval', ['start', 'end', 'includes_start', 'includes_end', 'point_type'])},
                          [('same-endpoints-and-inclusiveness', 'result.start == value.start and result.end == value.end and result.includes_start == value.includes_start and result.includes_end == value.includes_end'), ('point-type-of-this-type', 'result.point_type == self.point_type')],
                          ('start-and-end-swapped', 'result.start == value.end')),
        delegating_writer('tlocus._convert_to_encoding', {}, 'LOC_CODEC', 'rec_contig_pos(value.contig, value.position)', LOC_TYPES, LOC_FUNCS, {'tlocus.struct_repr._convert_to_encoding': _locus_writer_model}),
        delegating_reader('tlocus._convert_from_encoding', {'reference_genome': 'U'}, 'LOC_CODEC', 'rec_contig_pos(value.contig, value.position)', dict(LOC_TYPES), LOC_FUNCS,
                          ['rec_contig_pos(value.contig, value.position).contig == value.contig and rec_contig_pos(value.contig, value.position).pos == value.position'],
                          {'tlocus.struct_repr._convert_from_encoding': _locus_reader_model, 'genetics.Locus': _record_ctor('Locus', ['contig', 'position', 'reference_genome'])},
                          [('same-contig-and-position', 'result.contig == value.contig and result.position == value.position'), ('reference-genome-of-this-type', 'result.reference_genome == self.reference_genome')],
                          ('position-zero', 'result.position == 0')),
    ]


# ---- tndarray writer: shape as int64s, then the elements in the order numpy iterates with order='F' --------------------------------

def _nditer_model(eng, st, args, kw, node):
    eng.oblige(st, 'ndarray/elements-are-iterated-in-fortran-(column-major)-order@L%d' % node.lineno, z3.BoolVal(len(args) == 1 and kw.get('order') == 'F' and set(kw) == {'order'}))
    v = to_z3(args[0], 'U')
    k = z3.Int(pyvc.fresh_name('f_k'))
    return SList(eng.uf('attr_size', ['U'], 'int')(v), z3.Lambda([k], eng.uf('forder', ['U', 'int'], 'U')(v, k)), 'U')


ND = 'len(value.shape)'
ND_SHAPE = lambda S, upto=ND: 'forall(lambda d: implies(0 <= d < %s, %s[L0 + d][0] == %d and %s[L0 + d][1] == value.shape[d]))' % (upto, S, K_I64, S)
ND_ELEMS = lambda S, upto: 'forall(lambda k: implies(0 <= k < %s, %s[L0 + %s + k][0] == %d and %s[L0 + %s + k][3] == self.element_type and %s[L0 + %s + k][4] == forder(value, k)))' % (upto, S, ND, K_ELEM, S, ND, S, ND)


def ndarray_writer():
    general = 'not (self.element_type in _numeric_types)'
    fr = ('earlier-output-untouched', 'forall(lambda p: implies(0 <= p < L0, out[p] == OUT0[p]))')
    return Contract(
        path=TYPES, qualname='tndarray._convert_to_encoding',
        types={'value': 'U', 'out': TOKS, '.shape': 'List[int]', '.size': 'int', '.data': 'U'},
        self_fields={'element_type': 'U'}, extra_inputs={'OUT0': TOKS, '_numeric_types': 'Array[U, bool]'}, ghost_init={'out': 'OUT0', 'L0': 'len(OUT0)'},
        calls=dict(writer_models(), **{'np.nditer': _nditer_model}), spec_funcs={'forder': (['U', 'int'], 'U')},
        requires=['value.size >= 0'],
        loops={
            're:^for \\w+ in value\\.shape$': LoopSpec(index='d_', modifies=['out'], invariants=[fr, ('one-int64-per-dimension-so-far', 'len(out) == L0 + d_'), ('shape-so-far', ND_SHAPE('out', 'd_'))]),
            're:^for \\w+ in np\\.nditer\\(': LoopSpec(index='e_', modifies=['out'], invariants=[fr, ('one-element-per-step', 'len(out) == L0 + %s + e_' % ND), ('shape', ND_SHAPE('out')), ('elements-so-far-in-fortran-order', ND_ELEMS('out', 'e_'))]),
        },
        ensures=[
            fr,
            ('shape-first-one-int64-per-dimension-in-order', 'len(out) >= L0 + %s and %s' % (ND, ND_SHAPE('out'))),
            ('then-every-element-in-fortran-order-no-missing-bits', 'implies(%s, len(out) == L0 + %s + value.size and %s)' % (general, ND, ND_ELEMS('out', 'value.size'))),
            ('numeric-fast-path-writes-the-raw-buffer', 'implies(value.size > 0 and not (%s), len(out) == L0 + %s + 1 and out[L0 + %s][0] == %d and out[L0 + %s][4] == value.data)' % (general, ND, ND, K_BYTES, ND)),
        ],
        raises={},
        canaries=[('writes-only-the-shape', 'len(out) == L0 + %s' % ND)],
    )


# ---- HailType base: _missing, _to_encoding, _from_encoding -----------------------------------------------------------------------

def missing_contract():
    return Contract(
        path=TYPES, qualname='HailType._missing', types={'value': 'U', 'result': 'bool'},
        ensures=[('None-is-missing', 'implies(value is None, result)'), ('pandas-NA-is-missing', 'implies(value is pd.NA, result)'), ('nothing-else-is', 'implies(result, value is None or value is pd.NA)')],
        raises={}, canaries=[('everything-is-missing', 'result')],
    )


SELF_CODEC = z3.Const('this_type', pyvc.U)


def to_encoding_contract():
    def new_buf(eng, st, args, kw, node):
        if args:
            raise Undecided('bytearray(...) with arguments')
        return SRecord('bytearray', {'toks': pyvc.from_z3(pyvc.sort_of(('list', TOK)).mk(z3.IntVal(0), z3.K(z3.IntSort(), mk_tok(K_BYTE))), ('list', TOK))})

    def new_writer(eng, st, args, kw, node):
        return SRecord('ByteWriter', {'_buf': args[0]})

    def encode(eng, st, args, kw, node):
        w = args[0]
        if not (isinstance(w, SRecord) and w.cls == 'ByteWriter' and isinstance(w.fields['_buf'], SRecord)):
            raise Undecided('_convert_to_encoding not handed a ByteWriter over a fresh buffer')
        toks = w.fields['_buf'].fields['toks']
        w.fields['_buf'].fields['toks'] = SList(toks.len + 1, z3.Store(toks.arr, toks.len, mk_tok(K_ELEM, codec=SELF_CODEC, uval=to_z3(args[1], 'U'))), TOK)
        return None

    def freeze(eng, st, args, kw, node):
        if not (isinstance(args[0], SRecord) and args[0].cls == 'bytearray'):
            raise Undecided('bytes(...) of something that is not the buffer')
        return args[0].fields['toks']

    return Contract(
        path=TYPES, qualname='HailType._to_encoding', types={'value': 'U', 'result': TOKS}, self_fields={},
        calls={'bytearray': new_buf, 'ByteWriter': new_writer, 'self._convert_to_encoding': encode, 'bytes': freeze},
        consts={'SELF_CODEC': SELF_CODEC},
        ensures=[('the-bytes-are-exactly-the-encoding-of-the-value-by-this-type', 'len(result) == 1 and result[0][0] == %d and result[0][3] == SELF_CODEC and result[0][4] == value' % K_ELEM)],
        raises={}, canaries=[('returns-an-empty-buffer', 'len(result) == 0')],
    )


def from_encoding_contract(ctx):
    inl = Inliner(ctx, ClassIndex([BYTEIO]))

    def decode(eng, st, args, kw, node):
        r = args[0]
        if not (isinstance(r, SRecord) and r.cls == 'ByteReader'):
            raise Undecided('_convert_from_encoding not handed a ByteReader')
        eng.oblige(st, 'decoding-starts-at-offset-0-of-the-given-bytes@L%d' % node.lineno, z3.And(eng.equal(r.fields['_offset'], 0), eng.equal(r.fields['_memview'], st.env['encoding'])))
        eng.oblige(st, 'decoding-without-freezing-by-default@L%d' % node.lineno, z3.BoolVal(len(args) == 1 and not kw))
        return eng.uf('decoded_by_this_type', ['U'], 'U')(to_z3(st.env['encoding'], 'U'))

    return Contract(
        path=TYPES, qualname='HailType._from_encoding', types={'encoding': 'U', 'result': 'U'}, self_fields={},
        calls={'memoryview': identity_model, 'ByteReader': lambda eng, st, args, kw, node: inl.construct('ByteReader', args, kw, st, node), 'self._convert_from_encoding': decode},
        spec_funcs={'decoded_by_this_type': (['U'], 'U')},
        ensures=[('returns-what-this-type-decodes-from-the-start-of-the-bytes', 'result == decoded_by_this_type(encoding)')],
        raises={}, canaries=[('returns-the-bytes', 'result == encoding')],
    )


# ---- tcall: one int32 token, bit-packed ------------------------------------------------------------------------------------------

def call_codec(ctx):
    """`bit-packed calls`: _tcall._convert_to_encoding writes exactly ONE int32 (the engine reads TCall as EInt32) whose bit 0 is
    the phase flag, bits 1-2 the ploidy and bits 3.. the allele representation - for EVERY ploidy 0, 1, 2, phased or not; the
    reader takes exactly one int32.  The real method bodies are executed with contracts/C34.py's value model (Python ints as
    64-bit vectors with no-overflow obligations, one run per ploidy, alleles in the engine's range); that the engine builds the
    very same int32, that no arithmetic step leaves 64 bits, the diploid pair index and that decoding gives the call back are
    C34's claims (E)/(D) and are not repeated here."""
    from contracts import C34

    table = C34.small_table_python()
    a0, a1 = z3.BitVecs('a0 a1', 32)
    phased = z3.Bool('phased')
    one = z3.BitVecVal(1, 64)
    for ploidy in (0, 1, 2):
        if ploidy == 2:
            a0, a1 = z3.ZeroExt(17, z3.BitVec('a0', 15)), z3.ZeroExt(17, z3.BitVec('a1', 15))
        dom = C34._domain(ploidy, a0, a1, phased)
        A0, A1 = C34.bv64(a0), C34.bv64(a1)
        writes = []

        def write(eng, st, args, kw, node, writes=writes):
            if len(args) != 1 or kw:
                raise Undecided('write_int32 called with unexpected arguments')
            st.env['WRITES'] = st.env['WRITES'] + 1
            writes.append((list(st.pc), to_z3(args[0], 'bv64')))
            return None

        c = C34.encode_contract(ploidy, A0, A1, phased, [], dom)
        c.calls = {'byte_writer.write_int32': write}
        c.ghost_init = {'WRITES': '0'}
        c.ensures = [('exactly-one-int32-is-written', 'WRITES == 1')]
        c.raises = {}  # neither an assertion nor anything else may fail for a call in range
        c.bv_checked = False  # that no step overflows 64 bits is discharged in C34, on the same bodies
        eng = _run(ctx, c)
        label = 'C33/' + eng.label
        ctx.add(core.decided(label + '/the-int32-write-is-reached', bool(writes), '%d write(s)' % len(writes), kind='vacuity'))
        j, k = (A0, z3.If(phased, A0 + A1, A1)) if ploidy == 2 else (A0, A0)
        rep = {0: z3.BitVecVal(0, 64), 1: A0, 2: z3.UDiv(k * (k + 1), z3.BitVecVal(2, 64)) + j}[ploidy]
        for pc_, w in writes:
            hyp = list(dom) + list(pc_)
            u = w & z3.BitVecVal(0xFFFFFFFF, 64)  # the 32 bits that reach the wire
            ctx.add(core.valid(label + '/bit-0-is-the-phase-flag-for-every-ploidy', hyp, ((w & one) == one) == phased))
            ctx.add(core.valid(label + '/bits-1-2-are-the-ploidy', hyp, (z3.LShR(u, 1) & z3.BitVecVal(3, 64)) == ploidy))
            if ploidy < 2:  # the diploid pair index (a 15 x 15 bit multiplication) and its sign wrap are discharged once, in C34 (E)
                ctx.add(core.valid(label + '/bits-3-up-are-the-allele-representation', hyp, z3.LShR(u, 3) == rep))
                ctx.add(core.valid(label + '/value-fits-a-signed-int32', hyp, w == z3.SignExt(32, z3.Extract(31, 0, w))))
        ctx.add(core.satisfiable(label + '/vacuity/a-phased-call-reaches-the-write', list(dom) + [z3.Or(*[z3.And(phased, *pc_) for pc_, _ in writes])], kind='vacuity'))
    # reader: exactly one int32 is taken from the stream, whatever it holds (one run over an unconstrained 32-bit word)
    r32 = z3.BitVec('wire_int32', 32)
    ctor_paths = []

    def read(eng, st, args, kw, node):
        if args or kw:
            raise Undecided('read_int32 called with arguments')
        st.env['READS'] = st.env['READS'] + 1
        return z3.SignExt(32, r32)

    d = C34.decode_contract(0, r32, ctor_paths, table, ctx, (), hint=None)
    d.label = '_tcall._convert_from_encoding'
    d.bv_checked = False
    d.calls = dict(d.calls, **{'byte_reader.read_int32': read, 'allele_pair_sqrt': lambda eng, st, args, kw, node: eng.uf('pair_of_index', ['bv64'], 'bv64')(to_z3(args[0], 'bv64')),
                               'allele_pair': lambda eng, st, args, kw, node: eng.uf('packed_pair', ['bv64', 'bv64'], 'bv64')(to_z3(args[0], 'bv64'), to_z3(args[1], 'bv64'))})
    d.ghost_init = {'READS': '0'}
    d.ensures = [('exactly-one-int32-is-read', 'READS == 1')]
    d.raises = {'*': 'READS == 1'}
    _run(ctx, d)
    ctx.add(core.decided('C33/_tcall._convert_from_encoding/the-Call-constructor-is-reached', bool(ctor_paths), '%d path(s)' % len(ctor_paths), kind='vacuity'))


# ---- the call sites: Backend.execute (bytes from the engine -> value) and EncodedLiteral.encoded_value (value -> text for the engine)

BACKEND = 'hail/python/hail/backend/backend.py'
IRPY = 'hail/python/hail/ir/ir.py'
TVOID = z3.Const('const_tvoid', pyvc.U)


def _pair_funcs():
    """contract-expression helpers over the value `execute` returns: `(value, timings) if timed else value` is a Python pair
    on the timed paths and the bare value on the others"""
    is_pair = lambda r: isinstance(r, tuple) and len(r) == 2
    return {
        'is_pair': pyvc.SFunc('is_pair', lambda eng, st, args, kw, node: z3.BoolVal(is_pair(args[0]))),
        'value_part': pyvc.SFunc('value_part', lambda eng, st, args, kw, node: args[0][0] if is_pair(args[0]) else args[0]),
        'timings_part': pyvc.SFunc('timings_part', lambda eng, st, args, kw, node: args[0][1] if is_pair(args[0]) else None),
    }


def execute_contract(timed):
    """Backend.execute: whatever bytes the engine returns for an IR of a non-void type - of ANY length, a struct{} / tuple()
    value is encoded in zero bytes - are handed, unchanged and whole, to `_from_encoding` of the IR's own type and its result
    is the value returned; "no value" (None without decoding) exists only for IR of type void.  One contract per value of
    `timed` (the two shapes of the returned value, a pair and a bare value, have no common sort)."""

    def rpc(eng, st, args, kw, node):
        if len(args) != 2 or kw:
            raise Undecided('self._rpc called with unexpected arguments')
        st.env['RPC_CALLS'] = st.env['RPC_CALLS'] + 1
        failed = SExc('FatalError', term=z3.Const(pyvc.fresh_name('fatal_error'), pyvc.U))
        return_pair = (st.env['ENGINE_BYTES'], to_z3(st.env['ENGINE_TIMINGS'], 'U'))
        raise pyvc.Fork(node, [('engine-answers', None, 'value', return_pair), ('engine-fails', None, 'raise', failed)])

    def decode(eng, st, args, kw, node):
        if len(args) != 2 or kw:
            raise Undecided('_from_encoding called with unexpected arguments')
        st.env['DECODES'] = st.env['DECODES'] + 1
        eng.oblige(st, 'decoded-by-the-type-of-the-ir-that-was-executed@L%d' % node.lineno, eng.equal(args[0], eng.getattr(st.env['ir'], 'typ', st, node)))
        eng.oblige(st, 'decoder-gets-exactly-the-bytes-the-engine-returned@L%d' % node.lineno, eng.equal(args[1], st.env['ENGINE_BYTES']) if isinstance(args[1], SList) else z3.BoolVal(False))
        return eng.uf('DECODED_BY', ['U', 'List[int]'], 'U')(to_z3(args[0], 'U'), to_z3(st.env['ENGINE_BYTES']))

    opaque = lambda name: (lambda eng, st, args, kw, node: z3.Const(pyvc.fresh_name(name), pyvc.U))
    non_void = 'ir.typ != tvoid'
    return Contract(
        path=BACKEND, qualname='Backend.execute', label='Backend.execute[timed=%s]' % timed, types={'ir': 'U', '.typ': 'U'},
        setup=lambda eng, st: st.env.__setitem__('timed', timed),
        self_fields={'functions': 'List[U]'}, extra_inputs={'ENGINE_BYTES': 'List[int]', 'ENGINE_TIMINGS': 'U'},
        opaque_methods=True,  # any other method call is recorded and fails `no-call-outside-the-contract`
        ghost_init={'RPC_CALLS': '0', 'DECODES': '0'},
        consts=dict({'tvoid': TVOID, 'FatalError': 'FatalError'}, **_pair_funcs()),
        spec_funcs={'DECODED_BY': (['U', 'List[int]'], 'U')},
        calls={'ExecutePayload': opaque('payload'), 'self._render_ir': opaque('rendered_ir'), '.to_dataclass': opaque('fn_dataclass'), 'self._rpc': rpc,
               '._from_encoding': decode, '.maybe_user_error': lambda eng, st, args, kw, node: args[0]},
        ensures=[
            ('the-engine-is-asked-exactly-once', 'RPC_CALLS == 1'),
            ('every-non-void-type-returns-what-its-own-type-decodes-from-the-engine-bytes-whatever-their-length', 'implies(%s, DECODES == 1 and value_part(result) == DECODED_BY(ir.typ, ENGINE_BYTES))' % non_void),
            ('only-void-yields-None-without-decoding', 'implies(not (%s), DECODES == 0 and value_part(result) is None)' % non_void),
            ('timed-returns-the-pair-value-timings', 'is_pair(result) == timed and implies(timed, timings_part(result) == ENGINE_TIMINGS)'),
        ],
        raises={'FatalError': 'RPC_CALLS == 1 and DECODES == 0', '*': 'RPC_CALLS == 1 and DECODES == 0'},
        canaries=[('never-decodes', 'DECODES == 0'), ('void-is-decoded-too', 'implies(not (%s), DECODES == 1)' % non_void)],
    )


def encoded_literal_contract():
    """EncodedLiteral.encoded_value: the text put into the IR for the engine is the base64 text of exactly the bytes that the
    literal's OWN type encodes the literal's OWN value to (computed once, then reused; a text handed in by copy() is kept)"""

    def encode(eng, st, args, kw, node):
        if len(args) != 2 or kw:
            raise Undecided('_to_encoding called with unexpected arguments')
        me = st.env['self'].fields
        eng.oblige(st, 'encoded-by-the-type-of-the-literal@L%d' % node.lineno, eng.equal(args[0], me['_typ']))
        eng.oblige(st, 'the-value-encoded-is-the-value-of-the-literal@L%d' % node.lineno, eng.equal(args[1], me['_value']))
        return eng.uf('ENCODED_BY', ['U', 'U'], 'U')(to_z3(args[0], 'U'), to_z3(args[1], 'U'))

    def b64(eng, st, args, kw, node):
        if len(args) != 1 or kw:
            raise Undecided('b64encode called with unexpected arguments')
        return eng.uf('B64_OF', ['U'], 'U')(to_z3(args[0], 'U'))

    def text(eng, st, args, kw, node):
        if len(args) != 2 or args[1] not in ('utf-8', 'ascii'):
            raise Undecided('bytes.decode with a codec other than the literal utf-8 / ascii')
        return eng.uf('TEXT_OF', ['U'], 'U')(to_z3(args[0], 'U'))

    sent = 'TEXT_OF(B64_OF(ENCODED_BY(self._typ, self._value)))'
    return Contract(
        path=IRPY, qualname='EncodedLiteral.encoded_value', types={'result': 'U'}, self_fields={'_typ': 'U', '_value': 'U', '_encoded_value': 'U'},
        calls={'._to_encoding': encode, 'base64.b64encode': b64, '.decode': text},
        opaque_methods=True,  # any other method call is recorded and fails `no-call-outside-the-contract`
        spec_funcs={'ENCODED_BY': (['U', 'U'], 'U'), 'B64_OF': (['U'], 'U'), 'TEXT_OF': (['U'], 'U')},
        ensures=[
            ('text-sent-is-the-base64-of-the-bytes-this-type-encodes-this-value-to', 'implies(old(self._encoded_value) is None, result == %s)' % sent),
            ('a-text-computed-earlier-is-reused-unchanged', 'implies(old(self._encoded_value) is not None, result == old(self._encoded_value))'),
            ('type-and-value-of-the-literal-untouched', 'self._typ == old(self._typ) and self._value == old(self._value)'),
        ],
        raises={}, canaries=[('sends-the-value-itself', 'result == self._value')],
    )


def call_site_scan(ctx):
    """closed world: outside expr/types.py the front end turns values into engine bytes and engine bytes into values nowhere but
    in the two functions under contract above"""
    root = os.path.join(core.REPO, 'hail', 'python', 'hail')
    if not os.path.isdir(root):
        raise Undecided('anchor-moved: hail/python/hail')
    sites = []
    for d, _, files in sorted(os.walk(root)):
        for f in sorted(files):
            if not f.endswith('.py'):
                continue
            rel = os.path.relpath(os.path.join(d, f), core.REPO)
            if rel == TYPES:
                continue
            text = open(os.path.join(d, f), encoding='utf-8').read()
            if not re.search(r'_(to|from)_encoding\b|_convert_(to|from)_encoding\b', text):
                continue
            tree = pyast.parse(text)
            parents = {}
            for n in pyast.walk(tree):
                for ch in pyast.iter_child_nodes(n):
                    parents[ch] = n
            for n in pyast.walk(tree):
                if isinstance(n, pyast.Attribute) and n.attr in ('_to_encoding', '_from_encoding', '_convert_to_encoding', '_convert_from_encoding'):
                    q, cur = [], n
                    while cur in parents:
                        cur = parents[cur]
                        if isinstance(cur, (pyast.FunctionDef, pyast.AsyncFunctionDef, pyast.ClassDef)):
                            q.append(cur.name)
                    sites.append('%s::%s uses %s' % (rel, '.'.join(reversed(q)), n.attr))
    want = ['%s::Backend.execute uses _from_encoding' % BACKEND, '%s::EncodedLiteral.encoded_value uses _to_encoding' % IRPY]
    ctx.add(core.decided('C33/call-sites/values-cross-to-the-engine-only-in-EncodedLiteral.encoded_value-and-Backend.execute', sorted(sites) == sorted(want), repr(sorted(sites))[:400], kind='frame'))


def lookup_bit_contracts():
    """(byte >> which_bit) & 1 for each of the eight bit positions a missing byte has"""
    out = []
    for t in range(8):
        out.append(Contract(
            path=MISC, qualname='lookup_bit', label='lookup_bit[which_bit=%d]' % t, types={'byte': 'bv64', 'result': 'bv64'},
            setup=(lambda t: lambda eng, st: st.env.__setitem__('which_bit', t))(t),
            requires=['(byte >> 8) == 0', 'byte >= 0'],
            ensures=[('nonzero-iff-bit-%d-is-set' % t, '(result != 0) == bit(byte, %d)' % t), ('zero-or-one', 'result == 0 or result == 1')],
            raises={}, canaries=[('always-zero', 'result == 0')],
        ))
    return out


# ---- byte layer: hail/utils/byte_reader.py --------------------------------------------------------------------------------------

FMT_NAME = {'=i': 'i32', '=q': 'i64', '=f': 'f32', '=d': 'f64', '=B': 'u8'}
FMT_SORT = {'=i': 'int', '=q': 'int', '=f': 'U', '=d': 'U', '=B': 'int'}
WRITE_FMT = {'write_byte': '=B', 'write_int32': '=i', 'write_int64': '=q', 'write_float32': '=f', 'write_float64': '=d'}
READ_FMT = {'read_int32': '=i', 'read_int64': '=q', 'read_float32': '=f', 'read_float64': '=d'}


def _fmt_of(arg):
    if not isinstance(arg, str):
        raise Undecided('struct format is not a string literal')
    try:
        return arg, pystruct.calcsize(arg)
    except pystruct.error:
        raise Undecided('struct format %r' % arg)


def _pk(eng, fmt, vsort):
    return eng.uf('pk_' + FMT_NAME.get(fmt, re.sub(r'\W', '_', fmt)), [vsort, 'int'], 'int')


def _upk(eng, fmt, w, vsort):
    return eng.uf('upk_' + FMT_NAME.get(fmt, re.sub(r'\W', '_', fmt)), ['int'] * w, vsort)


def _pack_model(eng, st, args, kw, node):
    fmt, w = _fmt_of(args[0])
    if len(args) != 2:
        raise Undecided('struct.pack with %d values' % (len(args) - 1))
    vs = eng.c.types.get('v', 'U')
    k = z3.Int(pyvc.fresh_name('pk_k'))
    return SList(z3.IntVal(w), z3.Lambda([k], _pk(eng, fmt, vs)(to_z3(args[1], pyvc.parse_type(vs)), k)), 'int')


def _unpack_model(eng, st, args, kw, node):
    fmt, w = _fmt_of(args[0])
    data = args[1]
    if not isinstance(data, SList):
        raise Undecided('struct.unpack of something that is not a buffer slice')
    eng.oblige(st, 'safety/struct.unpack-gets-exactly-calcsize(%s)-bytes@L%d' % (fmt, node.lineno), data.len == w, kind='safety')
    vs = eng.c.types.get('result', 'U')
    return (pyvc.from_z3(_upk(eng, fmt, w, vs)(*[z3.Select(data.arr, i) for i in range(w)]), pyvc.parse_type(vs)),)


def byte_writer_contract(meth):
    fmt = WRITE_FMT.get(meth)
    frame = [('appends-only', 'len(self._buf) >= len(old(self._buf)) and forall(lambda p: implies(0 <= p < len(old(self._buf)), self._buf[p] == old(self._buf)[p]))')]
    if fmt is not None:
        w = pystruct.calcsize(fmt)
        vs = FMT_SORT[fmt]
        return Contract(
            path=BYTEIO, qualname='ByteWriter.' + meth, types={'v': vs}, self_fields={'_buf': 'List[int]'},
            calls={'struct.pack': _pack_model}, spec_funcs={'pk_' + FMT_NAME[fmt]: ([vs, 'int'], 'int')},
            ensures=frame + [('exactly-%d-bytes-the-%s-image-of-the-value' % (w, fmt), 'len(self._buf) == len(old(self._buf)) + %d and %s' % (w, ' and '.join('self._buf[len(old(self._buf)) + %d] == pk_%s(v, %d)' % (k, FMT_NAME[fmt], k) for k in range(w))))],
            raises={}, canaries=[('appends-nothing', 'len(self._buf) == len(old(self._buf))')],
        )
    if meth == 'write_bool':
        return Contract(
            path=BYTEIO, qualname='ByteWriter.write_bool', types={'v': 'bool'}, self_fields={'_buf': 'List[int]'}, consts={'__bytes_as_lists__': True},
            ensures=frame + [('exactly-one-byte-1-for-true-0-for-false', 'len(self._buf) == len(old(self._buf)) + 1 and self._buf[len(old(self._buf))] == (1 if v else 0)')],
            raises={}, canaries=[('always-writes-zero', 'self._buf[len(old(self._buf))] == 0')],
        )
    return Contract(
        path=BYTEIO, qualname='ByteWriter.write_bytes', types={'bs': 'List[int]'}, self_fields={'_buf': 'List[int]'},
        ensures=frame + [('exactly-the-given-bytes', 'len(self._buf) == len(old(self._buf)) + len(bs) and forall(lambda k: implies(0 <= k < len(bs), self._buf[len(old(self._buf)) + k] == bs[k]))')],
        raises={}, canaries=[('appends-nothing', 'len(self._buf) == len(old(self._buf))')],
    )


def byte_reader_contract(meth, ctx):
    fmt = READ_FMT.get(meth)
    sf = {'_memview': 'List[int]', '_offset': 'int'}
    frame = ('buffer-untouched', 'len(self._memview) == len(old(self._memview)) and forall(lambda p: implies(0 <= p < len(self._memview), self._memview[p] == old(self._memview)[p]))')
    if fmt is not None:
        w = pystruct.calcsize(fmt)
        vs = FMT_SORT[fmt]
        nm = FMT_NAME[fmt]
        image = ' and '.join('self._memview[self._offset + %d] == pk_%s(v, %d)' % (k, nm, k) for k in range(w))

        def setup(eng, st, fmt=fmt, w=w, vs=vs):
            # assumed contract of the struct module: unpack(fmt, pack(fmt, v)) == (v,) for the same format string - used at the
            # one value the contract talks about (a quantifier-free hypothesis, so that a wrong reader yields a counter-model)
            x = pyvc.to_z3(st.env['v'], pyvc.parse_type(vs))
            st.assume(_upk(eng, fmt, w, vs)(*[_pk(eng, fmt, vs)(x, z3.IntVal(k)) for k in range(w)]) == x)

        return Contract(
            path=BYTEIO, qualname='ByteReader.' + meth, types={'result': vs}, self_fields=sf, extra_inputs={'v': vs}, setup=setup,
            calls={'struct.unpack': _unpack_model}, spec_funcs={'pk_' + nm: ([vs, 'int'], 'int')},
            requires=['0 <= self._offset', 'self._offset + %d <= len(self._memview)' % w, image],
            ensures=[('returns-the-value-whose-image-lies-at-the-offset', 'result == v'), ('advances-by-exactly-the-%d-bytes-written' % w, 'self._offset == old(self._offset) + %d' % w), frame],
            raises={}, canaries=[('offset-does-not-move', 'self._offset == old(self._offset)')],
        )
    if meth == 'read_bool':
        return Contract(
            path=BYTEIO, qualname='ByteReader.read_bool', types={'result': 'bool'}, self_fields=sf, extra_inputs={'v': 'bool'},
            requires=['0 <= self._offset', 'self._offset + 1 <= len(self._memview)', 'self._memview[self._offset] == (1 if v else 0)'],
            ensures=[('returns-the-flag-written', 'result == v'), ('advances-by-exactly-one-byte', 'self._offset == old(self._offset) + 1'), frame],
            raises={}, canaries=[('always-false', 'not result')],
        )
    view_post = [('returns-exactly-the-next-num_bytes-bytes', 'len(result) == num_bytes and forall(lambda k: implies(0 <= k < num_bytes, result[k] == old(self._memview)[old(self._offset) + k]))'), ('advances-by-exactly-num_bytes', 'self._offset == old(self._offset) + num_bytes'), frame]
    pre = ['0 <= self._offset', '0 <= num_bytes', 'self._offset + num_bytes <= len(self._memview)']
    if meth == 'read_bytes_view':
        return Contract(path=BYTEIO, qualname='ByteReader.read_bytes_view', types={'num_bytes': 'int', 'result': 'List[int]'}, self_fields=sf, requires=pre, ensures=view_post, raises={}, canaries=[('returns-nothing', 'len(result) == 0')])
    inl = Inliner(ctx, ClassIndex([BYTEIO]), types={'num_bytes': 'int'})
    return Contract(
        path=BYTEIO, qualname='ByteReader.read_bytes', types={'num_bytes': 'int', 'result': 'List[int]'}, self_fields=sf, requires=pre,
        calls={'self.read_bytes_view': lambda eng, st, args, kw, node: inl.call('ByteReader', 'read_bytes_view', st.env['self'], args, kw, st, node), '.tobytes': identity_model},
        ensures=view_post, raises={}, canaries=[('returns-nothing', 'len(result) == 0')],
    )


# ---- syntactic obligations ----------------------------------------------------------------------------------------------------

def _norm(s):
    return re.sub(r'\s+', ' ', s).strip()


def _method_src(tree, cls, meth):
    c = [n for n in tree.body if isinstance(n, pyast.ClassDef) and n.name == cls]
    if not c:
        raise Undecided('anchor-moved: class %s' % cls)
    f = [n for n in c[0].body if isinstance(n, pyast.FunctionDef) and n.name == meth]
    if not f:
        raise Undecided('anchor-moved: %s.%s' % (cls, meth))
    body = [s for s in f[-1].body if not (isinstance(s, pyast.Expr) and isinstance(s.value, pyast.Constant))]
    return '; '.join(pyast.unparse(s) for s in body), f[-1]


def python_scans(ctx):
    tree = pyast.parse(core.read_repo(TYPES))
    D = lambda name, ok, detail: ctx.add(core.decided('C33/representation/' + name, bool(ok), detail[:300], kind='scan'))
    # the class-level facts the contracts read fields / lengths through
    for cls, meth, want in [
        ('tarray', 'element_type', 'return self._element_type'),
        ('tarray', '__init__', 'self._element_type = element_type; super(tarray, self).__init__()'),
        ('tstruct', '__len__', 'return len(self._fields)'),
        ('tstruct', '__iter__', 'return iter(self._field_types)'),
        ('tstruct', 'items', 'return self._field_types.items()'),
        ('ttuple', 'types', 'return self._types'),
        ('ttuple', '__len__', 'return len(self._types)'),
        ('ttuple', '__init__', 'self._types = types; super(ttuple, self).__init__()'),
        ('tinterval', 'point_type', 'return self._point_type'),
        ('tndarray', 'element_type', 'return self._element_type'),
    ]:
        src, _ = _method_src(tree, cls, meth)
        D('%s.%s-is-%s' % (cls, meth, want.split(';')[0].replace(' ', '-')), src == want, src)
    src, _ = _method_src(tree, 'tstruct', '__init__')
    D('tstruct-field-names-and-field-types-come-from-the-same-keyword-mapping', 'self._field_types = field_types' in src and 'self._fields = tuple(field_types)' in src, src)
    src, _ = _method_src(tree, 'tstruct', '__getitem__')
    D('tstruct.__getitem__-looks-the-field-type-up-by-name', src.endswith('return self._field_types[item]'), src)
    src, _ = _method_src(tree, 'tset', '__init__')
    D('tset-array-representation-is-tarray(element_type)', 'self._array_repr = tarray(element_type)' in src, src)
    src, _ = _method_src(tree, 'tdict', '__init__')
    D('tdict-array-representation-is-tarray(tstruct(key, value))-in-that-field-order', 'self._array_repr = tarray(tstruct(key=_freeze_this_type(key_type), value=value_type))' in src, src)
    src, _ = _method_src(tree, 'tinterval', '__init__')
    D('tinterval-struct-representation-is-(start, end, includes_start, includes_end)-in-that-order', 'self._struct_repr = tstruct(start=point_type, end=point_type, includes_start=hl.tbool, includes_end=hl.tbool)' in src, src)
    loc = [n for n in tree.body if isinstance(n, pyast.ClassDef) and n.name == 'tlocus'][0]
    reprs = [pyast.unparse(s) for s in loc.body if isinstance(s, pyast.Assign) and pyast.unparse(s.targets[0]) == 'struct_repr']
    D('tlocus-struct-representation-is-(contig: str, pos: int32)-in-that-order', reprs == ['struct_repr = tstruct(contig=_tstr(), pos=_tint32())'], repr(reprs))
    for cls in ('_freeze_this_type',):
        w, _ = _method_src(tree, cls, '_convert_to_encoding')
        r, _ = _method_src(tree, cls, '_convert_from_encoding')
        D('_freeze_this_type-only-forwards-to-the-wrapped-type', w == 'return self.t._convert_to_encoding(byte_writer, x)' and r == 'return self.t._convert_from_encoding(byte_reader, _should_freeze=True)', w + ' | ' + r)
    imports = [pyast.unparse(n) for n in tree.body if isinstance(n, pyast.ImportFrom)]
    D('lookup_bit-is-hail.utils.misc.lookup_bit', 'from ..utils.misc import lookup_bit' in imports, repr([i for i in imports if 'lookup_bit' in i]))
    D('ByteReader-and-ByteWriter-are-hail.utils.byte_reader', 'from ..utils.byte_reader import ByteReader, ByteWriter' in imports, repr([i for i in imports if 'Byte' in i]))
    # the n-d array fast path `self.element_type in _numeric_types` can only be taken if an INSTANCE equals a CLASS
    classes = {n.name for n in tree.body if isinstance(n, pyast.ClassDef)}
    nt = [n for n in tree.body if isinstance(n, pyast.Assign) and pyast.unparse(n.targets[0]) == '_numeric_types']
    elts = [pyast.unparse(e) for e in nt[0].value.elts] if nt and isinstance(nt[0].value, pyast.Set) else None
    D('ndarray/_numeric_types-is-a-set-of-CLASS-objects', elts is not None and all(e in classes for e in elts), repr(elts))
    src, _ = _method_src(tree, 'HailType', '__eq__')
    D('ndarray/HailType.__eq__-is-false-for-anything-that-is-not-a-HailType-instance', src == 'return isinstance(other, HailType) and self._eq(other)', src)


def _scala_arms(text):
    m = re.search(r'def fromPythonTypeEncoding\(t: Type\): EType = t match \{', text)
    if not m:
        raise Undecided('anchor-moved: EType.fromPythonTypeEncoding')
    i, depth = m.end(), 1
    while depth and i < len(text):
        depth += {'{': 1, '}': -1}.get(text[i], 0)
        i += 1
    body = text[m.end(): i - 1]
    arms, cur, depth = [], None, 0
    for line in body.splitlines():
        mm = re.match(r'\s*case\s+(.*?)\s*=>\s*(.*)$', line) if depth == 0 else None
        if mm:
            cur = [mm.group(1), mm.group(2)]
            arms.append(cur)
        elif cur is not None:
            cur[1] += ' ' + line
        depth += sum({'(': 1, ')': -1, '{': 1, '}': -1}.get(ch, 0) for ch in line)
    return [(p, re.sub(r',\s*\)', ')', _norm(b)).replace('( ', '(').replace(' )', ')')) for p, b in arms]


ENGINE_TABLE = [
    # Scala pattern, E-type the arm must build, the Python layout proved above that it stands for
    ('TInt32', 'EInt32(false)', '_tint32: one int32 token (4 bytes)'),
    ('TInt64', 'EInt64(false)', '_tint64: one int64 token (8 bytes)'),
    ('TFloat32', 'EFloat32(false)', '_tfloat32: one float32 token (4 bytes)'),
    ('TFloat64', 'EFloat64(false)', '_tfloat64: one float64 token (8 bytes)'),
    ('TBoolean', 'EBoolean(false)', '_tbool: one bool byte'),
    ('TString', 'EBinary(false)', '_tstr: int32 byte length + bytes'),
    ('TCall', 'EInt32(false)', '_tcall: one int32 (contracts/C34.py)'),
    ('TLocus(_)', 'EBaseStruct(ArraySeq(EField("contig", EBinary(false), 0), EField("position", EInt32(false), 1)), required = false)', 'tlocus.struct_repr: (str, int32) struct'),
    ('t: TInterval', 'EBaseStruct(ArraySeq(EField("start", fromPythonTypeEncoding(t.pointType), 0), EField("end", fromPythonTypeEncoding(t.pointType), 1), EField("includesStart", EBoolean(false), 2), EField("includesEnd", EBoolean(false), 3)), required = false)', 'tinterval._struct_repr: (point, point, bool, bool) struct'),
    ('t: TDict', 'EDictAsUnsortedArrayOfPairs(fromPythonTypeEncoding(t.elementType).setRequired(true), false)', 'tdict: int32 length + REQUIRED key/value structs (no missing bytes), insertion order'),
    ('t: TSet', 'EUnsortedSet(fromPythonTypeEncoding(t.elementType), false)', 'tset: array layout, any order'),
    ('t: TIterable', 'EArray(fromPythonTypeEncoding(t.elementType), false)', 'tarray: int32 length + missing bytes + present elements'),
    ('t: TBaseStruct', None, 'tstruct / ttuple: missing bytes + present fields, field i at index i'),
    ('t: TNDArray', 'ENDArrayColumnMajor(fromPythonTypeEncoding(t.elementType).setRequired(true), t.nDims, false)', 'tndarray: shape int64s + required elements, column major'),
]


def engine_scan(ctx):
    D = lambda name, ok, detail: ctx.add(core.decided('C33/engine-scan/' + name, bool(ok), detail[:400], kind='scan'))
    arms = _scala_arms(core.read_repo(ENC + 'EType.scala'))
    ctx.under_contract(ENC + 'EType.scala', 'EType.fromPythonTypeEncoding (text scan)')
    pats = [p for p, _ in arms]
    for pat, want, what in ENGINE_TABLE:
        got = [b for p, b in arms if p == pat]
        if want is not None:
            D('%s-is-%s' % (pat.replace('t: ', ''), want.split('(')[0]), got == [want], '%s | python side: %s | scala arm: %r' % (want, what, got))
        else:
            b = got[0] if len(got) == 1 else ''
            D('TBaseStruct-is-EBaseStruct-with-field-i-at-index-i-all-fields-optional', 'EBaseStruct(' in b and 'EField(f.name, fromPythonTypeEncoding(t.fields(i).typ), f.index)' in b and 'if (f.index != i) throw' in b and b.endswith('required = false)'), '%s | scala arm: %r' % (what, got))
    D('specific-arms-precede-the-generic-ones', all(p in pats for p in ('t: TDict', 't: TSet', 't: TIterable', 'TLocus(_)', 't: TInterval', 't: TBaseStruct')) and max(pats.index('t: TDict'), pats.index('t: TSet')) < pats.index('t: TIterable') and max(pats.index('TLocus(_)'), pats.index('t: TInterval')) < pats.index('t: TBaseStruct'), repr(pats))
    D('no-arm-outside-the-table', set(pats) <= {p for p, _, _ in ENGINE_TABLE} | {'TBinary'}, repr(pats))
    D('every-arm-asks-for-an-optional-top-level-value', all(b.endswith('false)') or b.endswith('required = false)') for _, b in arms), repr([b[-30:] for _, b in arms]))
    ea = core.read_repo(ENC + 'EArray.scala')
    D('EArray-writes-and-reads-missing-bytes-exactly-when-the-element-type-is-optional', 'if (!elementType.required) {' in ea and 'val nMissingBytes = cb.memoize(pArray.nMissingBytes(prefixLen)' in ea and re.search(r'if \(elementType\.required\) \{[^}]*\} else \{\s*val nMissing = cb\.newLocal\[Int\]\("nMissing", UnsafeUtils\.packBitsToBytes\(len\)\)', ea, re.S) is not None, 'EArray.scala')
    D('EArray-writes-the-int32-length-first', re.search(r'cb \+= out\.writeInt\((prefixLen|len)\)', ea) is not None, 'EArray.scala')
    for f, cls in (('EDictAsUnsortedArrayOfPairs.scala', 'dict'), ('EUnsortedSet.scala', 'set')):
        t = core.read_repo(ENC + f)
        D('%s-layout-is-the-EArray-of-its-element-type' % cls, 'private[this] val arrayRepr = EArray(elementType, required)' in t and 'arrayRepr._buildEncoder(cb, v, out)' in t and 'arrayRepr.buildDecoder(t, cb.emb.ecb)' in t, f)
    t = core.read_repo(ENC + 'EDictAsUnsortedArrayOfPairs.scala')
    D('dict-decoder-sorts-the-pairs-itself-(unsorted-input-accepted)', 'sorter.sort(cb, tmpRegion, lessThan)' in t, 'EDictAsUnsortedArrayOfPairs.scala')
    t = core.read_repo(ENC + 'EBaseStruct.scala')
    D('EBaseStruct-has-one-missing-bit-per-optional-field-packed-into-bytes', 'BaseStruct.getMissingIndexAndCount(types.map(_.required))' in t and 'val nMissingBytes = UnsafeUtils.packBitsToBytes(nMissing)' in t and 'cb += in.readBytes(region, mbytes, nMissingBytes)' in t, 'EBaseStruct.scala')
    t = core.read_repo(ENC + 'ENDArrayColumnMajor.scala')
    D('ENDArrayColumnMajor-writes-the-shape-as-longs-and-decodes-with-column-major-strides', 'shapes.foreach(s => cb += out.writeLong(s))' in t and 'in.readLong()' in t and 'pnd.makeColumnMajorStrides(shapeVars, cb)' in t, 'ENDArrayColumnMajor.scala')
    t = core.read_repo(ENC + 'EBinary.scala')
    D('EBinary-is-int32-length-then-the-bytes', 'cb += out.writeInt(len)' in t and 'cb += out.writeBytes(bin.bytesAddress(), len)' in t and 'in.readInt()' in t, 'EBinary.scala')


# ---- build --------------------------------------------------------------------------------------------------------------------

NATIVE = os.path.join(os.path.dirname(__file__), 'native', 'c33_replay.py')


def _native(payload):
    return core.run_native(open(NATIVE).read(), payload)


def native_witness(ctx):
    """vc.check falls back to this when a changed source no longer fits the contract structure (Undecided / CheckerBug while the
    contracts are applied): the native battery on the real code; a failing input it confirms is a violation whatever the contracts say"""
    r = _native({})
    return r if isinstance(r, dict) and r.get('confirmed') else {'confirmed': False}


def _pattern(eng, model, sl):
    """the missing pattern of the counter-model's value, for the native replay"""
    try:
        st_n = {'array': lambda: eng.inputs['value'].len, 'tuple': lambda: eng.inputs['value'].len, 'struct': lambda: eng.inputs['self._field_types'].len}[sl.kind]()
        n = model.eval(st_n, model_completion=True).as_long()
        if not 0 <= n <= 64:
            return None
        miss = eng.uf('missing', ['U'], 'bool')
        out = []
        for i in range(n):
            if sl.kind == 'struct':
                d = eng.inputs['self._field_types']
                key = pyvc.sort_of(d.et).accessor(0, 0)(z3.Select(d.arr, i))
                x = z3.Select(eng.inputs['value'], key)
            else:
                x = z3.Select(eng.inputs['value'].arr, i)
            out.append(bool(z3.is_true(model.eval(miss(x), model_completion=True))))
        return out
    except Exception:  # pylint: disable=broad-except
        return None


def _run(ctx, c, sl=None):
    eng = pyvc.Engine(ctx, c)

    def replayer(model, obl):
        payload = {}
        if model is not None and sl is not None:
            p = _pattern(eng, model, sl)
            if p is not None:
                payload['patterns'] = [p]
        return _native(payload)

    eng.replayer = replayer
    eng.run()
    if not getattr(eng, 'canaries_emitted', False):
        # this branch's Engine.run() collects the canary paths without emitting them (fixed in main, which then sets
        # canaries_emitted): emit them here exactly once
        for name, paths in eng.canary_paths.items():
            ctx.add(core.satisfiable('%s/canary/%s' % (eng.label, name), z3.Or(*paths) if paths else z3.BoolVal(False), kind='canary'))
    ctx.add(core.decided('C33/%s/no-call-outside-the-contract' % eng.label, not eng.unmodelled, repr(eng.unmodelled), kind='frame'))
    return eng


def build(ctx):
    # byte layer
    for m in ('write_byte', 'write_int32', 'write_int64', 'write_float32', 'write_float64', 'write_bool', 'write_bytes'):
        _run(ctx, byte_writer_contract(m))
    for m in ('read_int32', 'read_int64', 'read_float32', 'read_float64', 'read_bool', 'read_bytes_view', 'read_bytes'):
        _run(ctx, byte_reader_contract(m, ctx))
    widths = {m: pystruct.calcsize(f) for m, f in list(WRITE_FMT.items()) + list(READ_FMT.items())}
    ctx.add(core.decided('C33/byte-layer/widths-are-4-8-4-8-bytes-and-1-for-byte', widths == {'write_byte': 1, 'write_int32': 4, 'write_int64': 8, 'write_float32': 4, 'write_float64': 8, 'read_int32': 4, 'read_int64': 8, 'read_float32': 4, 'read_float64': 8}, repr(widths), kind='scan'))
    # token layer
    for c in lookup_bit_contracts():
        _run(ctx, c)
    _run(ctx, missing_contract())
    rank_lemma(ctx)
    for kind in ('array', 'struct', 'tuple'):
        sl, c = slot_writer(kind)
        _run(ctx, c, sl)
        sl, c = slot_reader(kind, ctx)
        _run(ctx, c, sl)
    _run(ctx, str_writer())
    _run(ctx, str_reader())
    for s in PRIM:
        _run(ctx, prim_writer(s))
        _run(ctx, prim_reader(s))
    _run(ctx, dict_writer())
    _run(ctx, dict_reader())
    for c in simple_codecs():
        if 'tlocus' in c.qualname:
            c.consts = dict(c.consts, LOC_CODEC=LOC_CODEC)
        _run(ctx, c)
    _run(ctx, ndarray_writer())
    _run(ctx, to_encoding_contract())
    _run(ctx, from_encoding_contract(ctx))
    call_codec(ctx)
    for timed in (False, True):
        _run(ctx, execute_contract(timed))
    _run(ctx, encoded_literal_contract())
    call_site_scan(ctx)
    python_scans(ctx)
    engine_scan(ctx)
    found = {}

    def battery():
        if 'r' not in found:
            found['r'] = _native({})
        return found['r']

    ctx.witness_search = battery
    r = battery()
    harness_broken = 'cases' not in r
    ctx.bounded_standin(
        'native-battery-real-codecs-against-the-reference-layout',
        'the real codec classes (extracted by AST) over the real ByteReader/ByteWriter under /venv/bin/python: %s values (every missing pattern up to 10 slots, one-hot patterns up to 33 slots, non-ASCII strings, nested containers, dicts, sets, intervals, loci, struct values listing their fields in another order than the type, calls of every ploidy phased and unphased; no n-d arrays: numpy is not installed there) encoded, compared byte for byte with a little-endian reference encoder written from the property statement, decoded from both byte strings and compared with the original; then the real Backend.execute (extracted by AST) over a stand-in engine answering with the reference bytes of %s values, zero-byte encodings (struct{}, tuple()) included' % (r.get('cases', 0), r.get('execute_cases', 0)),
        r.get('cases', 0), not r.get('confirmed'), r if (r.get('confirmed') or harness_broken) else '')
    if harness_broken:
        # a replay host that does not run is a defect of the machinery, never a pass
        raise core.CheckerBug('native battery did not run: %r' % (r,))
    live = r.get('ndarray_numeric_fast_path_live_for')
    if harness_broken or live is None:
        ctx.undecided('tndarray: deadness of the numeric fast path could not be evaluated natively (harness did not run)')
    else:
        ctx.add(core.decided('C33/representation/ndarray/numeric-fast-path-is-dead-(instances-are-not-members-of-the-set-of-classes)-evaluated-natively', live == [], 'element_type in _numeric_types is true for: %r' % (live,), kind='scan'))
    ctx.assume("struct.pack / struct.unpack are uninterpreted; assumed contract: unpack(fmt, pack(fmt, v)) == (v,) for the SAME format and a value in the format's range (int32 / int64 range; '=f' only for doubles representable as float32)")
    ctx.assume("'=' in the struct formats is native byte order with standard sizes: the bytes are little-endian only on a little-endian host (this host: %s); the engine side of the byte order is not examined" % sys.byteorder)
    ctx.assume('str.encode("utf-8") / bytes.decode("utf-8") are uninterpreted with decode(encode(s)) == s (strings without lone surrogates); the length of the encoding is NOT assumed equal to len(s)')
    ctx.assume('token abstraction: a codec stream is a list of tokens, each token standing for the byte image the byte-layer contracts give it (fixed widths 4/8/4/8/1/1, raw bytes by their own length); concatenation of the images is a paper step')
    ctx.assume('induction hypothesis of the structural induction over types: the element / field codec invoked on (writer, v) appends one self-delimiting encoding of v, and the same codec invoked on a reader placed on it returns a value equal to v and stops right after it; the induction itself is a paper step')
    ctx.assume('values are well-typed: a list for tarray, a mapping holding every field for tstruct, a sequence of the declared arity for ttuple, dict keys distinct; lengths below 2**31; math.ceil(n / 8) is exact (n < 2**53)')
    ctx.assume('equality is up to the container class: the readers return frozenlist / frozendict / frozenset / Struct / tuple objects that compare equal element-wise to the list / dict / set / mapping that was written; a missing slot (None or pandas NA) decodes as None')
    ctx.assume('collections.abc.Mapping.keys() / len() of tstruct go through tstruct.__iter__ / __len__ (scanned above); list(value) of a set enumerates exactly its elements; hl.Interval / genetics.Locus are value constructors')
    ctx.assume('numpy: np.nditer(a, order="F") yields a.size elements in Fortran (column-major) index order for C- and F-contiguous inputs alike (not executable here: numpy is not installed under /venv)')
    ctx.assume('engine side: EType.fromPythonTypeEncoding and the E-type files are compared as TEXT with the layout proved for the Python side (which constructor, which required flags, which field order); the Scala encoders/decoders themselves are not verified')
    ctx.undecided('tndarray._convert_from_encoding: shape read in a comprehension, np.prod / np.ndarray(order="F") buffer reinterpretation (numpy semantics, no front end); the n-d round trip is not decided')
    ctx.undecided('tndarray numeric fast path (write_bytes(value.data) / np.frombuffer): proved only that it is taken iff `self.element_type in _numeric_types`; that membership is false for every HailType instance (set of classes, HailType.__eq__ - scanned; evaluated natively for the five numeric types), so the path is dead today; were it live, a C-ordered array would be written row-major')
    ctx.undecided('whole-value round trip for arbitrarily nested types: follows from the per-constructor lemmas by structural induction (paper step), not mechanised')
    ctx.undecided('the Scala decoders (EArray / EBaseStruct / EBinary ... _buildDecoder) reading the layout: text scan only')
    if r.get('execute_harness_error'):
        raise core.CheckerBug('native battery: %s' % r['execute_harness_error'])
    ctx.assume('tcall: the method bodies are executed with the value model of contracts/C34.py (one run per ploidy 0, 1, 2, alleles in the engine range, Python ints as 64-bit vectors); that no step overflows 64 bits, the diploid pair index, the agreement with the engine Call and the round trip are discharged in C34, not here')
    ctx.assume('call sites: ExecutePayload / _render_ir / IRFunction.to_dataclass / FatalError.maybe_user_error, base64.b64encode and bytes.decode are uninterpreted; the engine either answers with (bytes, timings) or raises FatalError; HailType.__eq__ against tvoid is equality of types')
    ctx.assume('a struct value is a mapping whose own item order is arbitrary (a list of (name, value[name]) pairs over exactly the fields of the type, names distinct); the contracts assume nothing else about `value.items()`')
    ctx.undecided('trngstate, tstream and the JSON codecs are not part of this check; tvoid has no encoding (both codec methods raise); the base64 transport and the engine-side decoding of EncodedLiteral are not examined')
