"""C17 - Batch jobs run in dependency order with failure propagation (claimed clauses below).

 (A) Batch._async_run, numbering loop (the statements from `job_index = {...}` to `self._jobs = ordered_jobs`): a verified
     CHECKER.  For any list ordered_jobs of distinct jobs that contains the dependencies of its members, a normal exit means
     job k of the list got _job_id k+1 and every dependency of every job has a strictly smaller number - the numbering, and
     the order of self._jobs handed to the backend, is a topological order of the dependency relation; BatchException is raised
     only when some dependency does not come earlier.  (A relation with a cycle has no such numbering - paper lemma - so cyclic
     pipelines are rejected before `_backend._async_run` is reached, which is also an AST order obligation.)
 (B) Batch._async_run.schedule_job (the DFS) under a recursive contract checked on its body: the list holds no job twice, the
     dependencies of listed jobs were seen, every job seen during a call is listed when it returns, and every dependency of a
     listed job comes earlier in the list or transitively depends on that job (closes a cycle).  Lemma (z3): when (A) rejects,
     some job transitively depends on itself - an acyclic pipeline is never rejected.
 (D2) PythonJob.call.handle_arg under the same contract as (D); handle_args reaches it for every resource in every container
     kind that _compile.preserialize descends into, for positional and keyword arguments (AST obligations).
 (C) LocalBackend._async_run: the job loop is SLICED mechanically on every run to the statements that decide which jobs are
     skipped (everything that only builds shell text is dropped; the dropped statements are listed in evidence); on the slice:
     loop invariant "a job is marked cancelled iff it is not always-run and a parent earlier in the order failed or was skipped";
     with the topological order of (A) the jobs skipped are exactly the non-always-run jobs that transitively depend on a failed
     or skipped job.  cancel_child_jobs under its own loop contract.
 (D) Job._interpolate_command.handler: a resource produced by another job makes that job a dependency (whatever
     always_run says), and registers the resource as input / output.
"""
from __future__ import annotations

import ast as pyast
import os

import z3

from vc import core, pyvc
from vc.pyvc import Contract, Fork, Ghost, LoopSpec, SExc, SList, SMap, SRecord, to_z3

BATCH = 'hail/python/hailtop/batch/batch.py'
BACKEND = 'hail/python/hailtop/batch/backend.py'
JOB = 'hail/python/hailtop/batch/job.py'
U = pyvc.U


def _strict(ctx, eng, label):
    ctx.add(core.decided('C17/%s/no-call-outside-the-contract' % label, not eng.unmodelled, repr(eng.unmodelled), kind='frame'))


# ---- (A) numbering / cycle check ---------------------------------------------------------------------------------------------------


def numbering():
    def setup(eng, st):
        L = st.env['ordered_jobs']
        IDX = eng.uf('pos', ['U'], 'int')  # position (from 1) of a job in ordered_jobs - well defined because the list is distinct
        i, j = z3.Int('ax_i'), z3.Int('ax_j')
        st.assume(z3.ForAll([i], z3.Implies(z3.And(i >= 0, i < L.len), IDX(z3.Select(L.arr, i)) == i + 1)))
        st.env['pos'] = pyvc.SFunc('pos', lambda e, s, args, kw, node: IDX(to_z3(args[0], 'U')))
        st.env['self'] = SRecord('Batch', {'_jobs': SList(z3.IntVal(0), None, None)})

    def dictcomp(eng, st, args, kw, node):
        # {j: i for i, j in enumerate(ordered_jobs, start=1)}: keys = the members of the list, value = position from 1
        ok = isinstance(node.key, pyast.Name) and isinstance(node.value, pyast.Name) and len(node.generators) == 1 and pyast.unparse(node.generators[0].iter) == 'enumerate(ordered_jobs, start=1)' \
            and pyast.unparse(node.generators[0].target) == '(%s, %s)' % (node.value.id, node.key.id) and not node.generators[0].ifs
        if not ok:
            raise core.Undecided('job_index is not the enumeration of ordered_jobs from 1')
        L = st.env['ordered_jobs']
        IDX = eng.uf('pos', ['U'], 'int')
        k, p = z3.Const('jk', U), z3.Int('jp')
        has = z3.Lambda([k], z3.Exists([p], z3.And(p >= 0, p < L.len, z3.Select(L.arr, p) == k)))
        val = z3.Lambda([k], IDX(k))
        return SMap(has, val, L.len, 'U', 'int')

    def set_job_id(eng, st, args, kw, node):
        st.env['JOB_ID'] = z3.Store(st.env['JOB_ID'], to_z3(args[0], 'U'), eng.num(args[1]))

    MEMBER = 'exists(lambda r: 0 <= r < len(ordered_jobs) and ordered_jobs[r] == %s)'
    return Contract(
        path=BATCH, qualname='Batch._async_run', label='Batch._async_run[numbering]', fragment=('re:^job_index = ', 're:^self\\._jobs = ordered_jobs'),
        types={'._dependencies': 'List[U]', 'j': 'U', 'd': 'U', 'i': 'int'}, extra_inputs={'ordered_jobs': 'List[U]', 'JOB_ID0': 'Array[U, int]'}, setup=setup,
        requires=[
            # established by the DFS (B): no job twice, and the list holds the dependencies of its members
            'forall(lambda a, b: implies(0 <= a < b < len(ordered_jobs), ordered_jobs[a] != ordered_jobs[b]))',
            'forall(lambda a, q: implies(0 <= a < len(ordered_jobs) and 0 <= q < len(ordered_jobs[a]._dependencies), %s))' % (MEMBER % 'ordered_jobs[a]._dependencies[q]'),
        ],
        calls={'dictcomp:{j: i for i, j in enumerate(ordered_jobs, start=1)}': dictcomp, 'setattr:_job_id': set_job_id},
        ghost_init={'JOB_ID': 'JOB_ID0'},
        loops={
            're:^for j in ordered_jobs': LoopSpec(index='k', invariants=[
                ('jobs-so-far-numbered-by-position', 'forall(lambda a: implies(0 <= a < k, JOB_ID[ordered_jobs[a]] == a + 1))'),
                ('dependencies-of-jobs-so-far-come-earlier', 'forall(lambda a, q: implies(0 <= a < k and 0 <= q < len(ordered_jobs[a]._dependencies), pos(ordered_jobs[a]._dependencies[q]) < a + 1))'),
            ], modifies=['JOB_ID', 'i']),
            're:^for d in j\\._dependencies': LoopSpec(index='m', invariants=[
                ('this-job-is-numbered-by-position', 'i == k + 1 and JOB_ID[j] == k + 1 and j == ordered_jobs[k]'),
                ('dependencies-so-far-come-earlier', 'forall(lambda q: implies(0 <= q < m, pos(j._dependencies[q]) < i))'),
            ]),
        },
        ensures=[
            ('every-job-is-numbered-by-its-position-from-1', 'forall(lambda a: implies(0 <= a < len(ordered_jobs), JOB_ID[ordered_jobs[a]] == a + 1))'),
            ('every-dependency-has-a-smaller-number-than-the-job', 'forall(lambda a, q: implies(0 <= a < len(ordered_jobs) and 0 <= q < len(ordered_jobs[a]._dependencies), pos(ordered_jobs[a]._dependencies[q]) < pos(ordered_jobs[a])))'),
            ('the-backend-gets-the-jobs-in-that-order', 'self._jobs == ordered_jobs'),
        ],
        raises={'BatchException': 'exists(lambda a, q: 0 <= a < len(ordered_jobs) and 0 <= q < len(ordered_jobs[a]._dependencies) and pos(ordered_jobs[a]._dependencies[q]) >= pos(ordered_jobs[a]))'},
        canaries=[('no-jobs', 'len(ordered_jobs) == 0'), ('no-dependencies', 'forall(lambda a: implies(0 <= a < len(ordered_jobs), len(ordered_jobs[a]._dependencies) == 0))')],
    )



# ---- (B) the DFS schedule_job ------------------------------------------------------------------------------------------------------

# state of the DFS: seen (set), ordered_jobs (list), and the ghost map POSM: job in the list -> its position (so that "d comes
# before x" is POSM[d] < POSM[x] without an existential).  `reach(a, b)`: a depends on b through one or more dependency edges.
DFS_INV = [
    ('listed-jobs-are-exactly-the-keys-of-the-position-map', 'forall(lambda i: implies(0 <= i < len({ord}), {ord}[i] in {pos} and {pos}[{ord}[i]] == i)) and forall("U", lambda x: implies(x in {pos}, 0 <= {pos}[x] < len({ord}) and {ord}[{pos}[x]] == x))'),
    ('listed-jobs-were-seen', 'forall("U", lambda x: implies(x in {pos}, x in {seen}))'),
    ('dependencies-of-listed-jobs-were-seen', 'forall("U", lambda x: forall(lambda q: implies(x in {pos} and 0 <= q < len(x._dependencies), x._dependencies[q] in {seen})))'),
    ('a-dependency-of-a-listed-job-comes-earlier-or-closes-a-cycle', 'forall("U", lambda x: forall(lambda q: implies(x in {pos} and 0 <= q < len(x._dependencies), (x._dependencies[q] in {pos} and {pos}[x._dependencies[q]] < {pos}[x]) or reach(x._dependencies[q], x))))'),
]
DFS_PRE = DFS_INV + [('jobs-in-progress-depend-on-the-job-being-scheduled', 'forall("U", lambda x: implies(x in {seen} and not (x in {pos}), reach(x, {j})))')]
DFS_POST = DFS_INV + [
    ('the-job-is-seen', '{j} in {seen}'),
    ('nothing-is-forgotten', 'forall("U", lambda x: implies(x in {seen0}, x in {seen})) and forall("U", lambda x: implies(x in {pos0}, x in {pos} and {pos}[x] == {pos0}[x])) and len({ord}) >= len({ord0}) and forall(lambda i: implies(0 <= i < len({ord0}), {ord}[i] == {ord0}[i]))'),
    ('every-job-seen-during-the-call-is-listed-when-it-returns', 'forall("U", lambda x: implies(x in {seen} and not (x in {seen0}), x in {pos}))'),
    ('only-newly-seen-jobs-are-listed', 'forall("U", lambda x: implies(x in {pos} and not (x in {pos0}), not (x in {seen0})))'),
]
REACH_AXIOMS = [
    'forall("U", lambda x: forall(lambda q: implies(0 <= q < len(x._dependencies), reach(x, x._dependencies[q]))))',
    'forall("U", lambda a: forall("U", lambda b: forall(lambda q: implies(reach(a, b) and 0 <= q < len(b._dependencies), reach(a, b._dependencies[q])))))',
]


def dfs_contract():
    """Batch._async_run.schedule_job, the recursive depth-first walk, against a recursive contract (the recursive call is used
    through the same contract: partial correctness by induction on the recursion).  What it establishes for the numbering (A):
    the list holds no job twice and the dependencies of its members were all seen; and every dependency of a listed job either
    comes earlier in the list or transitively depends on that job - i.e. closes a cycle.  With (A): BatchException is raised only
    for pipelines that really contain a cycle (lemma below), so an acyclic pipeline is never rejected."""
    names = dict(seen='seen', ord='ordered_jobs', pos='POSM', j='j', seen0='seen0', ord0='ord0', pos0='POSM0')

    def fmt(e, **over):
        d = dict(names)
        d.update(over)
        return e.format(**d)

    def setup(eng, st):
        st.env['seen0'], st.env['ord0'], st.env['POSM0'] = st.env['seen'], st.env['ordered_jobs'], st.env['POSM']

    def recursive_call(eng, st, args, kw, node):
        if len(args) != 1 or kw:
            raise core.Undecided('schedule_job called with other than one positional argument')
        s1 = st.fork()
        s1.env['j'] = args[0]
        for name, e in DFS_PRE:
            eng.oblige(s1, 'recursive-call/pre/' + name, eng.ev_bool_str(fmt(e), s1), clause=e)
        st.env['n_rec'] = st.env['n_rec'] + 1
        # the callee changes seen / ordered_jobs / POSM as its postcondition says
        new_seen = pyvc.fresh_value(pyvc.parse_type('Map[U, bool]'), 'seen_after')
        new_ord = pyvc.fresh_value(('list', 'U'), 'ordered_after')
        new_pos = pyvc.fresh_value(pyvc.parse_type('Map[U, int]'), 'posm_after')
        for v in (new_seen, new_ord, new_pos):
            for w in pyvc.wf_constraints(v):
                st.assume(w)
        s2 = st.fork()
        s2.env.update(j=args[0], c_seen0=st.env['seen'], c_ord0=st.env['ordered_jobs'], c_pos0=st.env['POSM'], c_seen=new_seen, c_ord=new_ord, c_pos=new_pos)
        for name, e in DFS_POST:
            st.assume(eng.ev_bool_str(fmt(e, seen='c_seen', ord='c_ord', pos='c_pos', seen0='c_seen0', ord0='c_ord0', pos0='c_pos0'), s2))
        st.env['seen'], st.env['ordered_jobs'], st.env['POSM'] = new_seen, new_ord, new_pos
        return None

    return Contract(
        path=BATCH, qualname='Batch._async_run.schedule_job', types={'j': 'U', 'p': 'U', '._dependencies': 'List[U]'},
        extra_inputs={'seen': 'Map[U, bool]', 'ordered_jobs': 'List[U]', 'POSM': 'Map[U, int]'}, setup=setup,
        spec_funcs={'reach': (['U', 'U'], 'bool')}, axioms=REACH_AXIOMS,
        requires=[fmt(e) for _, e in DFS_PRE],
        calls={'schedule_job': recursive_call},
        ghost_init={'n_rec': '0'},
        ghosts=[Ghost('ordered_jobs.append(j)', 'POSM = store(POSM, j, len(ordered_jobs) - 1)', where='after')],
        loops={0: LoopSpec(index='di', invariants=[(n, fmt(e)) for n, e in DFS_INV] + [
            ('the-job-itself-is-seen-but-not-listed-yet', 'j in seen and not (j in POSM)'),
            ('dependencies-so-far-were-seen', 'forall(lambda q: implies(0 <= q < di, j._dependencies[q] in seen))'),
            ('dependencies-so-far-are-listed-or-in-progress', 'forall(lambda q: implies(0 <= q < di, j._dependencies[q] in POSM or reach(j._dependencies[q], j)))'),
            ('jobs-in-progress-are-those-of-the-entry-plus-this-job', 'forall("U", lambda x: implies(x in seen and not (x in POSM), x == j or (x in seen0 and not (x in POSM0))))'),
            ('so-far-nothing-is-forgotten', fmt(DFS_POST[len(DFS_INV) + 1][1])),
            ('so-far-every-other-job-seen-since-entry-is-listed', 'forall("U", lambda x: implies(x in seen and not (x in seen0) and x != j, x in POSM))'),
            ('so-far-only-newly-seen-jobs-are-listed', fmt(DFS_POST[len(DFS_INV) + 3][1])),
        ], modifies=['seen', 'ordered_jobs', 'POSM', 'n_rec', 'p'])},
        ensures=[(n, fmt(e)) for n, e in DFS_POST],
        raises={},
        canaries=[('never-lists-anything', 'len(ordered_jobs) == len(ord0)'), ('never-recurses', 'n_rec == 0')],
    )


def dfs_lemma(ctx):
    """from the DFS invariant to the property: if the numbering loop (A) finds a dependency that does not come earlier, the pipeline
    has a cycle (some job transitively depends on itself); so acyclic pipelines are never rejected.  Pure z3 lemma over the
    invariant clause and the axioms of `reach`."""
    Us = pyvc.U
    reach = z3.Function('reach', Us, Us, z3.BoolSort())
    dep = z3.Function('dep', Us, Us, z3.BoolSort())
    listed = z3.Function('listed', Us, z3.BoolSort())
    pos = z3.Function('posm', Us, z3.IntSort())
    x, d, a, b, c = z3.Consts('x d a b c', Us)
    hyp = [
        z3.ForAll([a, b], z3.Implies(dep(a, b), reach(a, b))),
        z3.ForAll([a, b, c], z3.Implies(z3.And(reach(a, b), dep(b, c)), reach(a, c))),
        z3.ForAll([a, b], z3.Implies(z3.And(listed(a), dep(a, b)), z3.Or(z3.And(listed(b), pos(b) < pos(a)), reach(b, a)))),  # DFS invariant clause 4
        listed(x), dep(x, d), z3.Not(z3.And(listed(d), pos(d) < pos(x))),  # what makes (A) raise BatchException
    ]
    ctx.add(core.valid('C17/dfs-lemma/a-rejected-pipeline-contains-a-cycle', hyp, reach(d, d), kind='lemma'))
    ctx.add(core.satisfiable('C17/dfs-lemma/vacuity/hypotheses-satisfiable', hyp, kind='vacuity'))


# ---- (D) resource-induced dependencies ---------------------------------------------------------------------------------------------


def interpolate_handler():
    THIS = z3.Const('this_job', U)
    NOTHING = z3.Const('nothing', U)

    def setup(eng, st):
        st.env['self'] = THIS

    def groupdict(eng, st, args, kw, node):
        return SRecord('dict', {k: z3.Const('group_' + k, U) for k in ('JOB', 'BATCH', 'PYTHON_RESULT', 'RESOURCE_FILE', 'RESOURCE_GROUP')})

    def get_resource(eng, st, args, kw, node):
        r = z3.Const('the_resource', U)
        raise Fork(node, [('resource-known', r != z3.Const('const_None', U), 'value', r, None), ('resource-unknown', None, 'value', None, None)])

    def source(eng, st, args, kw, node):
        s = z3.Const('the_source_job', U)
        raise Fork(node, [('produced-by-a-job', z3.And(s != z3.Const('const_None', U), s != NOTHING), 'value', s, lambda x: x.env.__setitem__('SOURCE', s)), ('an-input-file', None, 'value', None, None)])

    def rec(name):
        def model(eng, st, args, kw, node):
            st.env[name] = to_z3(args[-1], 'U')
            st.env['n_' + name] = st.env['n_' + name] + 1
            return None
        return model

    def out_model(eng, st, args, kw, node):
        eng.oblige(st, 'output-registered-on-the-producing-job', st.env['SOURCE'] != NOTHING)
        st.env['OUTPUT'] = to_z3(args[-1], 'U')
        return None

    opaque = lambda name: (lambda eng, st, args, kw, node: z3.Const(pyvc.fresh_name(name), U))  # noqa: E731
    nothing = lambda eng, st, args, kw, node: None  # noqa: E731
    OTHER = '(SOURCE != NOTHING and SOURCE != self)'
    return Contract(
        path=JOB, qualname='Job._interpolate_command.handler', types={'match_obj': 'U', '._always_run': 'bool', '._valid': 'Array[U, bool]', '._resources_inverse': 'Array[U, U]'}, extra_inputs={'allow_python_results': 'bool', 'command': 'str'},
        consts={'NOTHING': NOTHING}, setup=setup, strings=True,
        calls={'match_obj.groupdict': groupdict, 'match_obj.group': opaque('r_uid'), 'self._batch._resource_map.get': get_resource, 'r.source': source, 'self._add_inputs': rec('INPUT'),
               'self._dependencies.add': rec('DEP'), 'source._add_internal_outputs': out_model, '_add_resource_to_set': nothing, 'self._mentioned.add': rec('MENTIONED'), 'warnings.warn': nothing,
               'shq': lambda eng, st, args, kw, node: z3.StringVal('quoted'), 'r._get_path': lambda eng, st, args, kw, node: z3.StringVal('path')},
        ghost_init={'SOURCE': 'NOTHING', 'INPUT': 'NOTHING', 'n_INPUT': '0', 'DEP': 'NOTHING', 'n_DEP': '0', 'OUTPUT': 'NOTHING', 'MENTIONED': 'NOTHING', 'n_MENTIONED': '0'},
        ensures=[
            ('a-resource-of-another-job-makes-that-job-a-dependency-always-run-or-not', 'implies(%s, n_DEP == 1 and DEP == SOURCE)' % OTHER),
            ('and-is-registered-as-this-jobs-input-and-the-producers-output', 'implies(%s, n_INPUT == 1 and INPUT == OUTPUT and INPUT == MENTIONED)' % OTHER),
            ('own-resources-and-input-files-add-no-dependency', 'implies(not %s, n_DEP == 0)' % OTHER),
        ],
        raises={'BatchException': True, 'AssertionError': True},
        canaries=[('never-another-job', 'not %s' % OTHER)],
    )


# ---- (D2) resources handed to a PythonJob ------------------------------------------------------------------------------------------


def python_job_handle_arg():
    """PythonJob.call.handle_arg: a resource produced by another job and passed to a python job makes that job a dependency and is
    registered as input of this job and output of the producer - the python-job counterpart of (D)"""
    THIS = z3.Const('this_job', U)
    NOTHING = z3.Const('nothing', U)

    def source(eng, st, args, kw, node):
        s = z3.Const('the_source_job', U)
        raise Fork(node, [('produced-by-a-job', z3.And(s != z3.Const('const_None', U), s != NOTHING), 'value', s, lambda x: x.env.__setitem__('SOURCE', s)), ('an-input-file', None, 'value', None, None)])

    def rec(name):
        def model(eng, st, args, kw, node):
            st.env[name] = to_z3(args[-1], 'U')
            st.env['n_' + name] = st.env['n_' + name] + 1
            return None
        return model

    def out_model(eng, st, args, kw, node):
        eng.oblige(st, 'output-registered-on-the-producing-job', st.env['SOURCE'] != NOTHING)
        st.env['OUTPUT'] = to_z3(args[-1], 'U')
        return None

    OTHER = '(SOURCE != NOTHING and SOURCE != self)'
    return Contract(
        path=JOB, qualname='PythonJob.call.handle_arg', types={'r': 'U', '._valid': 'Array[U, bool]', '._resources_inverse': 'Array[U, U]'},
        extra_inputs={'self': 'U'}, consts={'NOTHING': NOTHING}, setup=lambda eng, st: st.env.__setitem__('self', THIS),
        calls={'r.source': source, 'self._add_inputs': rec('INPUT'), 'self._dependencies.add': rec('DEP'), 'source._add_internal_outputs': out_model, '_add_resource_to_set': lambda eng, st, args, kw, node: None,
               'self._mentioned.add': rec('MENTIONED')},
        ghost_init={'SOURCE': 'NOTHING', 'INPUT': 'NOTHING', 'n_INPUT': '0', 'DEP': 'NOTHING', 'n_DEP': '0', 'OUTPUT': 'NOTHING', 'MENTIONED': 'NOTHING', 'n_MENTIONED': '0'},
        ensures=[
            ('a-resource-of-another-job-makes-that-job-a-dependency', 'implies(%s, n_DEP == 1 and DEP == SOURCE)' % OTHER),
            ('and-is-registered-as-this-jobs-input-and-the-producers-output', 'implies(%s, n_INPUT == 1 and INPUT == r and OUTPUT == r)' % OTHER),
            ('own-resources-and-input-files-add-no-dependency', 'implies(not %s, n_DEP == 0)' % OTHER),
        ],
        raises={'BatchException': True},
        canaries=[('never-another-job', 'not %s' % OTHER)],
    )


def python_job_traversal(ctx):
    """PythonJob.call reaches handle_arg for every resource the job will later be given: handle_args sends a Resource to
    handle_arg and descends into every container kind that _compile.preserialize descends into (a resource inside a container
    the walk skips would be turned into a path at run time without ever having become a dependency), and it is applied to both
    the positional and the keyword arguments.  Decided on the AST."""
    tree = pyast.parse(core.read_repo(JOB))
    call = pyvc.find_function(tree, 'PythonJob.call')
    ha = pyvc.find_function(tree, 'PythonJob.call.handle_args')
    pre = pyvc.find_function(tree, 'PythonJob._compile.preserialize')
    param = ha.args.args[0].arg

    def container_kinds(fn, arg, recurse_name):
        """container classes whose members `fn` visits recursively, from its `isinstance(arg, K)` cascade"""
        kinds = {}
        for n in pyast.walk(fn):
            if isinstance(n, pyast.If) and isinstance(n.test, pyast.Call) and pyast.unparse(n.test.func) == 'isinstance' and pyast.unparse(n.test.args[0]) == arg:
                ks = n.test.args[1]
                names = [pyast.unparse(e) for e in ks.elts] if isinstance(ks, pyast.Tuple) else [pyast.unparse(ks)]
                body = pyast.unparse(pyast.Module(body=n.body, type_ignores=[]))
                for k in names:
                    kinds[k] = body
        return kinds

    hk = container_kinds(ha, param, 'handle_args')
    pk = container_kinds(pre, pre.args.args[0].arg, 'preserialize')
    descended_by_compile = {k for k, b in pk.items() if 'preserialize(' in b}
    walks = {}
    for k, b in hk.items():
        walks[k] = ('handle_args(' in b) and (('.values()' in b) if k == 'dict' else ('for ' in b))
    ok_res = 'Resource' in hk and hk['Resource'].strip() == 'handle_arg(%s)' % param
    ok_walk = all(walks.get(k) for k in descended_by_compile)
    ctx.add(core.decided('C17/PythonJob.call.handle_args/a-resource-argument-is-handed-to-handle_arg', ok_res, repr(hk.get('Resource')), kind='scan'))
    ctx.add(core.decided('C17/PythonJob.call.handle_args/descends-into-every-container-kind-that-compile-descends-into', bool(descended_by_compile) and ok_walk, 'compile descends into %r; handle_args walks %r' % (sorted(descended_by_compile), walks), kind='scan'))
    applied = [pyast.unparse(n) for n in call.body if isinstance(n, pyast.Expr) and isinstance(n.value, pyast.Call) and pyast.unparse(n.value.func) == 'handle_args']
    ctx.add(core.decided('C17/PythonJob.call/both-positional-and-keyword-arguments-are-walked', sorted(applied) == ['handle_args(args)', 'handle_args(kwargs)'], repr(applied), kind='scan'))
    ctx.under_contract(JOB, 'PythonJob.call.handle_args (traversal, AST)')


# ---- (C) LocalBackend: which jobs are skipped --------------------------------------------------------------------------------------

TRACKED = {'cancelled_jobs', 'first_exc', 'exc', 'job'}


def _slice_local_backend():
    """LocalBackend._async_run with the body of its job loop reduced to the statements that decide which jobs are skipped:
    kept are the statements that assign a tracked name (cancelled_jobs, first_exc, exc) or job._submitted, call cancel_child_jobs,
    or are control flow around those (with `continue`); everything else - compilation, shell text, environment - is dropped.
    Soundness side conditions, decided here on the real AST: no dropped statement assigns or mutates a tracked name or calls
    cancel_child_jobs; the tests of kept `if` statements mention tracked names only.  Returns (source text, dropped texts)."""
    src = core.read_repo(BACKEND)
    tree = pyast.parse(src)
    fn = pyvc.find_function(tree, 'LocalBackend._async_run')
    loops = [n for n in pyast.walk(fn) if isinstance(n, pyast.For) and pyast.unparse(n.iter) == 'jobs' and isinstance(n.target, pyast.Name) and n.target.id == 'job']
    if len(loops) != 1:
        raise core.Undecided('anchor-moved: LocalBackend._async_run has no single `for job in jobs` loop')
    loop = loops[0]
    dropped = []

    def names(e):
        return {n.id for n in pyast.walk(e) if isinstance(n, pyast.Name)}

    def mentions_tracked_effect(stmt):
        if any(isinstance(n, pyast.Call) and pyvc._dotted(n.func) in ('cancel_child_jobs',) for n in pyast.walk(stmt)):
            return True
        if any(isinstance(n, (pyast.Continue, pyast.Break, pyast.Return)) for n in pyast.walk(stmt)):
            return True
        tg = set(pyvc._assigned_names([stmt]))
        return bool(tg & (TRACKED - {'job'})) or 'job._submitted' in tg

    def keep(stmts):
        out = []
        for s in stmts:
            if isinstance(s, pyast.If):
                if mentions_tracked_effect(s):
                    if not names(s.test) <= TRACKED | {'None'}:
                        raise core.Undecided('a kept `if` of the LocalBackend job loop tests untracked names: %s' % pyast.unparse(s.test))
                    body, orelse = keep(s.body), keep(s.orelse)
                    out.append(pyast.If(test=s.test, body=body or [pyast.Pass()], orelse=orelse))
                else:
                    dropped.append(pyvc._header_text(s))
            elif isinstance(s, (pyast.For, pyast.While, pyast.With, pyast.Try, pyast.AsyncWith, pyast.AsyncFor)):
                if mentions_tracked_effect(s):
                    raise core.Undecided('tracked effect inside a nested compound statement of the LocalBackend job loop: %s' % pyvc._header_text(s))
                dropped.append(pyvc._header_text(s))
            elif mentions_tracked_effect(s):
                out.append(s)
            else:
                dropped.append(pyast.unparse(s)[:100])
        return out

    loop.body = keep(loop.body) or [pyast.Pass()]
    pyast.fix_missing_locations(tree)
    return pyast.unparse(tree), dropped


def local_backend(sliced_src):
    def setup(eng, st):
        L = st.env['jobs']
        IDX = eng.uf('pos', ['U'], 'int')
        i = z3.Int('ax_i')
        st.assume(z3.ForAll([i], z3.Implies(z3.And(i >= 0, i < L.len), IDX(z3.Select(L.arr, i)) == i)))
        CH = eng.uf('is_child', ['U', 'U'], 'bool')
        AR = eng.uf('always_run', ['U'], 'bool')
        st.env['pos'] = pyvc.SFunc('pos', lambda e, s, args, kw, node: IDX(to_z3(args[0], 'U')))
        st.env['is_child'] = pyvc.SFunc('is_child', lambda e, s, args, kw, node: CH(to_z3(args[0], 'U'), to_z3(args[1], 'U')))
        st.env['always_run'] = pyvc.SFunc('always_run', lambda e, s, args, kw, node: AR(to_z3(args[0], 'U')))
        st.env['cancelled_jobs'] = SMap(st.env['CANC0'], z3.K(U, z3.BoolVal(True)), z3.IntVal(0), 'U', 'bool')

    def cancel_children(eng, st, args, kw, node):
        # contract of cancel_child_jobs (checked on its body below): every non-always-run child of j joins cancelled_jobs
        j = to_z3(args[0], 'U')
        cj = st.env['cancelled_jobs']
        c = z3.Const('cc_c', U)
        CH, AR = eng.uf('is_child', ['U', 'U'], 'bool'), eng.uf('always_run', ['U'], 'bool')
        st.env['cancelled_jobs'] = SMap(z3.Lambda([c], z3.Or(z3.Select(cj.has, c), z3.And(CH(j, c), z3.Not(AR(c))))), cj.val, z3.Int(pyvc.fresh_name('cj_size')), 'U', 'bool')
        st.env['BAD'] = z3.Store(st.env['BAD'], j, True)
        return None

    def run_code(eng, st, args, kw, node):
        k = st.env['k']
        st.env['RAN'] = z3.Store(st.env['RAN'], k, True)
        e = z3.Const(pyvc.fresh_name('job_error'), U)
        raise Fork(node, [('job-succeeds', None, 'value', None, None), ('job-fails', e != z3.Const('const_None', U), 'value', e, lambda s: s.env.__setitem__('FAILED', z3.Store(s.env['FAILED'], k, True)))])

    def set_submitted(eng, st, args, kw, node):
        return None

    PARENT_BAD = 'exists("U", lambda p: is_child(p, %s) and BAD[p])'
    inv = [
        ('marked-cancelled-iff-not-always-run-and-a-failed-or-skipped-parent', 'forall("U", lambda c: (c in cancelled_jobs) == (not always_run(c) and %s))' % (PARENT_BAD % 'c')),
        ('only-processed-jobs-are-failed-or-skipped', 'forall("U", lambda p: implies(BAD[p], exists(lambda q: 0 <= q < k and jobs[q] == p)))'),
        ('processed-jobs-bad-iff-failed-or-skipped', 'forall(lambda q: implies(0 <= q < k, BAD[jobs[q]] == (FAILED[q] or not RAN[q])))'),
        ('processed-jobs-skipped-iff-cancelled-when-reached', 'forall(lambda q: implies(0 <= q < k, (not RAN[q]) == (not always_run(jobs[q]) and %s)))' % (PARENT_BAD % 'jobs[q]')),
        ('failed-only-if-ran', 'forall(lambda q: implies(FAILED[q], RAN[q] and 0 <= q < k)) and forall(lambda q: implies(RAN[q], 0 <= q < k))'),
        ('first-error-kept', '(first_exc is None) == (not exists(lambda q: 0 <= q < k and FAILED[q]))'),
    ]
    return Contract(
        path=BACKEND, qualname='LocalBackend._async_run', label='LocalBackend._async_run[skip-logic, sliced]', fragment=('re:^first_exc = None', 're:^for job in jobs'),
        types={'first_exc': 'U', 'exc': 'U', 'job': 'U'}, extra_inputs={'jobs': 'List[U]', 'CANC0': 'Array[U, bool]'}, setup=setup, consts={'EMPTYI': z3.K(z3.IntSort(), z3.BoolVal(False)), 'EMPTYU': z3.K(U, z3.BoolVal(False))},
        requires=[
            'forall(lambda a, b: implies(0 <= a < b < len(jobs), jobs[a] != jobs[b]))',
            # from (A): jobs come in topological order - a parent of a job of the list is an earlier job of the list
            'forall("U", lambda p: forall(lambda q: implies(0 <= q < len(jobs) and is_child(p, jobs[q]), exists(lambda r: 0 <= r < q and jobs[r] == p))))',
            'forall("U", lambda c: not (c in cancelled_jobs))',
        ],
        calls={'cancel_child_jobs': cancel_children, 'run_code': run_code, 'setattr:_submitted': set_submitted, 'print': lambda eng, st, args, kw, node: None},
        ghost_init={'BAD': 'EMPTYU', 'RAN': 'EMPTYI', 'FAILED': 'EMPTYI'},
        loops={'re:^for job in jobs': LoopSpec(index='k', invariants=inv, modifies=['BAD', 'RAN', 'FAILED', 'cancelled_jobs', 'first_exc'])},
        ensures=[
            ('skipped-exactly-the-non-always-run-jobs-with-a-failed-or-skipped-parent', 'forall(lambda q: implies(0 <= q < len(jobs), (not RAN[q]) == (not always_run(jobs[q]) and %s)))' % (PARENT_BAD % 'jobs[q]')),
            ('a-job-counts-as-bad-iff-it-ran-and-failed-or-was-skipped', 'forall(lambda q: implies(0 <= q < len(jobs), BAD[jobs[q]] == (FAILED[q] or not RAN[q])))'),
            ('an-error-is-reported-iff-some-job-that-ran-failed', '(first_exc is None) == (not exists(lambda q: 0 <= q < len(jobs) and FAILED[q]))'),
        ],
        raises={}, canaries=[('nothing-skipped', 'forall(lambda q: implies(0 <= q < len(jobs), RAN[q]))')],
    ), sliced_src


def cancel_child_jobs_contract():
    def setup(eng, st):
        AR = eng.uf('always_run', ['U'], 'bool')
        st.env['always_run'] = pyvc.SFunc('always_run', lambda e, s, args, kw, node: AR(to_z3(args[0], 'U')))
        # child_jobs is a defaultdict(set): every key is present; the children of a job as a list without repetition
        st.env['child_jobs'] = SMap(z3.K(U, z3.BoolVal(True)), z3.Const('children_of', z3.ArraySort(U, pyvc.sort_of(('list', 'U')))), z3.IntVal(0), 'U', ('list', 'U'))
        st.env['cancelled_jobs'] = SMap(st.env['CANC0'], z3.K(U, z3.BoolVal(True)), st.env['SIZE0'], 'U', 'bool')

    MEM = 'exists(lambda q: 0 <= q < %s and child_jobs[j][q] == c)'
    SPEC = 'forall("U", lambda c: (c in cancelled_jobs) == (CANC0[c] or (not c._always_run and %s)))'
    return Contract(
        path=BACKEND, qualname='LocalBackend._async_run.cancel_child_jobs', types={'j': 'U', 'child': 'U', '._always_run': 'bool'}, extra_inputs={'CANC0': 'Array[U, bool]', 'SIZE0': 'int'}, setup=setup,
        requires=['SIZE0 >= 0', 'len(child_jobs[j]) >= 0'],
        loops={0: LoopSpec(index='m', invariants=[('children-so-far', SPEC % (MEM % 'm'))], modifies=['cancelled_jobs'])},
        ensures=[('exactly-the-non-always-run-children-join-the-cancelled-set', SPEC % (MEM % 'len(child_jobs[j])'))],
        raises={}, canaries=[('cancels-nothing', 'forall("U", lambda c: (c in cancelled_jobs) == CANC0[c])')],
    )


def _ast_obligations(ctx):
    # child_jobs is built as: for every job j of the batch and every dependency `parent` of j, j is a child of parent
    tree = pyast.parse(core.read_repo(BACKEND))
    fn = pyvc.find_function(tree, 'LocalBackend._async_run')
    want = 'for j in jobs:\n    for parent in j._dependencies:\n        child_jobs[parent].add(j)'
    found = [pyast.unparse(n) for n in pyast.walk(fn) if isinstance(n, pyast.For) and pyast.unparse(n.iter) == 'jobs' and isinstance(n.target, pyast.Name) and n.target.id == 'j']
    ctx.add(core.decided('C17/LocalBackend._async_run/child-relation-is-the-inverse-of-the-dependencies-of-the-batchs-jobs', want in found, repr(found)[:300]))
    init = [pyast.unparse(n) for n in pyast.walk(fn) if isinstance(n, pyast.Assign) and pyast.unparse(n.targets[0]) in ('child_jobs', 'cancelled_jobs', 'jobs')]
    ctx.add(core.decided('C17/LocalBackend._async_run/starts-with-empty-relations-over-the-unsubmitted-jobs', sorted(init) == sorted(['child_jobs = collections.defaultdict(set)', 'cancelled_jobs = set()', 'jobs = batch._unsubmitted_jobs']), repr(init)))
    # Batch._async_run: the cycle check precedes the backend call; schedule_job is applied to every job of the batch
    tree = pyast.parse(core.read_repo(BATCH))
    fn = pyvc.find_function(tree, 'Batch._async_run')
    texts = [pyvc._header_text(x) for x in fn.body]
    def idx(prefix):
        r = [i for i, t in enumerate(texts) if t.startswith(prefix)]
        return r[0] if r else None
    i_check, i_assign, i_backend = idx('for j in ordered_jobs'), idx('self._jobs = ordered_jobs'), idx('run_result = await self._backend._async_run(')
    ctx.add(core.decided('C17/Batch._async_run/cycle-check-and-reordering-precede-the-backend', None not in (i_check, i_assign, i_backend) and i_check < i_assign < i_backend, repr(texts)[:400]))
    ctx.add(core.decided('C17/Batch._async_run/every-job-of-the-batch-is-scheduled', 'for j in self._jobs' in texts and pyast.unparse(fn.body[idx('for j in self._jobs')].body[0]) == 'schedule_job(j)' and 'assert len(seen) == len(self._jobs)' in texts, ''))


def native_witness(ctx):
    script = open(os.path.join(os.path.dirname(__file__), 'native', 'c17_replay.py')).read()
    return core.run_native(script, {'seed': ctx.seed, 'rounds': 60}, timeout=400)


def depends_on_contract():
    """(D0) Job.depends_on records EXACTLY what it is given: after the call every argument - the job itself included, so that a
    self-dependency reaches the cycle check of (A) - has been added to self._dependencies, one add per argument."""
    def add(eng, st, args, kw, node):
        st.env['ADDED'] = z3.Store(st.env['ADDED'], to_z3(args[-1], 'U'), z3.BoolVal(True))
        st.env['n_ADD'] = st.env['n_ADD'] + 1
        return None

    return Contract(
        path=JOB, qualname='Job.depends_on', types={'j': 'U'}, extra_inputs={'jobs': 'List[U]', 'ADDED': 'Array[U, bool]'},
        calls={'self._dependencies.add': add}, ghost_init={'n_ADD': '0'},
        loops={0: LoopSpec(index='k', invariants=[
            ('arguments-so-far-are-recorded', 'forall(lambda q: implies(0 <= q < k, ADDED[jobs[q]]))'),
            ('one-add-per-argument-so-far', 'n_ADD == k'),
        ], modifies=['ADDED', 'n_ADD'])},
        ensures=[
            ('every-argument-is-recorded-as-a-dependency-the-job-itself-included', 'forall(lambda q: implies(0 <= q < len(jobs), ADDED[jobs[q]]))'),
            ('one-add-per-argument', 'n_ADD == len(jobs)'),
        ],
        raises={},
        canaries=[('never-adds', 'n_ADD == 0')],
    )


def build(ctx):
    eng = pyvc.Engine(ctx, depends_on_contract())
    eng.run()
    _strict(ctx, eng, 'depends-on')
    eng = pyvc.Engine(ctx, numbering())
    eng.run()
    _strict(ctx, eng, 'numbering')
    eng = pyvc.Engine(ctx, dfs_contract())
    eng.run()
    _strict(ctx, eng, 'schedule_job')
    dfs_lemma(ctx)
    eng = pyvc.Engine(ctx, interpolate_handler())
    eng.run()
    _strict(ctx, eng, 'interpolate-handler')
    python_job_traversal(ctx)
    eng = pyvc.Engine(ctx, python_job_handle_arg())
    eng.run()
    _strict(ctx, eng, 'python-job-handle-arg')
    sliced, dropped = _slice_local_backend()
    ctx.extra['local_backend_slice_dropped_statements'] = dropped
    ctx.add(core.decided('C17/LocalBackend._async_run[slice]/keeps-the-skip-logic', 'cancel_child_jobs(job)' in sliced and 'run_code' in sliced, '%d statements dropped' % len(dropped)))
    c, src = local_backend(sliced)
    eng = pyvc.Engine(ctx, c, src=src)
    eng.run()
    _strict(ctx, eng, 'local-backend-skip-logic')
    eng = pyvc.Engine(ctx, cancel_child_jobs_contract())
    eng.run()
    _strict(ctx, eng, 'cancel-child-jobs')
    _ast_obligations(ctx)
    script = open(os.path.join(os.path.dirname(__file__), 'native', 'c17_replay.py')).read()
    ctx.witness_search = lambda: core.run_native(script, {'seed': ctx.seed, 'rounds': 60}, timeout=400)
    ctx.assume('(B) the recursive call of schedule_job is used through the contract being proved (partial correctness by induction on the recursion; termination: every call either returns at once or adds a job to `seen`, which is bounded by the jobs reachable - not mechanised); the top-level loop calls it with no job in progress (empty seen / list at the start, in-progress set unchanged by each call: postcondition); `_dependencies` is read as a list (any iteration order of the set)')
    ctx.assume('(A)+(B): BatchException is raised by (A) only if a dependency does not come earlier; by the DFS invariant that dependency then transitively depends on the job (dfs-lemma), i.e. the pipeline has a cycle; conversely a cyclic relation admits no topological numbering (paper lemma), so cyclic pipelines are rejected')
    ctx.assume('(C) the LocalBackend job loop is verified on a mechanical SLICE (dropped statements listed in evidence.local_backend_slice_dropped_statements): dropped statements neither assign tracked names nor call cancel_child_jobs (checked), may raise (then the whole run fails) and are assumed not to change _dependencies / _always_run of any job')
    ctx.assume('(C) run_code(code) is an oracle returning None or the error of the job; child_jobs is the inverse of _dependencies over the batch\'s jobs (AST obligation on the two construction loops); jobs arrive in the topological order established by (A); sets are modelled as membership predicates')
    ctx.assume('(D) match objects, the resource map and Resource.source() are oracles; only the handler closure of _interpolate_command is under contract (re.sub calls it once per reference)')
    ctx.undecided('that every job of the batch ends up in the list exactly once is shown as: listed jobs are distinct (B), every job is passed to schedule_job (AST) and is then seen and listed (B post); `assert len(seen) == len(self._jobs)` additionally requires that no dependency lies outside the batch - not decided')
    ctx.undecided('ServiceBackend submission order and the service-side dependency handling (C05 decides the server side); LocalBackend shell text')


def thorough(ctx):
    script = open(os.path.join(os.path.dirname(__file__), 'native', 'c17_replay.py')).read()
    total = 0
    for seed in range(1, 6):
        r = core.run_native(script, {'seed': 100 * seed + ctx.seed, 'rounds': 120}, timeout=900)
        if 'error' in r:
            raise core.CheckerBug('native scenario host failed: %r' % (r,))
        if r.get('confirmed'):
            ctx.bounded_standin('native-random-pipelines', 'random pipelines of 2..6 jobs on the real Batch/LocalBackend', total, False, detail=repr(r))
            return
        total += r.get('rounds', 0)
    ctx.bounded_standin('native-random-pipelines', 'real Batch + LocalBackend (real bash): 3 cyclic shapes rejected before the backend starts; 600 random pipelines of 2..6 jobs with depends_on and resource edges, random creation order, always_run and failing jobs: order, numbering, recorded dependencies and the exact set of jobs run', total, True)
