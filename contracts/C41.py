"""C41 - uncommitted updates have no effect on a batch.

Invariant U: a job j whose update is not committed is Pending, or (first update only) Ready with no pending parents, and it
contributes to no scheduling counter, no tally and to n_jobs of no group.
Obligations on the real code:
 * _create_jobs (fragment contract): a job of an update other than the first is inserted Pending (Ready only for update 1 and
   no parents), so the scheduler, which selects only Ready jobs, cannot pick it before the commit.
 * scheduler / job-private selection queries (embedded SQL, parsed): every query that hands jobs to schedule_job selects
   jobs.state = 'Ready' (AST + parsed-SQL obligations).
 * commit_batch_update: a staged job count different from the declared one rolls the transaction back and writes nothing;
   it is the only routine that sets batch_updates.committed; first reads take locks.
 * cancel_job_group: the transfer out of the user's counters sums only rows of COMMITTED updates (pointwise obligation on the
   aggregate's row predicate).
 * mark_job_complete children statement: a child may be made Ready only if its update is committed.  This obligation FAILS
   on the unchanged tree: the statement joins job_parents without any `committed` conjunct (known finding F1, recorded in
   known_findings.json with the failing history); any other violation of U is reported as a VIOLATION.
"""
from __future__ import annotations

import ast as pyast
import glob
import os

import z3

from contracts import cancel_counters, create_jobs_frag, sqlspec as SP
from vc import core, sqlast as A, sqlparse, sqlvc


def committed(db, b, u):
    bu = db.tab('batch_updates')
    s1, s2 = z3.Int('s1_q'), z3.Int('s2_q')
    c = bu.get([b, u, s1, s2], 'committed')
    return z3.Exists([s1, s2], z3.And(bu.has([b, u, s1, s2]), z3.Not(c.n), c.v != 0))


def build(ctx):
    ex = SP.proc_exec(inline_after=False)
    # ---- _create_jobs
    create_jobs_frag.add(ctx, a=['ready-iff-first-update-and-no-parents', 'otherwise-pending'], b=['jobs-row-fields'])

    # ---- commit_batch_update: rollback on a wrong count, only writer of `committed`
    name = 'commit_batch_update'
    rt = ex.routines[name]
    ctx.under_contract(SP.rel(rt.source_file), 'PROCEDURE ' + name)
    outs = ex.run_procedure(name)
    n_rb = 0
    for pi, s in enumerate(outs):
        rc = s.results[-1][0][1] if s.results else None
        live = [e for e in s.effects if e.kind in ('insert', 'upsert', 'update', 'update-set', 'insert-select', 'upsert-select', 'delete', 'delete-set', 'loop-set') and not e.data.get('rolled_back')]
        committing = [e for e in live if e.table == 'batch_updates']
        if rc is not None and z3.is_int_value(z3.simplify(rc.v)) and z3.simplify(rc.v).as_long() == 1:
            n_rb += 1
            ctx.add(core.decided('%s/path%d/wrong-job-count-writes-nothing' % (name, pi), not live, repr([(e.kind, e.table) for e in live]), kind='frame'))
        if committing:
            exp, stg = s.vars['expected_n_jobs'], s.vars['staging_n_jobs']
            SP.add_valid(ctx, '%s/path%d/commits-only-when-the-staged-job-count-equals-the-declared-one' % (name, pi), s.pc, [], z3.And(z3.Not(exp.n), z3.Not(stg.n), stg.v == exp.v))
        if not committing and live:
            ctx.add(core.decided('%s/path%d/no-effect-without-setting-committed' % (name, pi), False, repr([(e.kind, e.table) for e in live]), kind='frame'))
    ctx.add(core.decided('%s/rollback-path-exists' % name, n_rb >= 1, '%d rollback paths' % n_rb, kind='vacuity'))
    writers = []
    for rn, r in ex.routines.items():
        for n in r.body.walk():
            if isinstance(n, A.Update) and 'batch_updates' in SP._tables_of(n.tables) and any(t.parts[-1] == 'committed' for t, _ in n.assignments):
                writers.append(rn)
    py_writers = []
    for fp in sorted(glob.glob(os.path.join(core.REPO, 'batch', 'batch', '**', '*.py'), recursive=True)):
        txt = open(fp).read()
        for n in pyast.walk(pyast.parse(txt)):
            if isinstance(n, pyast.Constant) and isinstance(n.value, str) and 'batch_updates' in n.value and 'SET' in n.value.upper() and 'UPDATE BATCH_UPDATES' in ' '.join(n.value.upper().split()):
                py_writers.append('%s:%d' % (os.path.relpath(fp, core.REPO), n.lineno))
    ctx.add(core.decided('closed-world/only-commit_batch_update-sets-committed', sorted(set(writers)) == ['commit_batch_update'] and not py_writers, 'sql=%r python=%r' % (writers, py_writers), kind='scan'))
    SP.lock_discipline(ctx, ex, ['commit_batch_update'])

    # ---- cancel_job_group: only committed updates leave the user's counters
    cancel_counters.analyze(ctx, ex, 'cancel_job_group', only_committed_clause=True)

    # ---- mark_job_complete children statement vs U (expected finding F1)
    name = 'mark_job_complete'
    rt = ex.routines[name]
    ctx.under_contract(SP.rel(rt.source_file), 'PROCEDURE ' + name)
    st0 = ex.new_state()
    for t in ('jobs', 'job_parents', 'batch_updates'):
        st0.db.tab(t)
    base = st0.db.fork()
    outs = ex.run_procedure(name, st0)
    for pi, s in enumerate(outs):
        bb = s.vars['in_batch_id']
        pre = [z3.Not(bb.n), SP.terminal(s.vars['new_state'])]
        if not sqlvc.feasible(list(s.pc) + pre, 2000):
            continue
        for e in [e for e in s.effects if e.table == 'jobs' and e.kind == 'update-set' and 'n_pending_parents' in e.data.get('assigned', [])]:
            kv, aff, o, n_ = e.data['kvars'], e.data['affected'], e.data['old_row'], e.data['new_row']
            upd = o['update_id']
            SP.add_valid(ctx, '%s/children-statement/makes-a-child-ready-only-if-its-update-is-committed' % name, s.pc[: e.data['pc_len']], pre + [aff, SP.is_state(n_['state'], 'Ready')], committed(base, kv[0], upd.v), dedupe_key='F1')
    # ---- the parent itself: completing a job of an uncommitted update must not touch tallies: precondition, stated
    _selection_queries(ctx)
    SP.engine_obligations(ctx, ex)
    ctx.assume('each procedure call is atomic (serialisable isolation); MySQL NULL/boolean semantics as encoded in vc/sqlvc.py')
    ctx.assume('schedule_job / mark_job_started are only called for jobs returned by the selection queries checked here (Ready jobs); a job of an uncommitted update can complete only through the canceller/errored paths, which require a selected job as well')
    ctx.undecided('that an update which is never committed leaves staging rows behind (job_groups_inst_coll_staging) - they are read only by commit_batch_update of that update')
    ctx.undecided('job groups created in an uncommitted update (front_end _create_job_groups) and their visibility in listings')


def _selection_queries(ctx):
    """every embedded query that selects jobs for scheduling filters jobs.state = 'Ready' (pool scheduler, job-private)"""
    found = []
    for rel in ('batch/batch/driver/instance_collection/pool.py', 'batch/batch/driver/instance_collection/job_private.py'):
        src = core.read_repo(rel)
        tree = pyast.parse(src)
        for fn in pyast.walk(tree):
            if not isinstance(fn, (pyast.AsyncFunctionDef, pyast.FunctionDef)):
                continue
            calls_schedule = any(isinstance(n, pyast.Call) and getattr(n.func, 'id', getattr(n.func, 'attr', None)) in ('schedule_job', 'create_instance_with_error_handling', 'create_instance') for n in pyast.walk(fn))
            if not calls_schedule:
                continue
            for n in pyast.walk(fn):
                txt = None
                if isinstance(n, pyast.Constant) and isinstance(n.value, str):
                    txt = n.value
                elif isinstance(n, pyast.JoinedStr):
                    txt = ''.join(v.value if isinstance(v, pyast.Constant) else '{hole}' for v in n.values)
                if txt and 'FROM jobs' in txt and 'SELECT' in txt.upper():
                    norm = ' '.join(txt.split())
                    ok = "jobs.state = 'Ready'" in norm or "state = 'Ready'" in norm
                    found.append((rel, n.lineno, ok))
        ctx.under_contract(rel, 'job selection queries')
    ctx.extra['selection_queries'] = ['%s:%d ready=%s' % x for x in found]
    ctx.add(core.decided('scheduler/every-job-selection-query-requires-state-Ready', len(found) >= 4 and all(ok for _, _, ok in found), repr(found), kind='scan'))
