"""C41 - uncommitted updates have no effect on a batch.

Invariant U: a job j whose update is not committed is Pending, or (first update only) Ready with no pending parents, and it
contributes to no scheduling counter, no tally and to n_jobs of no group.
Obligations on the real code:
 * _create_jobs (fragment contract): a job of an update other than the first is inserted Pending (Ready only for update 1 and
   no parents), so the scheduler, which selects only Ready jobs, cannot pick it before the commit.
 * scheduler / job-private selection queries (embedded SQL, parsed): every query that hands jobs to schedule_job selects
   jobs.state = 'Ready' (AST + parsed-SQL obligations).
 * commit_batch_update: a staged job count different from the declared one rolls the transaction back and writes nothing;
   it is the only routine that sets batch_updates.committed; first reads take locks.
 * cancel_job_group: the transfer out of the user's counters sums only rows of COMMITTED updates (pointwise obligation on the
   aggregate's row predicate).
 * (wave 4) _create_jobs is verified on the WHOLE per-job region (contracts/create_jobs_frag.fragment_tail): besides the
   initial state, the row handed to the INSERT carries that state and n_pending_parents = number of job_parents rows written,
   in every update - a job with a parent in its own (open) update cannot count down to Ready before the commit.
 * (wave 4) commit_batch_update rewrites only jobs OF the update being committed (pointwise, under the id-range invariant).
 * (wave 4) mark_job_complete marks the batch complete only when the root tally equals the number of jobs of COMMITTED updates:
   the total it compares with is batches.n_jobs (invariant K) or an aggregate over batch_updates proved pointwise to range over
   exactly the committed updates of the batch - an open update never keeps a batch from completing.
 * (wave 4) nothing of an uncommitted update is visible to the schedulers' selection predicate (contracts/sched_visibility.py):
   every job selection is confined to running groups/batches, only commit_batch_update can set 'running', no Python INSERT
   creates a running group/batch, _create_job_group under a pyvc contract.
 * mark_job_complete children statement: a child may be made Ready only if its update is committed.  This obligation FAILS
   on the unchanged tree: the statement joins job_parents without any `committed` conjunct (known finding F1, recorded in
   known_findings.json with the failing history); any other violation of U is reported as a VIOLATION.
"""
from __future__ import annotations

import ast as pyast
import glob
import os

import z3

from contracts import cancel_counters, create_jobs_frag, sched_visibility, sqlspec as SP
from vc import core, sqlast as A, sqlparse, sqlvc


def committed(db, b, u):
    bu = db.tab('batch_updates')
    s1, s2 = z3.Int('s1_q'), z3.Int('s2_q')
    c = bu.get([b, u, s1, s2], 'committed')
    return z3.Exists([s1, s2], z3.And(bu.has([b, u, s1, s2]), z3.Not(c.n), c.v != 0))


def _canceller_walks_running_groups(ctx):
    """the canceller completes ('Cancelled') the jobs it selects; it reaches jobs only through its walk over job groups, and a
    group of a batch whose update was never committed is not 'running' (groups become running only in commit_batch_update:
    closed-world obligation of sched_visibility) - so every group walk of the canceller must keep `state = 'running'` as a
    top-level conjunct (inside an OR it no longer confines anything)."""
    rel = 'batch/batch/driver/canceller.py'
    tree = pyast.parse(core.read_repo(rel))
    walks, bad = 0, []
    for n in pyast.walk(tree):
        if isinstance(n, pyast.Constant) and isinstance(n.value, str) and 'FROM job_groups' in n.value and 'SELECT' in n.value.upper():
            try:
                stn = sqlparse.parse_statements(n.value, rel, n.lineno)[0]
            except Exception as e:  # pylint: disable=broad-except
                raise core.Undecided('canceller group walk at line %d is outside the SQL subset: %s' % (n.lineno, str(e)[:100]))
            sel = stn.select
            conj = []

            def walk(e):
                if isinstance(e, A.BinOp) and e.op == 'AND':
                    walk(e.left)
                    walk(e.right)
                else:
                    conj.append(e)

            walk(sel.where)
            walks += 1
            ok = any(isinstance(c, A.BinOp) and c.op == '=' and isinstance(c.left, A.Name) and c.left.parts[-1] == 'state' and c.left.parts[0] in ('state', 'job_groups') and isinstance(c.right, A.Lit) and c.right.value == 'running' for c in conj)
            if not ok:
                bad.append('line %d' % n.lineno)
    ctx.add(core.decided('C41/canceller/every-job-group-walk-is-confined-to-running-groups', walks >= 3 and not bad, 'group walks: %d; not confined: %r' % (walks, bad), kind='scan'))
    ctx.under_contract(rel, 'Canceller.* (job-group walks, SQL-structural)')


def build(ctx):
    _canceller_walks_running_groups(ctx)
    ex = SP.proc_exec(inline_after=False)
    # ---- _create_jobs
    # the whole per-job region as one contract (wave 4; it subsumes the two positional fragments used before: same clauses,
    # and locals computed anywhere in the region flow into the rows)
    create_jobs_frag.add(ctx, a=(), b=(), tail=['ready-iff-first-update-and-no-parents', 'otherwise-pending', 'jobs-row-appended', 'jobs-row-fields', 'n_pending_parents-is-the-number-of-parents',
                                                'n_pending_parents-covers-every-parent-row-in-every-update', 'one-parent-row-per-parent-in-order'])

    # ---- commit_batch_update: rollback on a wrong count, only writer of `committed`
    name = 'commit_batch_update'
    rt = ex.routines[name]
    ctx.under_contract(SP.rel(rt.source_file), 'PROCEDURE ' + name)
    st0 = ex.new_state()
    for t in ('jobs', 'batch_updates'):
        st0.db.tab(t)
    base = st0.db.fork()
    outs = ex.run_procedure(name, st0)
    n_rb = 0
    for pi, s in enumerate(outs):
        _commit_touches_only_its_own_jobs(ctx, name, pi, s, base)
        rc = s.results[-1][0][1] if s.results else None
        live = [e for e in s.effects if e.kind in ('insert', 'upsert', 'update', 'update-set', 'insert-select', 'upsert-select', 'delete', 'delete-set', 'loop-set') and not e.data.get('rolled_back')]
        committing = [e for e in live if e.table == 'batch_updates']
        if rc is not None and z3.is_int_value(z3.simplify(rc.v)) and z3.simplify(rc.v).as_long() == 1:
            n_rb += 1
            ctx.add(core.decided('%s/path%d/wrong-job-count-writes-nothing' % (name, pi), not live, repr([(e.kind, e.table) for e in live]), kind='frame'))
        if committing:
            exp, stg = s.vars['expected_n_jobs'], s.vars['staging_n_jobs']
            SP.add_valid(ctx, '%s/path%d/commits-only-when-the-staged-job-count-equals-the-declared-one' % (name, pi), s.pc, [], z3.And(z3.Not(exp.n), z3.Not(stg.n), stg.v == exp.v))
        if not committing and live:
            ctx.add(core.decided('%s/path%d/no-effect-without-setting-committed' % (name, pi), False, repr([(e.kind, e.table) for e in live]), kind='frame'))
    ctx.add(core.decided('%s/rollback-path-exists' % name, n_rb >= 1, '%d rollback paths' % n_rb, kind='vacuity'))
    writers = []
    for rn, r in ex.routines.items():
        for n in r.body.walk():
            if isinstance(n, A.Update) and 'batch_updates' in SP._tables_of(n.tables) and any(t.parts[-1] == 'committed' for t, _ in n.assignments):
                writers.append(rn)
    py_writers = []
    for fp in sorted(glob.glob(os.path.join(core.REPO, 'batch', 'batch', '**', '*.py'), recursive=True)):
        txt = open(fp).read()
        for n in pyast.walk(pyast.parse(txt)):
            if isinstance(n, pyast.Constant) and isinstance(n.value, str) and 'batch_updates' in n.value and 'SET' in n.value.upper() and 'UPDATE BATCH_UPDATES' in ' '.join(n.value.upper().split()):
                py_writers.append('%s:%d' % (os.path.relpath(fp, core.REPO), n.lineno))
    ctx.add(core.decided('closed-world/only-commit_batch_update-sets-committed', sorted(set(writers)) == ['commit_batch_update'] and not py_writers, 'sql=%r python=%r' % (writers, py_writers), kind='scan'))
    SP.lock_discipline(ctx, ex, ['commit_batch_update'])

    # ---- cancel_job_group: only committed updates leave the user's counters
    cancel_counters.analyze(ctx, ex, 'cancel_job_group', only_committed_clause=True)

    # ---- mark_job_complete children statement vs U (expected finding F1)
    name = 'mark_job_complete'
    rt = ex.routines[name]
    ctx.under_contract(SP.rel(rt.source_file), 'PROCEDURE ' + name)
    st0 = ex.new_state()
    for t in ('jobs', 'job_parents', 'batch_updates', 'batches', 'job_groups_n_jobs_in_complete_states'):
        st0.db.tab(t)
    base = st0.db.fork()
    outs = ex.run_procedure(name, st0)
    n_completing = 0
    for pi, s in enumerate(outs):
        bb = s.vars['in_batch_id']
        pre = [z3.Not(bb.n), SP.terminal(s.vars['new_state'])]
        if not sqlvc.feasible(list(s.pc) + pre, 2000):
            continue
        n_completing += _batch_completion(ctx, name, pi, s, base, bb, pre)
        for e in [e for e in s.effects if e.table == 'jobs' and e.kind == 'update-set' and 'n_pending_parents' in e.data.get('assigned', [])]:
            kv, aff, o, n_ = e.data['kvars'], e.data['affected'], e.data['old_row'], e.data['new_row']
            upd = o['update_id']
            SP.add_valid(ctx, '%s/children-statement/makes-a-child-ready-only-if-its-update-is-committed' % name, s.pc[: e.data['pc_len']], pre + [aff, SP.is_state(n_['state'], 'Ready')], committed(base, kv[0], upd.v), dedupe_key='F1')
    ctx.add(core.decided('%s/batch-completion/the-statement-that-completes-the-batch-is-under-contract' % name, n_completing >= 1, '%d paths write batches.state' % n_completing, kind='vacuity'))
    # ---- the parent itself: completing a job of an uncommitted update must not touch tallies: precondition, stated
    _selection_queries(ctx)
    # ---- nothing of an uncommitted update is visible to the schedulers' selection predicate (running-group guard, writers of
    #      'running', state of newly inserted groups/batches, _create_job_group under contract)
    sched_visibility.build(ctx, ex)
    SP.engine_obligations(ctx, ex)
    ctx.assume('each procedure call is atomic (serialisable isolation); MySQL NULL/boolean semantics as encoded in vc/sqlvc.py')
    ctx.assume('schedule_job / mark_job_started are only called for jobs returned by the selection queries checked here (Ready jobs); a job of an uncommitted update can complete only through the canceller/errored paths, which require a selected job as well')
    ctx.undecided('that an update which is never committed leaves staging rows behind (job_groups_inst_coll_staging) - they are read only by commit_batch_update of that update')
    ctx.undecided('job groups created in an uncommitted update: their visibility in LISTINGS / the UI (their invisibility to the schedulers is decided: sched_visibility)')
    ctx.undecided('mark_job_group_complete: completion of a nested job group against job_groups.n_jobs (committed jobs only by invariant K) is left to C06')
    ctx.assume('invariant K (C06): batches.n_jobs = sum of n_jobs over the committed updates of the batch (commit_batch_update is its only writer); catalogue invariants: one batch_updates row per (batch, update) and job ids of update u lie exactly in [start_job_id(u), start_job_id(u) + n_jobs(u)) (C09 ranges; C08 known finding: the range is not enforced on insertion)')


def _commit_touches_only_its_own_jobs(ctx, name, pi, s, base):
    """C41 'whatever happens meanwhile': committing update u rewrites (state, n_pending_parents, cancelled) only of jobs OF u -
    a job of another, still open update is not made Ready by someone else's commit.  Stated over the tables, for every
    set-oriented UPDATE of jobs in the procedure: affected(row) ==> row.update_id = in_update_id, under the catalogue
    invariants (assumed; established by _create_batch_update / _create_jobs, C09 and C08): one batch_updates row per
    (batch, update), and a job belongs to update u iff its id lies in [start_job_id(u), start_job_id(u) + n_jobs(u))."""
    bb, uu = s.vars['in_batch_id'], s.vars['in_update_id']
    pre = [z3.Not(bb.n), z3.Not(uu.n)]
    ups = [e for e in s.effects if e.table == 'jobs' and e.kind in ('update-set', 'update', 'loop-set') and not e.data.get('rolled_back')]
    if not ups:
        return
    jobs0, bu0 = base.tab('jobs'), base.tab('batch_updates')
    b, u = bb.v, uu.v
    sg, sj, sg2, sj2, j = z3.Ints('sg_r sj_r sg2_r sj2_r j_r')
    nj = bu0.get([b, u, sg, sj], 'n_jobs')
    ju = jobs0.get([b, j], 'update_id')
    one_row = z3.ForAll([sg, sj, sg2, sj2], z3.Implies(z3.And(bu0.has([b, u, sg, sj]), bu0.has([b, u, sg2, sj2])), z3.And(sg == sg2, sj == sj2)))
    ranges = z3.ForAll([sg, sj, j], z3.Implies(z3.And(bu0.has([b, u, sg, sj]), jobs0.has([b, j])), z3.And(z3.Not(nj.n), z3.Not(ju.n), z3.And(sj <= j, j < sj + nj.v) == (ju.v == u))))
    for e in ups:
        if e.kind != 'update-set':
            ctx.add(core.decided('%s/path%d/jobs-are-rewritten-by-a-set-oriented-statement-under-contract' % (name, pi), False, e.kind, kind='frame'))
            continue
        if not sqlvc.feasible(list(s.pc[: e.data['pc_len']]) + pre, 2000):
            continue
        kv, aff = e.data['kvars'], e.data['affected']
        ku = jobs0.get(kv, 'update_id')
        o = SP.add_valid(ctx, '%s/path%d/rewrites-only-jobs-of-the-update-being-committed' % (name, pi), s.pc[: e.data['pc_len']], pre + [one_row, ranges], z3.ForAll(kv, z3.Implies(aff, z3.And(kv[0] == b, z3.Not(ku.n), ku.v == u))), dedupe_key='commit-own-jobs')
        if o is not None:
            ctx.add(core.satisfiable('%s/path%d/vacuity/some-job-is-rewritten' % (name, pi), list(s.pc[: e.data['pc_len']]) + pre + [aff]))


COMMITTED_TOTAL = z3.Function('committed_n_jobs', z3.IntSort(), z3.IntSort())  # spec: sum of n_jobs over the COMMITTED updates of a batch


def _batch_completion(ctx, name, pi, s, base, bb, pre):
    """C41 'never change whether the batch is complete': mark_job_complete may set batches.state only when the root tally
    n_completed equals the number of jobs of COMMITTED updates.  The total the code compares with must therefore be
    batches.n_jobs (invariant K of C06: = committed total, commit_batch_update being its only writer) or an aggregate over
    batch_updates whose row predicate is exactly `this batch and committed` (pointwise obligation on the recorded predicate)."""
    b = bb.v
    n = 0
    bt0, bu0 = base.tab('batches'), base.tab('batch_updates')
    for e in [e for e in s.effects if e.table == 'batches' and 'state' in e.data.get('assigned', []) and not e.data.get('rolled_back')]:
        n += 1
        lab = '%s/batch-completion' % name
        if e.kind != 'update' or len(e.data.get('key', [])) != 1:
            ctx.add(core.decided('%s/path%d/writes-the-state-of-one-batch-row' % (lab, pi), False, 'effect kind %s' % e.kind, kind='frame'))
            continue
        pc_e = list(s.pc[: e.data['pc_len']])
        nj = bt0.get([b], 'n_jobs')
        hyps = [z3.Implies(bt0.has([b]), z3.And(z3.Not(nj.n), nj.v == COMMITTED_TOTAL(b)))]  # invariant K (C06), instantiated at this batch
        for r in [r for r in s.aggregates if 'symbol' in r and r['func'] == 'SUM' and any('batch_updates' in str(k) for k in r['kvars'])]:
            cols = [str(k).split('k_batch_updates_')[-1].split('!')[0] for k in r['kvars']]
            if cols != bu0.pk[1:]:
                ctx.add(core.decided('%s/path%d/aggregate-over-batch_updates-pins-only-the-batch' % (lab, pi), False, 'free key columns %r' % cols, kind='scan'))
                continue
            key = [b] + list(r['kvars'])
            comm, njobs = bu0.get(key, 'committed'), bu0.get(key, 'n_jobs')
            spec = z3.And(bu0.has(key), z3.Not(comm.n), comm.v != 0)
            arg = r['arg']
            o1 = SP.add_valid(ctx, '%s/path%d/a-job-total-summed-over-batch_updates-counts-exactly-the-committed-updates-of-this-batch' % (lab, pi), pc_e, pre,
                              z3.ForAll(r['kvars'], z3.And(r['cond'] == spec, z3.Implies(spec, z3.And(z3.Not(arg.n), z3.Not(njobs.n), arg.v == njobs.v)))), dedupe_key='agg-%s' % r['expr'])
            # sound only together with the pointwise obligation just emitted; SUM over no row is NULL (the sum of no committed
            # update is 0).  The emptiness test is the very term sqlvc puts into the NULL flag of the aggregate
            empty = z3.Not(z3.Exists(r['kvars'], r['cond'])) if r['kvars'] else z3.Not(r['cond'])
            hyps.append(z3.If(empty, z3.IntVal(0), r['symbol']) == COMMITTED_TOTAL(b))
        tally = s.db.tab('job_groups_n_jobs_in_complete_states').get([b, z3.IntVal(0)], 'n_completed')
        new_state = e.data['new']['state']
        goal = z3.And(e.data['key'][0] == b, z3.Not(tally.n), tally.v == COMMITTED_TOTAL(b))
        o = SP.add_valid(ctx, '%s/path%d/the-batch-is-marked-complete-only-when-the-root-tally-equals-the-jobs-of-committed-updates' % (lab, pi), pc_e, pre + hyps, goal, dedupe_key='batch-complete')
        if o is None:  # same verification condition as on an earlier path (paths differ in branches irrelevant to the goal)
            continue
        ctx.add(core.satisfiable('%s/path%d/vacuity/completing-path-reachable' % (lab, pi), pc_e + pre + hyps + [SP.is_state(new_state, 'complete')]))
        ctx.add(core.satisfiable('%s/path%d/canary/complete-at-one-more-than-the-committed-total' % (lab, pi), pc_e + pre + hyps + [z3.Not(z3.And(z3.Not(tally.n), tally.v == COMMITTED_TOTAL(b) + 1))], kind='canary'))
    return n


def _selection_queries(ctx):
    """every embedded query that selects jobs for scheduling filters jobs.state = 'Ready' (pool scheduler, job-private)"""
    found = []
    for rel in ('batch/batch/driver/instance_collection/pool.py', 'batch/batch/driver/instance_collection/job_private.py'):
        src = core.read_repo(rel)
        tree = pyast.parse(src)
        for fn in pyast.walk(tree):
            if not isinstance(fn, (pyast.AsyncFunctionDef, pyast.FunctionDef)):
                continue
            calls_schedule = any(isinstance(n, pyast.Call) and getattr(n.func, 'id', getattr(n.func, 'attr', None)) in ('schedule_job', 'create_instance_with_error_handling', 'create_instance') for n in pyast.walk(fn))
            if not calls_schedule:
                continue
            for n in pyast.walk(fn):
                txt = None
                if isinstance(n, pyast.Constant) and isinstance(n.value, str):
                    txt = n.value
                elif isinstance(n, pyast.JoinedStr):
                    txt = ''.join(v.value if isinstance(v, pyast.Constant) else '{hole}' for v in n.values)
                if txt and 'FROM jobs' in txt and 'SELECT' in txt.upper():
                    norm = ' '.join(txt.split())
                    ok = "jobs.state = 'Ready'" in norm or "state = 'Ready'" in norm
                    found.append((rel, n.lineno, ok))
        ctx.under_contract(rel, 'job selection queries')
    ctx.extra['selection_queries'] = ['%s:%d ready=%s' % x for x in found]
    ctx.add(core.decided('scheduler/every-job-selection-query-requires-state-Ready', len(found) >= 4 and all(ok for _, _, ok in found), repr(found), kind='scan'))


def native_witness(ctx):
    """used by vc.check only when the contracts no longer apply to a changed source (exit 2/3): bounded replays of the REAL
    statements - the per-job region of _create_jobs on a grid of updates / parent lists, and _create_job_group with a recording
    transaction.  Only a confirmed failing input is reported."""
    for f in (create_jobs_frag.replay_tail, sched_visibility.native_witness_inserted_state):
        try:
            r = f()
        except Exception:  # pylint: disable=broad-except
            continue
        if isinstance(r, dict) and r.get('confirmed'):
            return r
    return {'confirmed': False}
