"""C41, clause "never scheduled": nothing of an uncommitted update is visible to the schedulers' selection predicate.

The predicate under which the driver hands a job to schedule_job / creates an instance for it (pool.py, job_private.py) is
    Sched(j)  :=  jobs.state = 'Ready'  and  the job's OWN group (or its batch) has state = 'running'.
Invariant V:  not committed(update(j))  ==>  not Sched(j).  It is carried by four obligations on the real code:
 (a) every SELECT block over `jobs` in the two scheduler modules is confined to running groups: it carries the conjunct
     `job_groups.state = 'running'` with job_groups joined on the job's (batch_id, job_group_id), or `batches.state = 'running'`
     with batches joined on the job's batch, or it pins (batch_id, job_group_id) to the two columns of a row of an enclosing
     `async for <row> in <query over job_groups WHERE job_groups.state = 'running'>`  (parsed SQL + Python AST, every run);
 (b) closed world: the only statement of any stored routine and of any SQL string in batch/batch/**/*.py that can set
     job_groups.state / batches.state to 'running' is in commit_batch_update (a new writer makes the scan fail);
 (c) every Python INSERT into job_groups / batches binds to the `state` column a value drawn from literals none of which is
     'running' (possible-constants analysis of the bound expression in the enclosing function; anything not reducible to
     literals fails the obligation);
 (d) _create_job_group under a pyvc contract, for ALL arguments: the value bound to `state` in its INSERT INTO job_groups is
     not 'running', exactly one job_groups row is written on the normal exit.
With (b)-(d) a group created by an update is not 'running' before commit_batch_update of an update that stages jobs under it;
jobs of later updates are inserted Pending (contract on _create_jobs), jobs of the first update may be Ready but their groups
(and the batch) are not running before the first commit.  Assumed (recorded): updates with jobs are committed in order, i.e.
no later update is committed while update 1 is still open (nothing in _create_batch_update / commit_batch_update enforces it).
"""
from __future__ import annotations

import ast as pyast
import glob
import os

import z3

from contracts import sqlspec as SP
from vc import core, sqlast as A, sqlparse

SCHED_FILES = ('batch/batch/driver/instance_collection/pool.py', 'batch/batch/driver/instance_collection/job_private.py')
FE = 'batch/batch/front_end/front_end.py'
GATED = ('job_groups', 'batches')


def _conj(e, out):
    if isinstance(e, A.BinOp) and e.op == 'AND':
        _conj(e.left, out)
        _conj(e.right, out)
    elif e is not None:
        out.append(e)
    return out


def _sql_text(node):
    if isinstance(node, pyast.Constant) and isinstance(node.value, str):
        return node.value
    if isinstance(node, pyast.JoinedStr):
        return ''.join(str(v.value) if isinstance(v, pyast.Constant) else '{' + pyast.unparse(v.value) + '}' for v in node.values)
    return None


def _leaves(from_):
    if from_ is None:
        return []
    return from_.tables() if isinstance(from_, A.Join) else [from_]


def _ons(from_, out):
    if isinstance(from_, A.Join):
        _ons(from_.left, out)
        _ons(from_.right, out)
        if from_.on is not None:
            _conj(from_.on, out)
    return out


def _col(e, table, col):
    """e is the column `col` of `table` (qualified, or unqualified when allow)"""
    return isinstance(e, A.Name) and [p.strip('`') for p in e.parts] == [table, col]


def _col_maybe_unqualified(e, table, col):
    return isinstance(e, A.Name) and [p.strip('`') for p in e.parts] in ([table, col], [col])


def _eq(c):
    return isinstance(c, A.BinOp) and c.op == '='


def _is_running_conjunct(c, table):
    return _eq(c) and ((_col(c.left, table, 'state') and isinstance(c.right, A.Lit) and c.right.value == 'running') or (_col(c.right, table, 'state') and isinstance(c.left, A.Lit) and c.left.value == 'running'))


def _joined_eq(ons, t1, c1, t2, c2):
    return any(_eq(c) and ((_col(c.left, t1, c1) and _col(c.right, t2, c2)) or (_col(c.left, t2, c2) and _col(c.right, t1, c1))) for c in ons)


def _names(leaves):
    return [t.ref_name for t in leaves if isinstance(t, A.TableRef)]


def _running_groups_query(sql):
    """top-level SELECT ... FROM job_groups ... WHERE ... AND job_groups.state = 'running' that returns the group's key columns"""
    try:
        stn = sqlparse.parse_statements(sql)[0]
    except sqlparse.SqlUnsupported:
        return False
    if not isinstance(stn, A.SelectStmt) or not isinstance(stn.select, A.Select):
        return False
    sel = stn.select
    leaves = _leaves(sel.from_)
    if not leaves or not isinstance(leaves[0], A.TableRef) or leaves[0].name != 'job_groups' or leaves[0].ref_name != 'job_groups':
        return False
    # job_groups must be the preserved side: only LEFT/INNER joins hanging off it
    cols = [c.expr for c in sel.columns if hasattr(c, 'expr')]
    has_key = any(_col(c, 'job_groups', 'batch_id') for c in cols) and any(_col(c, 'job_groups', 'job_group_id') for c in cols)
    aliased = [c for c in sel.columns if getattr(c, 'alias', None) in ('batch_id', 'job_group_id')]
    return has_key and not aliased and any(_is_running_conjunct(c, 'job_groups') for c in _conj(sel.where, []))


def selection_guard(ctx):
    found, bad = [], []
    for rel in SCHED_FILES:
        tree = pyast.parse(core.read_repo(rel))
        parent = {}
        for n in pyast.walk(tree):
            for ch in pyast.iter_child_nodes(n):
                parent[ch] = n
        for call in pyast.walk(tree):
            if not (isinstance(call, pyast.Call) and call.args):
                continue
            holder = call.args[0]
            txt = _sql_text(holder)
            if txt is None and isinstance(holder, pyast.Name):
                continue
            if not txt or 'SELECT' not in txt.upper() or 'jobs' not in txt:
                continue
            _check_text(rel, call, call.args[0].lineno, txt, parent, found, bad)
        # f-strings assigned to a variable first (the autoscaler's per-user query)
        for n in pyast.walk(tree):
            if isinstance(n, pyast.Assign) and isinstance(n.value, pyast.JoinedStr):
                txt = _sql_text(n.value)
                if txt and 'SELECT' in txt.upper() and 'jobs' in txt:
                    _check_text(rel, None, n.value.lineno, txt, parent, found, bad)
    ctx.extra['selection_guards'] = found
    ctx.add(core.decided('scheduler/every-job-selection-query-is-confined-to-running-job-groups-or-batches', len(found) >= 6 and not bad, 'unguarded: %r; guarded: %r' % (bad, found), kind='scan'))


def _check_text(rel, call, lineno, txt, parent, found, bad):
    try:
        stmts = sqlparse.parse_statements(txt, rel, lineno)
    except sqlparse.SqlUnsupported as e:
        if ' jobs' in txt:
            raise core.Undecided('embedded query over jobs at %s:%d is outside the SQL subset: %s' % (rel, lineno, str(e)[:120]))
        return
    for stn in stmts:
        for sel in stn.walk():
            if not (isinstance(sel, A.Select) and sel.from_ is not None):
                continue
            leaves = _leaves(sel.from_)
            if 'jobs' not in [t.name for t in leaves if isinstance(t, A.TableRef)]:
                continue
            if 'jobs' not in _names(leaves):
                bad.append('%s:%d jobs is aliased' % (rel, lineno))
                continue
            cs, ons = _conj(sel.where, []), _ons(sel.from_, [])
            where = '%s:%d' % (rel, getattr(sel, 'line', None) or lineno)
            guard = None
            if 'job_groups' in _names(leaves) and any(_is_running_conjunct(c, 'job_groups') for c in cs) and _joined_eq(ons, 'job_groups', 'batch_id', 'jobs', 'batch_id') and _joined_eq(ons, 'job_groups', 'job_group_id', 'jobs', 'job_group_id'):
                guard = "job_groups.state = 'running' joined on the job's group"
            elif 'batches' in _names(leaves) and any(_is_running_conjunct(c, 'batches') for c in cs) and _joined_eq(ons, 'jobs', 'batch_id', 'batches', 'id'):
                guard = "batches.state = 'running' joined on the job's batch"
            elif call is not None:
                guard = _pinned_to_running_group_row(call, cs, parent)
            if guard:
                found.append('%s %s' % (where, guard))
            else:
                bad.append(where)


def _pinned_to_running_group_row(call, cs, parent):
    pb = [c.right.index for c in cs if _eq(c) and _col_maybe_unqualified(c.left, 'jobs', 'batch_id') and isinstance(c.right, A.Param)]
    pg = [c.right.index for c in cs if _eq(c) and _col_maybe_unqualified(c.left, 'jobs', 'job_group_id') and isinstance(c.right, A.Param)]
    if len(pb) != 1 or len(pg) != 1 or len(call.args) < 2 or not isinstance(call.args[1], pyast.Tuple):
        return None
    elts = call.args[1].elts
    if max(pb[0], pg[0]) >= len(elts):
        return None

    def row_col(e, col):
        return e.value.id if isinstance(e, pyast.Subscript) and isinstance(e.value, pyast.Name) and isinstance(e.slice, pyast.Constant) and e.slice.value == col else None

    rb, rg = row_col(elts[pb[0]], 'batch_id'), row_col(elts[pg[0]], 'job_group_id')
    if rb is None or rb != rg:
        return None
    n = call
    while n in parent:
        n = parent[n]
        if isinstance(n, (pyast.FunctionDef, pyast.AsyncFunctionDef, pyast.Lambda)):
            return None  # the row variable must be bound by a loop of the same function body
        if isinstance(n, (pyast.AsyncFor, pyast.For)) and isinstance(n.target, pyast.Name) and n.target.id == rb:
            it = n.iter
            q = _sql_text(it.args[0]) if isinstance(it, pyast.Call) and it.args else None
            if q and _running_groups_query(q):
                # the row must not be rebound / mutated at these two keys between the loop header and the query
                for m in pyast.walk(n):
                    if isinstance(m, (pyast.Assign, pyast.AugAssign)):
                        for t in (m.targets if isinstance(m, pyast.Assign) else [m.target]):
                            if (isinstance(t, pyast.Name) and t.id == rb) or (isinstance(t, pyast.Subscript) and isinstance(t.value, pyast.Name) and t.value.id == rb):
                                return None
                return "pinned to a row of the enclosing query over job_groups WHERE job_groups.state = 'running' (line %d)" % it.lineno
            return None
    return None


# ---- (b) closed world: who can write 'running' ------------------------------------------------------------------------------


def _state_assignments(stn):
    """(table, expr) for every assignment to a `state` column of job_groups / batches in a parsed statement (incl. nested)"""
    out = []
    for n in stn.walk():
        if isinstance(n, A.Update):
            tabs = SP._tables_of(n.tables)
            for tg, ex in n.assignments:
                parts = [p.strip('`') for p in tg.parts]
                if parts[-1] != 'state':
                    continue
                owners = [parts[0]] if len(parts) == 2 else [t for t in tabs if t in GATED] or tabs[:1]
                for t in owners:
                    if t in GATED:
                        out.append((t, ex))
        elif isinstance(n, A.Insert) and n.table in GATED:
            for tg, ex in n.on_duplicate or []:
                if [p.strip('`') for p in tg.parts][-1] == 'state':
                    out.append((n.table, ex))
    return out


def _may_be_running(ex):
    lits = [n.value for n in ex.walk() if isinstance(n, A.Lit) and isinstance(n.value, str)]
    return 'running' in lits or not lits


def running_writers(ctx, ex):
    sql = set()
    for rn, r in ex.routines.items():
        for t, e in _state_assignments(r.body):
            if _may_be_running(e):
                sql.add((rn, t))
        for n in r.body.walk():
            if isinstance(n, A.Insert) and n.table in GATED:
                sql.add((rn, 'INSERT ' + n.table))
    py = []
    inserts = []
    for fp in sorted(glob.glob(os.path.join(core.REPO, 'batch', 'batch', '**', '*.py'), recursive=True)):
        rel = os.path.relpath(fp, core.REPO)
        src = open(fp).read()
        if not any(('UPDATE ' + t) in ' '.join(src.upper().split()) or ('INTO ' + t.upper()) in ' '.join(src.upper().split()) for t in ('JOB_GROUPS', 'BATCHES', 'job_groups', 'batches')):
            continue
        tree = pyast.parse(src)
        parent = {}
        for n in pyast.walk(tree):
            for ch in pyast.iter_child_nodes(n):
                parent[ch] = n
        for n in pyast.walk(tree):
            txt = _sql_text(n) if isinstance(n, (pyast.Constant, pyast.JoinedStr)) else None
            if not txt:
                continue
            norm = ' '.join(txt.split())
            up = norm.upper()
            if not any(k in up for k in ('UPDATE JOB_GROUPS', 'UPDATE BATCHES', 'UPDATE `JOB_GROUPS`', 'UPDATE `BATCHES`', 'INTO JOB_GROUPS ', 'INTO BATCHES ', 'INTO `JOB_GROUPS`', 'INTO `BATCHES`', 'INTO JOB_GROUPS(', 'INTO BATCHES(')):
                continue
            if isinstance(parent.get(n), pyast.JoinedStr):
                continue
            try:
                stmts = sqlparse.parse_statements(txt, rel, n.lineno)
            except sqlparse.SqlUnsupported as e:
                raise core.Undecided('statement writing job_groups/batches at %s:%d is outside the SQL subset: %s' % (rel, n.lineno, str(e)[:100]))
            for stn in stmts:
                for t, e in _state_assignments(stn):
                    if _may_be_running(e):
                        py.append('%s:%d UPDATE %s' % (rel, n.lineno, t))
                for ins in [m for m in stn.walk() if isinstance(m, A.Insert) and m.table in GATED]:
                    inserts.append((rel, n, ins, parent))
    want = {('commit_batch_update', 'job_groups'), ('commit_batch_update', 'batches')}
    ctx.add(core.decided("closed-world/only-commit_batch_update-can-set-a-job-group-or-batch-running", sql == want and not py, 'sql=%r python=%r' % (sorted(sql), py), kind='scan'))
    # (c) the Python INSERTs
    res = []
    for rel, node, ins, parent in inserts:
        res.append(_insert_state_values(rel, node, ins, parent))
    ok = bool(res) and all(r[1] is not None and 'running' not in r[1] for r in res)
    ctx.add(core.decided("python/every-inserted-job-group-or-batch-row-has-a-state-the-schedulers-do-not-select", ok and {r[2] for r in res} >= set(GATED), repr([(r[0], sorted(r[1]) if r[1] is not None else 'not a set of literals') for r in res]), kind='scan'))
    ctx.extra['inserted_states'] = [(r[0], sorted(r[1]) if r[1] is not None else None) for r in res]


def _insert_state_values(rel, node, ins, parent):
    where = '%s:%d INSERT %s' % (rel, node.lineno, ins.table)
    cols = [c.strip('`') for c in (ins.columns or [])]
    if 'state' not in cols or not isinstance(ins.source, list) or len(ins.source) != 1:
        return (where, None, ins.table)
    e = ins.source[0][cols.index('state')]
    if isinstance(e, A.Lit) and isinstance(e.value, str):
        return (where, {e.value}, ins.table)
    if not isinstance(e, A.Param):
        return (where, None, ins.table)
    call = parent.get(node)
    fn = call
    while fn is not None and not isinstance(fn, (pyast.FunctionDef, pyast.AsyncFunctionDef)):
        fn = parent.get(fn)
    if not (isinstance(call, pyast.Call) and call.args and call.args[0] is node and len(call.args) >= 2 and isinstance(call.args[1], pyast.Tuple)) or fn is None:
        return (where, None, ins.table)
    elts = call.args[1].elts
    if e.index >= len(elts) or any(isinstance(x, pyast.Starred) for x in elts):
        return (where, None, ins.table)
    return (where, possible_constants(elts[e.index], fn, set()), ins.table)


def possible_constants(e, fn, seen):
    """the set of literals an expression can evaluate to, or None when it is not built from literals by conditional
    expressions / boolean selection / locals each assigned only such expressions in the function"""
    if isinstance(e, pyast.Constant):
        return {e.value}
    if isinstance(e, pyast.IfExp):
        a, b = possible_constants(e.body, fn, seen), possible_constants(e.orelse, fn, seen)
        return None if a is None or b is None else a | b
    if isinstance(e, pyast.Name) and e.id not in seen:
        vals = set()
        params = {a.arg for a in fn.args.posonlyargs + fn.args.args + fn.args.kwonlyargs}
        if e.id in params:
            return None
        n_bind = 0
        for n in pyast.walk(fn):
            tgts = []
            if isinstance(n, pyast.Assign):
                tgts = [(t, n.value) for t in n.targets]
            elif isinstance(n, pyast.AnnAssign) and n.value is not None:
                tgts = [(n.target, n.value)]
            elif isinstance(n, (pyast.AugAssign, pyast.NamedExpr, pyast.For, pyast.AsyncFor, pyast.With, pyast.AsyncWith)):
                if any(isinstance(m, pyast.Name) and m.id == e.id and isinstance(m.ctx, pyast.Store) for m in pyast.walk(n.target if hasattr(n, 'target') else n)):
                    if not isinstance(n, (pyast.With, pyast.AsyncWith)) or any(isinstance(m, pyast.Name) and m.id == e.id for it in n.items if it.optional_vars is not None for m in pyast.walk(it.optional_vars)):
                        return None
            for t, v in tgts:
                if isinstance(t, pyast.Name) and t.id == e.id:
                    n_bind += 1
                    s = possible_constants(v, fn, seen | {e.id})
                    if s is None:
                        return None
                    vals |= s
                elif any(isinstance(m, pyast.Name) and m.id == e.id for m in pyast.walk(t)):
                    return None
        return vals if n_bind else None
    return None


# ---- (d) _create_job_group under contract ------------------------------------------------------------------------------------


def create_job_group_contract(ctx):
    from vc import pyvc
    from vc.pyvc import Contract

    def insert(eng, st, args, kw, node):
        sql = _sql_text(node.args[0]) or ''
        try:
            stmts = sqlparse.parse_statements(sql)
        except sqlparse.SqlUnsupported:
            raise core.Undecided('unrecognised statement in _create_job_group: %s' % ' '.join(sql.split())[:80])
        for ins in [m for s in stmts for m in s.walk() if isinstance(m, A.Insert) and m.table == 'job_groups']:
            cols = [c.strip('`') for c in (ins.columns or [])]
            if 'state' not in cols or not isinstance(ins.source, list) or len(ins.source) != 1:
                raise core.Undecided('INSERT INTO job_groups without an explicit state column / single VALUES row')
            e = ins.source[0][cols.index('state')]
            st.env['n_group_rows'] = st.env['n_group_rows'] + 1
            if isinstance(e, A.Lit):
                val = e.value
            elif isinstance(e, A.Param) and len(args) >= 2 and isinstance(args[1], tuple) and e.index < len(args[1]):
                val = args[1][e.index]
            else:
                raise core.Undecided('state of the inserted job group is neither a literal nor a positional parameter')
            if isinstance(val, str):
                notrun = z3.BoolVal(val != 'running')
            elif isinstance(val, z3.ExprRef) and val.sort() == z3.StringSort():
                notrun = val != z3.StringVal('running')
            else:
                notrun = z3.BoolVal(False)  # not a string the contract can bound: cannot be shown different from 'running'
            eng.oblige(st, "the-state-bound-to-a-new-job-group-row-is-not-'running'", notrun)
            st.env['STATE_IS_COMPLETE'] = z3.BoolVal(val == 'complete') if isinstance(val, str) else (val == z3.StringVal('complete') if isinstance(val, z3.ExprRef) and val.sort() == z3.StringSort() else z3.BoolVal(False))
        return z3.Int(pyvc.fresh_name('rows'))

    def fetchone(eng, st, args, kw, node):
        raise pyvc.Fork(node, [('a-row', None, 'value', pyvc.SRecord('row', {'cancelled': 1}), None), ('no-row', None, 'value', None, None)])

    nothing = lambda eng, st, args, kw, node: None  # noqa: E731
    c = Contract(
        path=FE, qualname='_create_job_group', label='_create_job_group[scheduler-visibility]',
        types={'tx': 'U', 'batch_id': 'int', 'job_group_id': 'int', 'update_id': 'int', 'user': 'U', 'attributes': 'U', 'cancel_after_n_failures': 'U', 'callback': 'U', 'timestamp': 'int', 'parent_job_group_id': 'int'},
        consts={'ROOT_JOB_GROUP_ID': 0, 'MAX_JOB_GROUPS_DEPTH': z3.Int('MAX_JOB_GROUPS_DEPTH')}, opaque_methods=False,
        calls={'tx.execute_and_fetchone': fetchone, 'tx.execute_insertone': insert, 'tx.execute_update': insert, 'tx.execute_many': insert, 'tx.just_execute': insert,
               'json.dumps': lambda eng, st, args, kw, node: z3.Const('json', pyvc.U), '.items': lambda eng, st, args, kw, node: pyvc.SList(z3.IntVal(0), None, None)},
        ghost_init={'n_group_rows': '0', 'STATE_IS_COMPLETE': 'False'},
        ensures=[('exactly-one-job-group-row-is-written-and-it-is-complete', 'n_group_rows == 1 and STATE_IS_COMPLETE')],
        raises={'HTTPBadRequest': True, 'AssertionError': True, '*': True},
        canaries=[('no-row-written', 'n_group_rows == 0')],
    )
    eng = pyvc.Engine(ctx, c)
    eng.replayer = lambda model, obl: native_witness_inserted_state()
    eng.run()
    ctx.add(core.decided('_create_job_group[scheduler-visibility]/no-call-outside-the-contract', not [u for u in eng.unmodelled if not u.startswith('log.')], repr(eng.unmodelled), kind='frame'))


def native_witness_inserted_state():
    """replay for (c)/(d): call the REAL _create_job_group with a recording transaction for a root and a nested group and report
    the state bound to the job_groups row"""
    return core.run_native(REPLAY_CJG, {})


REPLAY_CJG = r'''
import sys, os, json, asyncio, re
sys.path.insert(0, os.path.join(os.environ['VERIF_REPO'], 'batch')); sys.path.insert(0, os.path.join(os.environ['VERIF_REPO'], 'hail', 'python')); sys.path.insert(0, os.path.join(os.environ['VERIF_REPO'], 'gear')); sys.path.insert(0, os.path.join(os.environ['VERIF_REPO'], 'web_common'))
from contracts.native import stubimport
stubimport.install()
import ast
src = open(os.path.join(os.environ['VERIF_REPO'], 'batch/batch/front_end/front_end.py')).read()
tree = ast.parse(src)
fn = [n for n in tree.body if isinstance(n, ast.AsyncFunctionDef) and n.name == '_create_job_group'][0]
fn.decorator_list = []
class HTTPBadRequest(Exception):
    def __init__(self, **kw): pass
class web: HTTPBadRequest = HTTPBadRequest
ns = {'json': json, 'web': web, 'ROOT_JOB_GROUP_ID': 0, 'MAX_JOB_GROUPS_DEPTH': 2, 'Optional': None, 'Dict': None, 'Transaction': None}
import typing; ns.update({'Optional': typing.Optional, 'Dict': typing.Dict})
exec(compile(ast.Module(body=[fn], type_ignores=[]), 'front_end._create_job_group', 'exec'), ns)
class Tx:
    def __init__(self): self.log = []
    async def execute_and_fetchone(self, sql, args=None, **kw): return None
    async def execute_insertone(self, sql, args=None, **kw): self.log.append((sql, args)); return 1
    async def execute_update(self, sql, args=None, **kw): self.log.append((sql, args)); return 1
    async def execute_many(self, sql, args=None, **kw): self.log.append((sql, args)); return 1
    async def just_execute(self, sql, args=None, **kw): self.log.append((sql, args)); return 1
res = {'confirmed': False}
bad = []
for gid, parent in ((0, 0), (1, 0), (3, 1)):
    tx = Tx()
    asyncio.run(ns['_create_job_group'](tx, batch_id=1, job_group_id=gid, update_id=1, user='u', attributes=None, cancel_after_n_failures=None, callback=None, timestamp=5, parent_job_group_id=parent))
    for sql, args in tx.log:
        m = re.search(r'INSERT INTO job_groups\s*\(([^)]*)\)', sql)
        if m:
            cols = [c.strip().strip('`') for c in m.group(1).split(',')]
            state = args[cols.index('state')]
            if state == 'running':
                bad.append({'job_group_id': gid, 'parent_job_group_id': parent, 'state': state})
if bad:
    res = {'confirmed': True, 'what': "the real _create_job_group inserts a job group that no update has committed with state 'running' (the state the schedulers select): %r" % bad, 'input': bad}
print(json.dumps(res))
'''


def build(ctx, ex):
    for rel in SCHED_FILES:
        ctx.under_contract(rel, 'job selection queries (running-group guard)')
    ctx.under_contract(FE, '_create_job_group')
    selection_guard(ctx)
    running_writers(ctx, ex)
    create_job_group_contract(ctx)
    ctx.assume('updates that stage jobs are committed in order: no later update of a batch is committed while its first update is still open (not enforced by _create_batch_update / commit_batch_update; then the Ready jobs of update 1 would sit in running groups)')
    ctx.assume('commit_batch_update sets running only the groups that have staging rows of the update being committed (its groups and their ancestors) - obligation of C06')
