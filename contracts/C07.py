"""C07 - cancellation stops work in the cancelled subtree only.

Claimed clauses (SQL side, real effective text via sqlvc):
  1. is_job_group_cancelled / is_job_cancelled / is_batch_cancelled compute exactly the spec predicates
       grp_cancelled(b,g) = exists a in anc*(b,g) with (b,a) cancelled;  cancelled(j) = not always_run and (flag or grp_cancelled).
  2. schedule_job, mark_job_creating, mark_job_started: on every path that moves a job to Creating or Running the job is
     not cancelled (spec predicate on the database at call time); and every path ends with a result row, never a SIGNAL
     ("answered normally" for jobs under any combination of cancelled groups).
  3. jobs_before_insert signals exactly when the new job's group is cancelled (no jobs can be added beneath it).
  4. cancel_job_group: called on an already cancelled group it writes nothing (idempotent); otherwise it inserts exactly the
     row (b, g) into job_groups_cancelled and deletes nothing, hence grp_cancelled'(b,h) <=> grp_cancelled(b,h) or g in anc*(b,h):
     siblings and ancestors are unaffected.  cancel_batch: same with g = 0.
"""
from __future__ import annotations

import z3

from contracts import sqlspec as SP
from vc import core, sqlast as A, sqlvc
from vc.sqlvc import SV, intern, truthy


def _truth(sv):
    return truthy(sv)


def _python_side(ctx):
    """Python guards of cancellation: (a) _create_job_group consults the cancelled-ancestor relation of the PARENT for every group
    it creates and inserts only if no ancestor-or-self of the parent is cancelled; (b) cancel_job_group_in_db records every
    accepted cancellation through CALL cancel_job_group(batch, group) (whose SQL is verified above)."""
    import ast as pyast

    from vc import pyvc, sqlparse
    from vc.pyvc import Contract, Fork, SExc, to_z3

    FE, BATCH = 'batch/batch/front_end/front_end.py', 'batch/batch/batch.py'

    def conj(e, out):
        if isinstance(e, A.BinOp) and e.op == 'AND':
            conj(e.left, out)
            conj(e.right, out)
        else:
            out.append(e)
        return out

    def is_cancelled_ancestor_query(sql):
        """SELECT ... FROM job_group_self_and_ancestors INNER JOIN job_groups_cancelled ON same batch AND ancestor_id = cancelled group
        WHERE batch_id = %s AND job_group_id = %s   (the relation grp_cancelled of the specification, cf. is_job_group_cancelled)"""
        try:
            stn = sqlparse.parse_statements(sql)[0]
        except Exception:  # pylint: disable=broad-except
            return False
        if not isinstance(stn, A.SelectStmt):
            return False
        sel = stn.select
        txt = ' '.join(sql.split())
        tabs = sorted(SP._tables_of(sel.from_))
        eqs = set()
        for c in conj(sel.where, []):
            if isinstance(c, A.BinOp) and c.op == '=' and isinstance(c.left, A.Name) and isinstance(c.right, (A.Param, A.NamedParam)):
                eqs.add(c.left.parts[-1])
        return tabs == ['job_group_self_and_ancestors', 'job_groups_cancelled'] and 'LEFT JOIN' not in txt.upper() and eqs == {'batch_id', 'job_group_id'} and len(conj(sel.where, [])) == 2 \
            and 'job_group_self_and_ancestors.ancestor_id = job_groups_cancelled.job_group_id' in txt and 'job_group_self_and_ancestors.batch_id = job_groups_cancelled.id' in txt

    def fetchone(eng, st, args, kw, node):
        sql = node.args[0].value if isinstance(node.args[0], pyast.Constant) else ''
        if is_cancelled_ancestor_query(sql):
            ps = args[1]
            eng.oblige(st, 'the-cancelled-ancestor-query-is-asked-about-the-parent-group-of-this-batch', z3.And(z3.BoolVal(isinstance(ps, tuple) and len(ps) == 2), eng.equal(ps[0], st.env['batch_id']), eng.equal(ps[1], st.env['parent_job_group_id'])) if isinstance(ps, tuple) and len(ps) == 2 else z3.BoolVal(False))
            row = pyvc.SRecord('row', {'cancelled': 1})
            raise Fork(node, [('an-ancestor-or-the-parent-is-cancelled', None, 'value', row, lambda s: s.env.__setitem__('PARENT_CANCELLED', True)), ('nothing-above-is-cancelled', None, 'value', None, lambda s: s.env.__setitem__('CHECKED_CLEAR', True))])
        raise core.Undecided('unrecognised query in _create_job_group: %s' % ' '.join(sql.split())[:80])

    def insert(eng, st, args, kw, node):
        sql = node.args[0].value if isinstance(node.args[0], pyast.Constant) else ''
        if 'INSERT INTO job_groups ' in sql:
            st.env['n_group_rows'] = st.env['n_group_rows'] + 1
            eng.oblige(st, 'a-group-row-is-written-only-after-the-parent-was-found-not-cancelled', st.env['CHECKED_CLEAR'])
        return z3.Int(pyvc.fresh_name('rows'))

    nothing = lambda eng, st, args, kw, node: None  # noqa: E731
    c1 = Contract(
        path=FE, qualname='_create_job_group', types={'tx': 'U', 'batch_id': 'int', 'job_group_id': 'int', 'update_id': 'int', 'user': 'U', 'attributes': 'U', 'cancel_after_n_failures': 'U', 'callback': 'U', 'timestamp': 'int', 'parent_job_group_id': 'int'},
        consts={'ROOT_JOB_GROUP_ID': 0, 'MAX_JOB_GROUPS_DEPTH': z3.Int('MAX_JOB_GROUPS_DEPTH')}, opaque_methods=False,
        calls={'tx.execute_and_fetchone': fetchone, 'tx.execute_insertone': insert, 'tx.execute_update': lambda eng, st, args, kw, node: z3.Int(pyvc.fresh_name('n_rows')), 'tx.execute_many': nothing, 'json.dumps': lambda eng, st, args, kw, node: z3.Const('json', pyvc.U),
               '.items': lambda eng, st, args, kw, node: pyvc.SList(z3.IntVal(0), None, None)},
        ghost_init={'PARENT_CANCELLED': 'False', 'CHECKED_CLEAR': 'False', 'n_group_rows': '0'},
        ensures=[('a-group-is-created-only-beneath-a-parent-with-no-cancelled-ancestor-or-self', 'CHECKED_CLEAR and not PARENT_CANCELLED and n_group_rows == 1')],
        raises={'HTTPBadRequest': True, 'AssertionError': True, '*': True},  # 400 also for too deep a nesting
        on_raise=[('nothing-is-created-beneath-a-cancelled-group', 'implies(PARENT_CANCELLED, n_group_rows == 0)')],
        canaries=[('always-refused', 'n_group_rows == 0')],
    )
    try:
        eng = pyvc.Engine(ctx, c1)
        eng.run()
        ctx.add(core.decided('C07/_create_job_group/no-call-outside-the-contract', not [u for u in eng.unmodelled if not u.startswith('log.')], repr(eng.unmodelled), kind='frame'))
    except core.Undecided as e:
        # the tail of the function (ancestor rows, attributes) is bookkeeping; if it leaves the subset the guard itself is still decided on a prefix
        raise

    def fetch2(eng, st, args, kw, node):
        sql = ' '.join((node.args[0].value if isinstance(node.args[0], pyast.Constant) else '').split())
        ok = 'FROM job_groups' in sql and 'job_groups.batch_id = %s AND job_groups.job_group_id = %s' in sql
        ps = args[1]
        eng.oblige(st, 'existence-check-names-this-group', z3.And(z3.BoolVal(ok and isinstance(ps, tuple) and len(ps) >= 2), eng.equal(ps[0], st.env['batch_id']), eng.equal(ps[1], st.env['job_group_id'])) if ok and isinstance(ps, tuple) and len(ps) >= 2 else z3.BoolVal(False))
        row = z3.Const('the_group_row', pyvc.U)

        def found(s):
            s.env['EXISTS'] = True
            s.assume(eng.uf('truthy', ['U'], 'bool')(row))  # a fetched row is truthy

        raise Fork(node, [('group-exists', None, 'value', row, found), ('no-such-group', None, 'value', None, None)])

    def call(eng, st, args, kw, node):
        sql = ' '.join((node.args[0].value if isinstance(node.args[0], pyast.Constant) else '').split())
        ps = args[1]
        good = sql == 'CALL cancel_job_group(%s, %s);' and isinstance(ps, tuple) and len(ps) == 2
        eng.oblige(st, 'the-cancellation-procedure-is-called-for-this-batch-and-group', z3.And(z3.BoolVal(good), eng.equal(ps[0], st.env['batch_id']), eng.equal(ps[1], st.env['job_group_id'])) if good else z3.BoolVal(False))
        st.env['n_cancel_calls'] = st.env['n_cancel_calls'] + 1
        return None

    c2 = Contract(
        path=BATCH, qualname='cancel_job_group_in_db.cancel', types={'tx': 'U'}, extra_inputs={'batch_id': 'int', 'job_group_id': 'int'}, consts={'ROOT_JOB_GROUP_ID': 0},
        calls={'tx.execute_and_fetchone': fetch2, 'tx.just_execute': call}, ghost_init={'EXISTS': 'False', 'n_cancel_calls': '0'},
        ensures=[('an-accepted-cancellation-is-always-recorded-by-the-procedure', 'EXISTS and n_cancel_calls == 1')],
        raises={'NonExistentJobGroupError': 'not EXISTS'}, on_raise=[('a-refused-cancellation-writes-nothing', 'n_cancel_calls == 0')],
        canaries=[('never-cancels', 'n_cancel_calls == 0')],
    )
    eng = pyvc.Engine(ctx, c2)
    eng.run()
    ctx.add(core.decided('C07/cancel_job_group_in_db.cancel/no-call-outside-the-contract', not eng.unmodelled, repr(eng.unmodelled), kind='frame'))


def build(ctx):
    _python_side(ctx)
    ex = SP.proc_exec(inline_after=False)
    # ---- 1. the three SQL functions
    st = ex.new_state()
    db = st.db
    b, g, j = z3.Int('b'), z3.Int('g'), z3.Int('j')
    f = ex.routines['is_job_group_cancelled']
    ctx.under_contract(SP.rel(f.source_file), 'FUNCTION is_job_group_cancelled')
    r = ex.call_function(f, [SV(False, b), SV(False, g)], st)
    ctx.add(core.valid('is_job_group_cancelled/equals-spec', list(st.pc), z3.And(z3.Not(r.n), _truth(r) == SP.grp_cancelled(db, b, g))))
    ctx.add(core.satisfiable('is_job_group_cancelled/vacuity/can-be-true', list(st.pc) + [_truth(r)]))
    f = ex.routines['is_batch_cancelled']
    ctx.under_contract(SP.rel(f.source_file), 'FUNCTION is_batch_cancelled')
    r = ex.call_function(f, [SV(False, b)], st)
    ctx.add(core.valid('is_batch_cancelled/equals-spec', list(st.pc), z3.And(z3.Not(r.n), _truth(r) == db.tab('job_groups_cancelled').has([b, z3.IntVal(0)]))))
    f = ex.routines['is_job_cancelled']
    ctx.under_contract(SP.rel(f.source_file), 'FUNCTION is_job_cancelled')
    st2 = ex.new_state()
    st2.db = db
    r = ex.call_function(f, [SV(False, b), SV(False, j)], st2)
    jobs = db.tab('jobs')
    wf = [jobs.has([b, j])]  # always_run / cancelled / job_group_id are NOT NULL columns
    ctx.add(core.valid('is_job_cancelled/equals-spec', list(st2.pc) + wf, z3.And(z3.Not(r.n), _truth(r) == SP.job_cancelled(db, b, j))))
    ctx.add(core.satisfiable('is_job_cancelled/vacuity/can-be-true', list(st2.pc) + wf + [_truth(r)]))
    ctx.add(core.satisfiable('is_job_cancelled/canary/always-run-is-never-cancelled', list(st2.pc) + wf + [z3.Not(_truth(r)), SP.job_marked(db, b, j)], kind='canary'))

    # ---- 2. guards in the three placement procedures
    for name in ('schedule_job', 'mark_job_creating', 'mark_job_started'):
        rt = ex.routines[name]
        ctx.under_contract(SP.rel(rt.source_file), 'PROCEDURE ' + name)
        st0 = ex.new_state()
        for t in ('jobs', 'job_group_self_and_ancestors', 'job_groups_cancelled'):
            st0.db.tab(t)
        base = st0.db.fork()
        outs = ex.run_procedure(name, st0)
        moved = []
        for pi, s in enumerate(outs):
            bb, jj = s.vars['in_batch_id'], s.vars['in_job_id']
            ctx.add(core.decided('%s/path%d/answers-with-a-result-row' % (name, pi), s.outcome is None and len(s.results) >= 1, 'outcome=%r results=%d' % (s.outcome, len(s.results)), kind='scan'))
            for e in s.effects:
                if e.table == 'jobs' and e.kind in ('update', 'update-set') and 'state' in e.data.get('assigned', []):
                    if e.kind != 'update':
                        raise core.Undecided('%s: set-oriented UPDATE of jobs.state' % name)
                    ns = e.data['new']['state']
                    hyps = list(s.pc[: e.data['pc_len']]) + [z3.Not(bb.n), z3.Not(jj.n)]
                    to_run = SP.is_state(ns, 'Creating', 'Running')
                    ctx.add(core.valid('%s/path%d/moves-to-creating-or-running-only-if-not-cancelled' % (name, pi), hyps + [to_run], z3.Not(SP.job_cancelled(base, bb.v, jj.v))))
                    ctx.add(core.valid('%s/path%d/updates-the-addressed-job-only' % (name, pi), hyps, z3.And(e.data['key'][0] == bb.v, e.data['key'][1] == jj.v)))
                    moved.append(z3.And(*hyps, to_run))
        ctx.add(core.satisfiable('%s/vacuity/some-path-starts-the-job' % name, z3.Or(*moved) if moved else z3.BoolVal(False)))

    # ---- 3. jobs_before_insert
    trg = ex.triggers.get(('jobs', 'BEFORE', 'INSERT'))
    if trg is None:
        raise core.Undecided('anchor-moved: no BEFORE INSERT trigger on jobs')
    ctx.under_contract(SP.rel(trg.source_file), 'TRIGGER ' + trg.name)
    st3 = ex.new_state()
    new = ex.symbolic_row('jobs', 'NEW')
    outs = ex.run_trigger(trg.name, st3, None, new)
    for pi, s in enumerate(outs):
        signalled = s.outcome is not None and s.outcome[0] == 'signal'
        gc = SP.grp_cancelled(s.db, new['batch_id'].v, new['job_group_id'].v)
        ctx.add(core.valid('jobs_before_insert/path%d/%s' % (pi, 'signals-only-if-group-cancelled' if signalled else 'accepts-only-if-group-not-cancelled'), list(s.pc), gc if signalled else z3.Not(gc)))
    ctx.add(core.decided('jobs_before_insert/both-outcomes-exist', sorted(bool(s.outcome) for s in outs) == [False, True], '%d paths' % len(outs), kind='vacuity'))

    # ---- 4. cancel_job_group / cancel_batch
    for name, gexpr in (('cancel_job_group', None), ('cancel_batch', 0)):
        if name not in ex.routines:
            continue
        rt = ex.routines[name]
        ctx.under_contract(SP.rel(rt.source_file), 'PROCEDURE ' + name)
        st0 = ex.new_state()
        for t in ('job_group_self_and_ancestors', 'job_groups_cancelled'):
            st0.db.tab(t)
        base = st0.db.fork()
        outs = ex.run_procedure(name, st0)
        wrote = []
        for pi, s in enumerate(outs):
            bb = s.vars['in_batch_id']
            gg = s.vars['in_job_group_id'].v if gexpr is None else z3.IntVal(gexpr)
            pre = [z3.Not(bb.n)] + ([z3.Not(s.vars['in_job_group_id'].n)] if gexpr is None else [])
            # structural invariant A1 of job_group_self_and_ancestors (established by _create_job_group): every group is its
            # own ancestor, and the root group has no other ancestor
            jg0 = base.tab('job_group_self_and_ancestors')
            a_ = z3.Int('a_root')
            pre.append(jg0.has([bb.v, gg, gg]))
            pre.append(z3.ForAll([a_], z3.Implies(jg0.has([bb.v, z3.IntVal(0), a_]), a_ == 0)))
            writes = [e for e in s.effects if e.kind in ('insert', 'upsert', 'update', 'update-set', 'insert-select', 'delete', 'delete-set') and not e.data.get('rolled_back')]
            already = SP.grp_cancelled(base, bb.v, gg)
            hyps = list(s.pc) + pre
            if not sqlvc.feasible(hyps, 3000):
                continue
            if writes:
                ctx.add(core.valid('%s/path%d/writes-only-if-not-already-cancelled' % (name, pi), hyps, z3.Not(already)))
                wrote.append(z3.And(*hyps))
                canc_writes = [e for e in writes if e.table == 'job_groups_cancelled']
                ok_shape = len(canc_writes) == 1 and canc_writes[0].kind == 'insert'
                ctx.add(core.decided('%s/path%d/marks-exactly-one-group-and-deletes-no-mark' % (name, pi), ok_shape and not any(e.kind.startswith('delete') and e.table == 'job_groups_cancelled' for e in writes), repr([(e.kind, e.table) for e in writes]), kind='scan'))
                if ok_shape:
                    k = canc_writes[0].data['key']
                    ctx.add(core.valid('%s/path%d/marks-the-requested-group' % (name, pi), hyps, z3.And(k[0] == bb.v, k[1] == gg)))
                    h = z3.Int('h')
                    jgsa = base.tab('job_group_self_and_ancestors')
                    ctx.add(core.valid('%s/path%d/effect-confined-to-the-subtree' % (name, pi), hyps, SP.grp_cancelled(s.db, bb.v, h) == z3.Or(SP.grp_cancelled(base, bb.v, h), jgsa.has([bb.v, h, gg]))))
                    b2 = z3.Int('b_other')
                    ctx.add(core.valid('%s/path%d/other-batches-untouched' % (name, pi), hyps + [b2 != bb.v], SP.grp_cancelled(s.db, b2, h) == SP.grp_cancelled(base, b2, h)))
            else:
                ctx.add(core.valid('%s/path%d/no-write-path-changes-no-mark' % (name, pi), hyps, z3.BoolVal(True)))
            # repeating the cancellation changes nothing
            if writes:
                pass
        # idempotence: every path feasible under `already cancelled` has no writes
        for pi, s in enumerate(outs):
            bb = s.vars['in_batch_id']
            gg = s.vars['in_job_group_id'].v if gexpr is None else z3.IntVal(gexpr)
            writes = [e for e in s.effects if e.kind in ('insert', 'upsert', 'update', 'update-set', 'insert-select', 'delete', 'delete-set') and not e.data.get('rolled_back')]
            if writes:
                jg0 = base.tab('job_group_self_and_ancestors')
                a_ = z3.Int('a_root')
                pre2 = [z3.Not(bb.n), jg0.has([bb.v, gg, gg]), z3.ForAll([a_], z3.Implies(jg0.has([bb.v, z3.IntVal(0), a_]), a_ == 0))] + ([z3.Not(s.vars['in_job_group_id'].n)] if gexpr is None else [])
                ctx.add(core.valid('%s/path%d/idempotent-second-call-writes-nothing' % (name, pi), list(s.pc) + pre2 + [SP.grp_cancelled(base, bb.v, gg)], z3.BoolVal(False)))
        ctx.add(core.satisfiable('%s/vacuity/some-path-cancels' % name, z3.Or(*wrote) if wrote else z3.BoolVal(False)))

    from contracts import sqlspec as _SP
    _SP.engine_obligations(ctx, ex)
    ctx.assume('each procedure call is atomic (serialisable isolation); MySQL NULL/boolean semantics as encoded in vc/sqlvc.py')
    ctx.assume('structural invariant A1 used as precondition of cancel_*: (b,g,g) is in job_group_self_and_ancestors for every group and the root group 0 has no other ancestor (established where groups are created; see C08)')
    ctx.assume('jobs.always_run, jobs.cancelled, jobs.job_group_id are NOT NULL columns (schema replayed from the migrations)')
    ctx.undecided('Python side: commit_update / _create_batch_update rejecting a cancelled batch and the scheduler/canceller selection queries (cancel_job_group_in_db and _create_job_group ARE under contract)')
    ctx.undecided('in-flight scheduling decisions racing with a cancel at the Python level (the SQL guard serialises them)')
