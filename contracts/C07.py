"""C07 - cancellation stops work in the cancelled subtree only.

Claimed clauses (SQL side, real effective text via sqlvc):
  1. is_job_group_cancelled / is_job_cancelled / is_batch_cancelled compute exactly the spec predicates
       grp_cancelled(b,g) = exists a in anc*(b,g) with (b,a) cancelled;  cancelled(j) = not always_run and (flag or grp_cancelled).
  2. schedule_job, mark_job_creating, mark_job_started: on every path that moves a job to Creating or Running the job is
     not cancelled (spec predicate on the database at call time); and every path ends with a result row, never a SIGNAL
     ("answered normally" for jobs under any combination of cancelled groups).
  3. jobs_before_insert signals exactly when the new job's group is cancelled (no jobs can be added beneath it).
  4. cancel_job_group: called on an already cancelled group it writes nothing (idempotent); otherwise it inserts exactly the
     row (b, g) into job_groups_cancelled and deletes nothing, hence grp_cancelled'(b,h) <=> grp_cancelled(b,h) or g in anc*(b,h):
     siblings and ancestors are unaffected.  cancel_batch: same with g = 0.
Python side (pyvc on the real functions; every embedded statement is parsed and EVALUATED by sqlvc, not matched as text):
  5. front_end._create_job_group: a group is created only beneath a parent with no cancelled self-or-ancestor; its ancestor
     closure is exactly {own row at level 0} + {every self-and-ancestors row of the parent, one level up} (a closure that lacks an
     ancestor is not reached by cancelling that ancestor); 400 only for a cancelled parent or a group deeper than
     MAX_JOB_GROUPS_DEPTH, accepted only within the limit, and the depth rejection is reachable.
  6. front_end.commit_update and front_end._create_batch_update.update: every row of the gate query reports `cancelled` iff the
     ROOT group of this batch is in job_groups_cancelled; the commit procedure is called / the batch_updates row is written only
     if it is not; 400 'cancelled batch' only if it is (a cancelled sub-group never blocks its siblings).
  7. batch.cancel_job_group_in_db.cancel: an accepted cancellation is recorded by exactly one CALL cancel_job_group(batch, group).
Known finding (unchanged repository): is_job_cancelled returns a scalar subquery with one row per cancelled self-or-ancestor group
(LEFT JOIN LATERAL without LIMIT 1): two cancelled groups on a job's ancestor path make MySQL raise error 1242 in schedule_job /
mark_job_creating / mark_job_started - obligation is_job_cancelled/scalar-subquery-yields-at-most-one-row (known_findings.json).
"""
from __future__ import annotations

import z3

from contracts import sqlspec as SP
from vc import core, sqlast as A, sqlparse, sqlvc
from vc.sqlvc import SV, intern, truthy


def _truth(sv):
    return truthy(sv)



# ---------------------------------------------------------------------------------------------------------------------------
# SQL embedded in Python: the statement text is parsed and EVALUATED by sqlvc over the abstract database (no pattern on its
# text); `%s` placeholders are bound to the symbolic values the Python code passes.


def _sql_text(node):
    import ast as pyast

    a0 = node.args[0] if node.args else None
    if isinstance(a0, pyast.Constant) and isinstance(a0.value, str):
        return a0.value
    raise core.Undecided('embedded SQL is not a string literal')


def _to_sv(eng, v):
    """a pyvc value passed as a query argument -> nullable SQL scalar (opaque values, e.g. strings, through one uninterpreted code)"""
    from vc import pyvc

    if v is None or isinstance(v, (bool, int, str)):
        return sqlvc.lit(v)
    if isinstance(v, z3.ExprRef):
        if z3.is_int(v):
            return SV(False, v)
        if z3.is_bool(v):
            return SV(False, z3.If(v, z3.IntVal(1), z3.IntVal(0)))
        if v.sort() == pyvc.U:
            return SV(v == z3.Const('const_None', pyvc.U), eng.uf('sql_value_of', ['U'], 'int')(v))
    raise core.Undecided('query argument %r' % (v,))


def _bind_params(stn, sqst, params):
    n = len({x.index for x in stn.walk() if isinstance(x, A.Param)})
    if not isinstance(params, (tuple, list)) or n != len(params):
        raise core.Undecided('statement has %d placeholders, %s arguments are passed' % (n, len(params) if isinstance(params, (tuple, list)) else '?'))
    s = sqst.fork()
    for i, v in enumerate(params):
        s.uservars['%%param%d' % i] = v
    return s


def _select_rows(ex, sqst, sql, params):
    """result set of an embedded SELECT: -> (cond, keyvars, {column: SV}, side conditions).  Every assignment of the key variables
    that satisfies cond is one result row.  ORDER BY / LIMIT only choose among these rows: a fetchone() of the statement
    returns SOME row of the set (over-approximation, sound for what must hold of every row)."""
    stn = sqlparse.parse_statements(sql)[0]
    if not isinstance(stn, A.SelectStmt) or not isinstance(stn.select, A.Select) or stn.select.from_ is None:
        raise core.Undecided('not a plain SELECT: %s' % ' '.join(sql.split())[:80])
    sel = stn.select
    if ex.has_aggregate(sel) or sel.having is not None:
        raise core.Undecided('aggregate in an embedded gate query')
    s = _bind_params(stn, sqst, params)
    n0 = len(s.pc)
    aliases, cond, kv = ex.bind_from(sel.from_, sel.where, sqlvc.Scope(s), s)
    sc = sqlvc.Scope(s, aliases)
    cols = {}
    for i, c in enumerate(sel.columns):
        nm = c.alias or (c.expr.parts[-1] if isinstance(c.expr, A.Name) else 'col%d' % i)
        cols[nm] = ex.ev(c.expr, sc)
    return cond, kv, cols, list(s.pc[n0:])


def _fetch_row(eng, st, node, ex, sqst, params, tag, on_row=None):
    """model of `fetchone(<SELECT literal>, args)`: None when the result set is empty, else a record of SOME result row"""
    from vc import pyvc
    from vc.pyvc import Fork

    cond, kv, cols, side = _select_rows(ex, sqst, _sql_text(node), [_to_sv(eng, p) for p in params])
    row = pyvc.SRecord('row', {k: v.v for k, v in cols.items()})

    def found(s):
        s.assume(cond)
        for c in side:
            s.assume(c)
        if on_row is not None:
            on_row(s, cols)

    raise Fork(node, [(tag + '-row', None, 'value', row, found), (tag + '-no-row', None, 'value', None, None)])


class _RecordingEngine:
    """mixin: keeps the path condition of every exceptional exit (for reachability obligations on rejections)"""

    def at_raise(self, st, exc):
        self.__dict__.setdefault('raise_paths', []).append((list(st.pc), exc, dict(st.env)))
        return super().at_raise(st, exc)


def _python_side(ctx):
    """Python guards of cancellation: (a) _create_job_group consults the cancelled-ancestor relation of the PARENT for every group
    it creates and inserts only if no ancestor-or-self of the parent is cancelled; (b) cancel_job_group_in_db records every
    accepted cancellation through CALL cancel_job_group(batch, group) (whose SQL is verified above)."""
    import ast as pyast

    from vc import pyvc, sqlparse
    from vc.pyvc import Contract, Fork, SExc, to_z3

    FE, BATCH = 'batch/batch/front_end/front_end.py', 'batch/batch/batch.py'

    def conj(e, out):
        if isinstance(e, A.BinOp) and e.op == 'AND':
            conj(e.left, out)
            conj(e.right, out)
        else:
            out.append(e)
        return out

    def is_cancelled_ancestor_query(sql):
        """SELECT ... FROM job_group_self_and_ancestors INNER JOIN job_groups_cancelled ON same batch AND ancestor_id = cancelled group
        WHERE batch_id = %s AND job_group_id = %s   (the relation grp_cancelled of the specification, cf. is_job_group_cancelled)"""
        try:
            stn = sqlparse.parse_statements(sql)[0]
        except Exception:  # pylint: disable=broad-except
            return False
        if not isinstance(stn, A.SelectStmt):
            return False
        sel = stn.select
        txt = ' '.join(sql.split())
        tabs = sorted(SP._tables_of(sel.from_))
        eqs = set()
        for c in conj(sel.where, []):
            if isinstance(c, A.BinOp) and c.op == '=' and isinstance(c.left, A.Name) and isinstance(c.right, (A.Param, A.NamedParam)):
                eqs.add(c.left.parts[-1])
        return tabs == ['job_group_self_and_ancestors', 'job_groups_cancelled'] and 'LEFT JOIN' not in txt.upper() and eqs == {'batch_id', 'job_group_id'} and len(conj(sel.where, [])) == 2 \
            and 'job_group_self_and_ancestors.ancestor_id = job_groups_cancelled.job_group_id' in txt and 'job_group_self_and_ancestors.batch_id = job_groups_cancelled.id' in txt

    def fetchone(eng, st, args, kw, node):
        sql = node.args[0].value if isinstance(node.args[0], pyast.Constant) else ''
        if is_cancelled_ancestor_query(sql):
            ps = args[1]
            eng.ctx.add(core.decided('C07/_create_job_group/the-cancelled-ancestor-query-ranges-over-every-self-or-ancestor-of-the-parent', True, ' '.join(sql.split())[:200], kind='scan'))
            eng.oblige(st, 'the-cancelled-ancestor-query-is-asked-about-the-parent-group-of-this-batch', z3.And(z3.BoolVal(isinstance(ps, tuple) and len(ps) == 2), eng.equal(ps[0], st.env['batch_id']), eng.equal(ps[1], st.env['parent_job_group_id'])) if isinstance(ps, tuple) and len(ps) == 2 else z3.BoolVal(False))
            row = pyvc.SRecord('row', {'cancelled': 1})
            raise Fork(node, [('an-ancestor-or-the-parent-is-cancelled', None, 'value', row, lambda s: s.env.__setitem__('PARENT_CANCELLED', True)), ('nothing-above-is-cancelled', None, 'value', None, lambda s: s.env.__setitem__('CHECKED_CLEAR', True))])
        flat_ = ' '.join(sql.split())
        if 'job_groups_cancelled' in flat_ and 'job_group_self_and_ancestors' in flat_:
            # it is the cancelled-ancestor lookup, but not the relation grp_cancelled(batch, parent): every self-or-ancestor row of
            # the parent joined with the cancelled groups, restricted by nothing but (batch, parent) - a further conjunct (an ancestor
            # left out, a level bound) lets a group be created beneath a cancelled ancestor
            eng.ctx.add(core.decided('C07/_create_job_group/the-cancelled-ancestor-query-ranges-over-every-self-or-ancestor-of-the-parent', False, flat_[:400], kind='scan'))
        raise core.Undecided('unrecognised query in _create_job_group: %s' % flat_[:80])

    # ---- wave 4: the ancestor closure written by _create_job_group, evaluated by sqlvc on the real statement text
    ex = SP.proc_exec(inline_after=False)
    sq = ex.new_state()
    jgsa = sq.db.tab('job_group_self_and_ancestors')
    n_anc = z3.Function('n_self_and_ancestors_rows', z3.IntSort(), z3.IntSort(), z3.IntSort())  # ghost: |{a : (b, g, a) in jgsa}|

    def ids(st):
        return [pyvc.to_z3(st.env[k], 'int') for k in ('batch_id', 'job_group_id', 'parent_job_group_id')]

    def insert(eng, st, args, kw, node):
        sql = node.args[0].value if isinstance(node.args[0], pyast.Constant) else ''
        if 'INSERT INTO job_groups ' in sql:
            st.env['n_group_rows'] = st.env['n_group_rows'] + 1
            eng.oblige(st, 'a-group-row-is-written-only-after-the-parent-was-found-not-cancelled', st.env['CHECKED_CLEAR'])
        try:
            stn = sqlparse.parse_statements(sql)[0]
        except Exception as e:  # pylint: disable=broad-except
            raise core.Undecided('unparsed write in _create_job_group: %s' % e)
        if isinstance(stn, A.Insert) and stn.table == 'job_group_self_and_ancestors':
            if not isinstance(stn.source, list) or len(stn.source) != 1 or not isinstance(args[1], tuple):
                raise core.Undecided('self-row insert of _create_job_group is not INSERT .. VALUES (one row)')
            s2 = _bind_params(stn, sq, [_to_sv(eng, p_) for p_ in args[1]])
            given = dict(zip(list(stn.columns) if stn.columns else list(jgsa.cols), [ex.ev(e, sqlvc.Scope(s2)) for e in stn.source[0]]))
            b, g, _p = ids(st)
            eng.oblige(st, 'the-single-row-insert-is-the-groups-own-row-at-level-0', z3.And(*[z3.Not(given[c].n) for c in ('batch_id', 'job_group_id', 'ancestor_id', 'level')], given['batch_id'].v == b, given['job_group_id'].v == g, given['ancestor_id'].v == g, given['level'].v == 0) if all(c in given for c in ('batch_id', 'job_group_id', 'ancestor_id', 'level')) else z3.BoolVal(False))
            st.env['n_self_rows'] = st.env['n_self_rows'] + 1
        return z3.Int(pyvc.fresh_name('rows'))

    def closure_insert(eng, st, args, kw, node):
        """INSERT INTO job_group_self_and_ancestors ... SELECT ... : the rows it writes for the new group g must be exactly
        {(b, g, a, level(b, parent, a) + 1) : (b, parent, a) is a self-and-ancestors row of the parent} - ALL of them (a missing
        ancestor row means cancelling that ancestor does not reach g) and nothing else.  Its row count is then the number of
        self-and-ancestors rows of the parent, which is what the nesting-depth rejection compares with the limit."""
        sql = node.args[0].value if isinstance(node.args[0], pyast.Constant) else ''
        stn = sqlparse.parse_statements(sql)[0]
        if not (isinstance(stn, A.Insert) and stn.table == 'job_group_self_and_ancestors' and not isinstance(stn.source, list)) or not isinstance(args[1], tuple):
            raise core.Undecided('unrecognised set-oriented write in _create_job_group: %s' % ' '.join(sql.split())[:80])
        sel = stn.source.select if isinstance(stn.source, A.SelectStmt) else stn.source
        s2 = _bind_params(stn, sq, [_to_sv(eng, p_) for p_ in args[1]])
        n0 = len(s2.pc)
        info = ex.analyze_upsert(stn, stn.table, list(stn.columns) if stn.columns else list(jgsa.cols), sel, s2)
        if info['increments'] or info.get('aggregates') or len(s2.pc) != n0:
            raise core.Undecided('ancestor-closure insert with ON DUPLICATE KEY / aggregates / sub-queries')
        kv, cond, key, vals = info['kvars'], info['cond'], info['key'], info['values']
        b, g, p = ids(st)
        tk = [key[c] for c in ('batch_id', 'job_group_id', 'ancestor_id')]
        notnull = z3.And(*[z3.Not(x.n) for x in tk], z3.Not(vals['level'].n))
        # (i) every self-and-ancestors row of the parent is copied, one level further away
        a = z3.Int(pyvc.fresh_name('any_ancestor'))
        row_a = z3.And(cond, notnull, tk[0].v == b, tk[1].v == g, tk[2].v == a, vals['level'].v == jgsa.get([b, p, a], 'level').v + 1)
        if len(kv) == 1 and z3.is_int(kv[0]):
            copied = z3.substitute(row_a, (kv[0], a))  # the source row is the one keyed by this ancestor
        else:
            copied = z3.Exists(kv, row_a) if kv else row_a
        st2 = st.fork()
        st2.assume(jgsa.has([b, p, a]))
        eng.oblige(st2, 'the-new-group-inherits-every-self-and-ancestors-row-of-its-parent-one-level-up', copied)
        # (ii) nothing else is written: every written row belongs to the new group and copies a row of the parent
        st3 = st.fork()
        st3.assume(cond)
        eng.oblige(st3, 'the-closure-insert-writes-only-ancestor-rows-of-the-parent-for-the-new-group', z3.And(notnull, tk[0].v == b, tk[1].v == g, jgsa.has([b, p, tk[2].v]), vals['level'].v == jgsa.get([b, p, tk[2].v], 'level').v + 1))
        # (iii) distinct source rows are distinct target rows (so the row count is the number of source rows)
        if kv:
            kv2 = [z3.Const(pyvc.fresh_name('other_' + str(k)), k.sort()) for k in kv]
            sub = list(zip(kv, kv2))
            st4 = st.fork()
            st4.assume(cond)
            st4.assume(z3.substitute(cond, *sub))
            st4.assume(z3.And(*[x.v == z3.substitute(x.v, *sub) for x in tk]))
            eng.oblige(st4, 'the-closure-insert-writes-one-row-per-ancestor-row', z3.And(*[k == k2 for k, k2 in sub]))
        st.env['n_closure'] = st.env['n_closure'] + 1
        # by (i)-(iii) the driver's row count is the number of self-and-ancestors rows of the parent
        return n_anc(b, p)

    def setup(eng, st):
        # structural invariant A2 of job_group_self_and_ancestors for the (existing) parent: the root group is an ancestor of every
        # group and the levels of a group's rows are 0..depth, one row each - the number of rows is the level of the root row + 1.
        # _create_job_group preserves it for the group it creates (obligations (i)-(iii) and the own row at level 0).
        b, _g, p = ids(st)
        depth = jgsa.get([b, p, z3.IntVal(0)], 'level').v
        st.env['PARENT_DEPTH'] = depth
        st.assume(z3.And(depth >= 0, n_anc(b, p) == depth + 1))

    nothing = lambda eng, st, args, kw, node: None  # noqa: E731
    c1 = Contract(
        path=FE, qualname='_create_job_group', types={'tx': 'U', 'batch_id': 'int', 'job_group_id': 'int', 'update_id': 'int', 'user': 'U', 'attributes': 'U', 'cancel_after_n_failures': 'U', 'callback': 'U', 'timestamp': 'int', 'parent_job_group_id': 'int'},
        consts={'ROOT_JOB_GROUP_ID': 0, 'MAX_JOB_GROUPS_DEPTH': z3.Int('MAX_JOB_GROUPS_DEPTH')}, opaque_methods=False,
        calls={'tx.execute_and_fetchone': fetchone, 'tx.execute_insertone': insert, 'tx.execute_update': closure_insert, 'tx.execute_many': nothing, 'json.dumps': lambda eng, st, args, kw, node: z3.Const('json', pyvc.U),
               '.items': lambda eng, st, args, kw, node: pyvc.SList(z3.IntVal(0), None, None)},
        ghost_init={'PARENT_CANCELLED': 'False', 'CHECKED_CLEAR': 'False', 'n_group_rows': '0', 'n_self_rows': '0', 'n_closure': '0'}, setup=setup,
        ensures=[('a-group-is-created-only-beneath-a-parent-with-no-cancelled-ancestor-or-self', 'CHECKED_CLEAR and not PARENT_CANCELLED and n_group_rows == 1'),
                 ('the-group-gets-its-own-row-once-and-a-sub-group-the-closure-of-its-parent-once', 'n_self_rows == 1 and n_closure == (0 if job_group_id == ROOT_JOB_GROUP_ID else 1)'),
                 ('a-sub-group-is-accepted-only-within-the-nesting-limit', 'job_group_id == ROOT_JOB_GROUP_ID or PARENT_DEPTH + 1 <= MAX_JOB_GROUPS_DEPTH')],
        # 400 only for a cancelled parent or for a group nested deeper than the limit (depth of the new group = depth of its parent + 1)
        raises={'HTTPBadRequest': 'PARENT_CANCELLED or (n_closure == 1 and PARENT_DEPTH + 1 > MAX_JOB_GROUPS_DEPTH)', 'AssertionError': True, '*': True},
        on_raise=[('nothing-is-created-beneath-a-cancelled-group', 'implies(PARENT_CANCELLED, n_group_rows == 0)')],
        canaries=[('always-refused', 'n_group_rows == 0')],
    )
    class Eng(_RecordingEngine, pyvc.Engine):
        pass

    try:
        eng = Eng(ctx, c1)
        eng.run()
        too_deep = [z3.And(*pc) for pc, exc, env in eng.raise_paths if exc.cls == 'HTTPBadRequest' and env.get('PARENT_CANCELLED') is not True]
        ctx.add(core.satisfiable('C07/_create_job_group/vacuity/the-nesting-depth-rejection-is-reachable', z3.Or(*too_deep) if too_deep else z3.BoolVal(False)))
        ctx.add(core.decided('C07/_create_job_group/no-call-outside-the-contract', not [u for u in eng.unmodelled if not u.startswith('log.')], repr(eng.unmodelled), kind='frame'))
    except core.Undecided as e:
        # the tail of the function (ancestor rows, attributes) is bookkeeping; if it leaves the subset the guard itself is still decided on a prefix
        raise

    def _walk_sql(e):
        """all sub-expressions of a parsed SQL expression (dataclass fields)"""
        import dataclasses
        out, stack = [], [e]
        while stack:
            x = stack.pop()
            out.append(x)
            if dataclasses.is_dataclass(x):
                for f in dataclasses.fields(x):
                    v = getattr(x, f.name)
                    if isinstance(v, (list, tuple)):
                        stack.extend(y for y in v if dataclasses.is_dataclass(y))
                    elif dataclasses.is_dataclass(v):
                        stack.append(v)
        return out

    def fetch2(eng, st, args, kw, node):
        sql = ' '.join((node.args[0].value if isinstance(node.args[0], pyast.Constant) else '').split())
        ok = 'FROM job_groups' in sql and 'job_groups.batch_id = %s AND job_groups.job_group_id = %s' in sql
        ps = args[1]
        eng.oblige(st, 'existence-check-names-this-group', z3.And(z3.BoolVal(ok and isinstance(ps, tuple) and len(ps) >= 2), eng.equal(ps[0], st.env['batch_id']), eng.equal(ps[1], st.env['job_group_id'])) if ok and isinstance(ps, tuple) and len(ps) >= 2 else z3.BoolVal(False))
        # a group created by an update that is not committed yet cannot be cancelled (the procedure moves only the counters of
        # committed updates; cancelling earlier would leave staged Ready jobs counted after the commit): the existence check
        # admits the group only if its own update is committed, or it is the root group (created with the batch)
        committed_gate = False
        try:
            stn = sqlparse.parse_statements(node.args[0].value)[0]
            cj = conj(stn.select.where, [])
            flat = ' '.join(node.args[0].value.split())
            joined = 'batch_updates ON job_groups.batch_id = batch_updates.batch_id AND job_groups.update_id = batch_updates.update_id' in flat
            n_params_before = 0
            for c in cj:
                if isinstance(c, A.BinOp) and c.op == 'OR':
                    l, r = c.left, c.right
                    names = {'.'.join(x.parts) for x in (l, r) if isinstance(x, A.Name)}
                    eqs = [x for x in (l, r) if isinstance(x, A.BinOp) and x.op == '=' and isinstance(x.left, A.Name) and '.'.join(x.left.parts) == 'job_groups.job_group_id' and isinstance(x.right, A.Param)]
                    if names == {'batch_updates.committed'} and len(eqs) == 1 and isinstance(ps, tuple) and len(ps) == n_params_before + 1 and ps[n_params_before] == 0:
                        committed_gate = joined
                n_params_before += sum(1 for x in _walk_sql(c) if isinstance(x, A.Param))
        except Exception:  # pylint: disable=broad-except
            committed_gate = False
        eng.ctx.add(core.decided('C07/cancel_job_group_in_db.cancel/only-the-root-group-or-a-group-of-a-committed-update-is-accepted', committed_gate, ' '.join(node.args[0].value.split())[:300], kind='scan'))
        row = z3.Const('the_group_row', pyvc.U)

        def found(s):
            s.env['EXISTS'] = True
            s.assume(eng.uf('truthy', ['U'], 'bool')(row))  # a fetched row is truthy

        raise Fork(node, [('group-exists', None, 'value', row, found), ('no-such-group', None, 'value', None, None)])

    def call(eng, st, args, kw, node):
        sql = ' '.join((node.args[0].value if isinstance(node.args[0], pyast.Constant) else '').split())
        ps = args[1]
        good = sql == 'CALL cancel_job_group(%s, %s);' and isinstance(ps, tuple) and len(ps) == 2
        eng.oblige(st, 'the-cancellation-procedure-is-called-for-this-batch-and-group', z3.And(z3.BoolVal(good), eng.equal(ps[0], st.env['batch_id']), eng.equal(ps[1], st.env['job_group_id'])) if good else z3.BoolVal(False))
        st.env['n_cancel_calls'] = st.env['n_cancel_calls'] + 1
        return None

    c2 = Contract(
        path=BATCH, qualname='cancel_job_group_in_db.cancel', types={'tx': 'U'}, extra_inputs={'batch_id': 'int', 'job_group_id': 'int'}, consts={'ROOT_JOB_GROUP_ID': 0},
        calls={'tx.execute_and_fetchone': fetch2, 'tx.just_execute': call}, ghost_init={'EXISTS': 'False', 'n_cancel_calls': '0'},
        ensures=[('an-accepted-cancellation-is-always-recorded-by-the-procedure', 'EXISTS and n_cancel_calls == 1')],
        raises={'NonExistentJobGroupError': 'not EXISTS'}, on_raise=[('a-refused-cancellation-writes-nothing', 'n_cancel_calls == 0')],
        canaries=[('never-cancels', 'n_cancel_calls == 0')],
    )
    eng = pyvc.Engine(ctx, c2)
    eng.run()
    ctx.add(core.decided('C07/cancel_job_group_in_db.cancel/no-call-outside-the-contract', not eng.unmodelled, repr(eng.unmodelled), kind='frame'))


def _python_gates(ctx):
    """The two Python gates that keep work out of a cancelled BATCH (wave 4): `commit_update` (slow-path commit) and
    `_create_batch_update.update` (opening an update; also the head of the fast path).  Both read the cancellation state with a
    hand-written query; the query is evaluated by sqlvc over the abstract database, so the clause is semantic:
      * the request is refused as 'cancelled' only if the ROOT group of THIS batch is marked in job_groups_cancelled - a cancelled
        sub-group (sibling subtree) never blocks the batch, and
      * the commit procedure is called / the batch_updates row is written only if the root group of this batch is NOT marked."""
    from vc import pyvc
    from vc.pyvc import Contract, Fork

    FE = 'batch/batch/front_end/front_end.py'
    ex = SP.proc_exec(inline_after=False)
    opaque = lambda name: (lambda eng, st, args, kw, node: z3.Const(pyvc.fresh_name(name), pyvc.U))  # noqa: E731

    class Eng(_RecordingEngine, pyvc.Engine):
        pass

    def root_marked(sqst, batch):
        return sqst.db.tab('job_groups_cancelled').has([pyvc.to_z3(batch, 'int'), z3.IntVal(0)])

    def gate_row(eng, sqst):
        def on_row(s, cols):
            if 'cancelled' not in cols:
                raise core.Undecided('%s: the gate query selects no `cancelled` column' % eng.label)
            c = cols['cancelled']
            marked = root_marked(sqst, s.env['batch_id'])
            s.env['GATE_ROWS'] = s.env['GATE_ROWS'] + 1
            # stated for EVERY row the query can return (fetchone takes an arbitrary one when there are several)
            eng.oblige(s, 'every-row-of-the-gate-query-reports-cancelled-iff-the-root-group-of-this-batch-is-marked', z3.And(z3.Not(c.n), truthy(c) == marked))

        return on_row

    # ---- commit_update ---------------------------------------------------------------------------------------------------
    sq1 = ex.new_state()
    for t in ('batches', 'batch_updates', 'job_groups_cancelled'):
        sq1.db.tab(t)

    def select_and_fetchone(eng, st, args, kw, node):
        if 'batch_id' not in st.env or not isinstance(args[1], tuple):
            raise core.Undecided('commit_update: gate query before batch_id is known / arguments not a tuple')
        st.env['ROOT_CANCELLED'] = root_marked(sq1, st.env['batch_id'])
        _fetch_row(eng, st, node, ex, sq1, args[1], 'gate', gate_row(eng, sq1))

    def commit(eng, st, args, kw, node):
        if len(args) < 2:
            raise core.Undecided('_commit_update call shape')
        eng.oblige(st, 'the-commit-is-for-the-batch-of-this-request', eng.equal(args[1], st.env['batch_id']))
        eng.oblige(st, 'an-update-is-committed-only-if-the-root-group-of-its-batch-is-not-cancelled', z3.And(z3.BoolVal(st.env['GATE_ROWS'] >= 1), z3.Not(root_marked(sq1, args[1]))))
        st.env['n_commits'] = st.env['n_commits'] + 1
        e = z3.Const(pyvc.fresh_name('commit_exc'), pyvc.U)
        raise Fork(node, [('committed', None, 'value', None, None), ('commit-procedure-refuses', None, 'raise', pyvc.SExc(term=e), None)])

    c_commit = Contract(
        path=FE, qualname='commit_update', types={'request': 'U', 'userdata': 'U', '.app': 'U', '.match_info': 'U', '[db]': 'U', '[username]': 'U', '[batch_id]': 'U', '[update_id]': 'U'},
        consts={'ROOT_JOB_GROUP_ID': 0},
        calls={'db.select_and_fetchone': select_and_fetchone, '_commit_update': commit, 'json_response': opaque('response'), 'int': lambda eng, st, args, kw, node: eng.uf('int_of', ['U'], 'int')(pyvc.to_z3(args[0], 'U'))},
        ghost_init={'n_commits': '0', 'GATE_ROWS': '0', 'ROOT_CANCELLED': 'False'},
        ensures=[('a-commit-answered-normally-has-called-the-procedure-once-for-a-batch-that-is-not-cancelled', 'n_commits == 1 and not ROOT_CANCELLED')],
        # 400 'cancelled batch' only for a cancelled ROOT group: a cancelled sibling / sub-group must not block the commit
        raises={'HTTPNotFound': 'n_commits == 0', 'HTTPBadRequest': 'n_commits == 0 and ROOT_CANCELLED', '*': 'n_commits == 1'},
        canaries=[('never-commits', 'n_commits == 0')],
    )
    e1 = Eng(ctx, c_commit)
    e1.run()
    ctx.add(core.decided('C07/commit_update/no-call-outside-the-contract', not [u for u in e1.unmodelled if not u.startswith('log.')], repr(e1.unmodelled), kind='frame'))
    refused = [z3.And(*pc) for pc, exc, env in e1.raise_paths if exc.cls == 'HTTPBadRequest']
    ctx.add(core.satisfiable('C07/commit_update/vacuity/a-cancelled-batch-is-refused', z3.Or(*refused) if refused else z3.BoolVal(False)))

    # ---- _create_batch_update.update ---------------------------------------------------------------------------------------
    sq2 = ex.new_state()
    for t in ('batches', 'batch_updates', 'job_groups_cancelled'):
        sq2.db.tab(t)

    def fetchone(eng, st, args, kw, node):
        sql = ' '.join(_sql_text(node).split())
        if not isinstance(args[1], tuple):
            raise core.Undecided('_create_batch_update: query arguments are not a tuple')
        stn = sqlparse.parse_statements(sql)[0]
        names = [c.alias or (c.expr.parts[-1] if isinstance(c.expr, A.Name) else '?') for c in stn.select.columns] if isinstance(stn, A.SelectStmt) and isinstance(stn.select, A.Select) else []
        if 'cancelled' in names:
            _fetch_row(eng, st, node, ex, sq2, args[1], 'gate', gate_row(eng, sq2))
        # the token look-up and the last-update look-up (contracts of C09): any row of their result sets
        _fetch_row(eng, st, node, ex, sq2, args[1], 'lookup')

    def insertone(eng, st, args, kw, node):
        stn = sqlparse.parse_statements(_sql_text(node))[0]
        if not isinstance(stn, A.Insert) or not isinstance(stn.source, list) or len(stn.source) != 1 or not isinstance(args[1], tuple):
            raise core.Undecided('unexpected write in _create_batch_update')
        s = _bind_params(stn, sq2, [_to_sv(eng, p) for p in args[1]])
        tab = s.db.tab(stn.table)
        given = dict(zip(list(stn.columns) if stn.columns else list(tab.cols), [ex.ev(e, sqlvc.Scope(s)) for e in stn.source[0]]))
        if stn.table == 'batch_updates':
            if 'batch_id' not in given:
                raise core.Undecided('INSERT INTO batch_updates without batch_id')
            eng.oblige(st, 'an-update-is-opened-only-if-the-root-group-of-its-batch-is-not-cancelled', z3.And(z3.BoolVal(st.env['GATE_ROWS'] >= 1), z3.Not(given['batch_id'].n), z3.Not(root_marked(sq2, given['batch_id'].v))))
            eng.oblige(st, 'the-update-is-opened-in-the-batch-of-this-request', z3.And(z3.Not(given['batch_id'].n), given['batch_id'].v == pyvc.to_z3(st.env['batch_id'], 'int')))
            st.env['n_updates'] = st.env['n_updates'] + 1
        else:
            raise core.Undecided('_create_batch_update writes %s' % stn.table)
        return z3.Int(pyvc.fresh_name('rowid'))

    c_open = Contract(
        path=FE, qualname='_create_batch_update.update', label='_create_batch_update.update[cancelled-batch-gate]', types={'tx': 'U'},
        extra_inputs={'batch_id': 'int', 'update_token': 'U', 'n_jobs': 'int', 'n_job_groups': 'int', 'user': 'U'}, consts={'ROOT_JOB_GROUP_ID': 0},
        calls={'tx.execute_and_fetchone': fetchone, 'tx.execute_insertone': insertone, 'time_msecs': lambda eng, st, args, kw, node: z3.Int(pyvc.fresh_name('now')), 'int': lambda eng, st, args, kw, node: pyvc.to_z3(args[0], 'int')},
        setup=lambda eng, st: st.env.__setitem__('ROOT_CANCELLED', root_marked(sq2, st.env['batch_id'])),
        ghost_init={'n_updates': '0', 'GATE_ROWS': '0'},
        ensures=[('no-update-is-opened-in-a-cancelled-batch', 'implies(n_updates > 0, not ROOT_CANCELLED)')],
        raises={'HTTPNotFound': 'n_updates == 0', 'HTTPBadRequest': 'n_updates == 0 and ROOT_CANCELLED', 'AssertionError': 'n_updates == 0'},
        canaries=[('never-opens-an-update', 'n_updates == 0')],
    )
    e2 = Eng(ctx, c_open)
    e2.run()
    ctx.add(core.decided('C07/_create_batch_update.update/no-call-outside-the-contract', not [u for u in e2.unmodelled if not u.startswith('log.')], repr(e2.unmodelled), kind='frame'))
    refused = [z3.And(*pc) for pc, exc, env in e2.raise_paths if exc.cls == 'HTTPBadRequest']
    ctx.add(core.satisfiable('C07/_create_batch_update.update/vacuity/a-cancelled-batch-is-refused', z3.Or(*refused) if refused else z3.BoolVal(False)))
    ctx.assume('commit_update reads the cancellation state outside the transaction of commit_batch_update: the gate is stated for the database at the time of the read (a cancel racing with the commit is serialised by the SQL side only)')


def jobs_has(db, b, j):
    return db.tab('jobs').has([b, j])


def build(ctx):
    _python_side(ctx)
    _python_gates(ctx)
    ex = SP.proc_exec(inline_after=False)
    # ---- 1. the three SQL functions
    st = ex.new_state()
    db = st.db
    b, g, j = z3.Int('b'), z3.Int('g'), z3.Int('j')
    f = ex.routines['is_job_group_cancelled']
    ctx.under_contract(SP.rel(f.source_file), 'FUNCTION is_job_group_cancelled')
    r = ex.call_function(f, [SV(False, b), SV(False, g)], st)
    ctx.add(core.valid('is_job_group_cancelled/equals-spec', list(st.pc), z3.And(z3.Not(r.n), _truth(r) == SP.grp_cancelled(db, b, g))))
    ctx.add(core.satisfiable('is_job_group_cancelled/vacuity/can-be-true', list(st.pc) + [_truth(r)]))
    f = ex.routines['is_batch_cancelled']
    ctx.under_contract(SP.rel(f.source_file), 'FUNCTION is_batch_cancelled')
    r = ex.call_function(f, [SV(False, b)], st)
    ctx.add(core.valid('is_batch_cancelled/equals-spec', list(st.pc), z3.And(z3.Not(r.n), _truth(r) == db.tab('job_groups_cancelled').has([b, z3.IntVal(0)]))))
    f = ex.routines['is_job_cancelled']
    ctx.under_contract(SP.rel(f.source_file), 'FUNCTION is_job_cancelled')
    st2 = ex.new_state()
    st2.db = db
    n_sq = len(ex.scalar_subquery_rows)
    r = ex.call_function(f, [SV(False, b), SV(False, j)], st2)
    # "answered normally for jobs under ANY combination of cancelled groups": MySQL answers a scalar subquery only if it yields at
    # most one row (error 1242 otherwise, which aborts schedule_job / mark_job_creating / mark_job_started).  sqlvc keeps the
    # value of such a subquery as "some row" and records the row set; uniqueness of the row is this obligation.
    for rec in ex.scalar_subquery_rows[n_sq:]:
        kv = rec['kvars']
        kv2 = [z3.Const(sqlvc.fresh('other_row'), k.sort()) for k in kv]
        sub = list(zip(kv, kv2))
        ctx.add(core.valid('is_job_cancelled/scalar-subquery-yields-at-most-one-row/%s@L%s' % (rec['what'].replace(' ', '-'), rec['line']), list(rec['pc']) + [jobs_has(db, b, j), rec['cond'], z3.substitute(rec['cond'], *sub)], z3.And(*[k == k2 for k, k2 in sub]), what=rec['what']))
    jobs = db.tab('jobs')
    wf = [jobs.has([b, j])]  # always_run / cancelled / job_group_id are NOT NULL columns
    ctx.add(core.valid('is_job_cancelled/equals-spec', list(st2.pc) + wf, z3.And(z3.Not(r.n), _truth(r) == SP.job_cancelled(db, b, j))))
    ctx.add(core.satisfiable('is_job_cancelled/vacuity/can-be-true', list(st2.pc) + wf + [_truth(r)]))
    ctx.add(core.satisfiable('is_job_cancelled/canary/always-run-is-never-cancelled', list(st2.pc) + wf + [z3.Not(_truth(r)), SP.job_marked(db, b, j)], kind='canary'))

    # ---- 2. guards in the three placement procedures
    for name in ('schedule_job', 'mark_job_creating', 'mark_job_started'):
        rt = ex.routines[name]
        ctx.under_contract(SP.rel(rt.source_file), 'PROCEDURE ' + name)
        st0 = ex.new_state()
        for t in ('jobs', 'job_group_self_and_ancestors', 'job_groups_cancelled'):
            st0.db.tab(t)
        base = st0.db.fork()
        outs = ex.run_procedure(name, st0)
        moved = []
        for pi, s in enumerate(outs):
            bb, jj = s.vars['in_batch_id'], s.vars['in_job_id']
            ctx.add(core.decided('%s/path%d/answers-with-a-result-row' % (name, pi), s.outcome is None and len(s.results) >= 1, 'outcome=%r results=%d' % (s.outcome, len(s.results)), kind='scan'))
            for e in s.effects:
                if e.table == 'jobs' and e.kind in ('update', 'update-set') and 'state' in e.data.get('assigned', []):
                    if e.kind != 'update':
                        raise core.Undecided('%s: set-oriented UPDATE of jobs.state' % name)
                    ns = e.data['new']['state']
                    hyps = list(s.pc[: e.data['pc_len']]) + [z3.Not(bb.n), z3.Not(jj.n)]
                    to_run = SP.is_state(ns, 'Creating', 'Running')
                    ctx.add(core.valid('%s/path%d/moves-to-creating-or-running-only-if-not-cancelled' % (name, pi), hyps + [to_run], z3.Not(SP.job_cancelled(base, bb.v, jj.v))))
                    ctx.add(core.valid('%s/path%d/updates-the-addressed-job-only' % (name, pi), hyps, z3.And(e.data['key'][0] == bb.v, e.data['key'][1] == jj.v)))
                    moved.append(z3.And(*hyps, to_run))
        ctx.add(core.satisfiable('%s/vacuity/some-path-starts-the-job' % name, z3.Or(*moved) if moved else z3.BoolVal(False)))

    # ---- 3. jobs_before_insert
    trg = ex.triggers.get(('jobs', 'BEFORE', 'INSERT'))
    if trg is None:
        raise core.Undecided('anchor-moved: no BEFORE INSERT trigger on jobs')
    ctx.under_contract(SP.rel(trg.source_file), 'TRIGGER ' + trg.name)
    st3 = ex.new_state()
    new = ex.symbolic_row('jobs', 'NEW')
    outs = ex.run_trigger(trg.name, st3, None, new)
    for pi, s in enumerate(outs):
        signalled = s.outcome is not None and s.outcome[0] == 'signal'
        gc = SP.grp_cancelled(s.db, new['batch_id'].v, new['job_group_id'].v)
        ctx.add(core.valid('jobs_before_insert/path%d/%s' % (pi, 'signals-only-if-group-cancelled' if signalled else 'accepts-only-if-group-not-cancelled'), list(s.pc), gc if signalled else z3.Not(gc)))
    ctx.add(core.decided('jobs_before_insert/both-outcomes-exist', sorted(bool(s.outcome) for s in outs) == [False, True], '%d paths' % len(outs), kind='vacuity'))

    # ---- 4. cancel_job_group / cancel_batch
    for name, gexpr in (('cancel_job_group', None), ('cancel_batch', 0)):
        if name not in ex.routines:
            continue
        rt = ex.routines[name]
        ctx.under_contract(SP.rel(rt.source_file), 'PROCEDURE ' + name)
        st0 = ex.new_state()
        for t in ('job_group_self_and_ancestors', 'job_groups_cancelled'):
            st0.db.tab(t)
        base = st0.db.fork()
        outs = ex.run_procedure(name, st0)
        wrote = []
        for pi, s in enumerate(outs):
            bb = s.vars['in_batch_id']
            gg = s.vars['in_job_group_id'].v if gexpr is None else z3.IntVal(gexpr)
            pre = [z3.Not(bb.n)] + ([z3.Not(s.vars['in_job_group_id'].n)] if gexpr is None else [])
            # structural invariant A1 of job_group_self_and_ancestors (established by _create_job_group): every group is its
            # own ancestor, and the root group has no other ancestor
            jg0 = base.tab('job_group_self_and_ancestors')
            a_ = z3.Int('a_root')
            pre.append(jg0.has([bb.v, gg, gg]))
            pre.append(z3.ForAll([a_], z3.Implies(jg0.has([bb.v, z3.IntVal(0), a_]), a_ == 0)))
            writes = [e for e in s.effects if e.kind in ('insert', 'upsert', 'update', 'update-set', 'insert-select', 'delete', 'delete-set') and not e.data.get('rolled_back')]
            already = SP.grp_cancelled(base, bb.v, gg)
            hyps = list(s.pc) + pre
            if not sqlvc.feasible(hyps, 3000):
                continue
            if writes:
                ctx.add(core.valid('%s/path%d/writes-only-if-not-already-cancelled' % (name, pi), hyps, z3.Not(already)))
                wrote.append(z3.And(*hyps))
                canc_writes = [e for e in writes if e.table == 'job_groups_cancelled']
                ok_shape = len(canc_writes) == 1 and canc_writes[0].kind == 'insert'
                ctx.add(core.decided('%s/path%d/marks-exactly-one-group-and-deletes-no-mark' % (name, pi), ok_shape and not any(e.kind.startswith('delete') and e.table == 'job_groups_cancelled' for e in writes), repr([(e.kind, e.table) for e in writes]), kind='scan'))
                if ok_shape:
                    k = canc_writes[0].data['key']
                    ctx.add(core.valid('%s/path%d/marks-the-requested-group' % (name, pi), hyps, z3.And(k[0] == bb.v, k[1] == gg)))
                    h = z3.Int('h')
                    jgsa = base.tab('job_group_self_and_ancestors')
                    ctx.add(core.valid('%s/path%d/effect-confined-to-the-subtree' % (name, pi), hyps, SP.grp_cancelled(s.db, bb.v, h) == z3.Or(SP.grp_cancelled(base, bb.v, h), jgsa.has([bb.v, h, gg]))))
                    b2 = z3.Int('b_other')
                    ctx.add(core.valid('%s/path%d/other-batches-untouched' % (name, pi), hyps + [b2 != bb.v], SP.grp_cancelled(s.db, b2, h) == SP.grp_cancelled(base, b2, h)))
            else:
                ctx.add(core.valid('%s/path%d/no-write-path-changes-no-mark' % (name, pi), hyps, z3.BoolVal(True)))
            # repeating the cancellation changes nothing
            if writes:
                pass
        # idempotence: every path feasible under `already cancelled` has no writes
        for pi, s in enumerate(outs):
            bb = s.vars['in_batch_id']
            gg = s.vars['in_job_group_id'].v if gexpr is None else z3.IntVal(gexpr)
            writes = [e for e in s.effects if e.kind in ('insert', 'upsert', 'update', 'update-set', 'insert-select', 'delete', 'delete-set') and not e.data.get('rolled_back')]
            if writes:
                jg0 = base.tab('job_group_self_and_ancestors')
                a_ = z3.Int('a_root')
                pre2 = [z3.Not(bb.n), jg0.has([bb.v, gg, gg]), z3.ForAll([a_], z3.Implies(jg0.has([bb.v, z3.IntVal(0), a_]), a_ == 0))] + ([z3.Not(s.vars['in_job_group_id'].n)] if gexpr is None else [])
                ctx.add(core.valid('%s/path%d/idempotent-second-call-writes-nothing' % (name, pi), list(s.pc) + pre2 + [SP.grp_cancelled(base, bb.v, gg)], z3.BoolVal(False)))
        ctx.add(core.satisfiable('%s/vacuity/some-path-cancels' % name, z3.Or(*wrote) if wrote else z3.BoolVal(False)))

    from contracts import sqlspec as _SP
    _SP.engine_obligations(ctx, ex)
    ctx.assume('each procedure call is atomic (serialisable isolation); MySQL NULL/boolean semantics as encoded in vc/sqlvc.py')
    ctx.assume('structural invariant A1 used as precondition of cancel_*: (b,g,g) is in job_group_self_and_ancestors for every group and the root group 0 has no other ancestor (established where groups are created; see C08)')
    ctx.assume('jobs.always_run, jobs.cancelled, jobs.job_group_id are NOT NULL columns (schema replayed from the migrations)')
    ctx.assume('structural invariant A2 used as precondition of _create_job_group for the parent group: the root group is an ancestor of every group and the levels of the self-and-ancestors rows of a group are 0..depth, one row each, i.e. their number is the level of the root row + 1; preserved for the created group by the closure obligations (own row at level 0, every row of the parent copied one level up, nothing else); the row count returned by the driver for the closure INSERT..SELECT is the number of source rows (obligations (i)-(iii) of closure_insert)')
    ctx.assume('fetchone() of a SELECT returns SOME row of its result set (ORDER BY / LIMIT over-approximated); selected columns other than the gate column are read as non-NULL integers')
    ctx.undecided('Python side: the scheduler/canceller selection queries in pool.py / canceller.py (cancel_job_group_in_db, _create_job_group, commit_update and _create_batch_update.update ARE under contract)')
    ctx.undecided('in-flight scheduling decisions racing with a cancel at the Python level (the SQL guard serialises them)')
