"""C07 - cancellation stops work in the cancelled subtree only.

Claimed clauses (SQL side, real effective text via sqlvc):
  1. is_job_group_cancelled / is_job_cancelled / is_batch_cancelled compute exactly the spec predicates
       grp_cancelled(b,g) = exists a in anc*(b,g) with (b,a) cancelled;  cancelled(j) = not always_run and (flag or grp_cancelled).
  2. schedule_job, mark_job_creating, mark_job_started: on every path that moves a job to Creating or Running the job is
     not cancelled (spec predicate on the database at call time); and every path ends with a result row, never a SIGNAL
     ("answered normally" for jobs under any combination of cancelled groups).
  3. jobs_before_insert signals exactly when the new job's group is cancelled (no jobs can be added beneath it).
  4. cancel_job_group: called on an already cancelled group it writes nothing (idempotent); otherwise it inserts exactly the
     row (b, g) into job_groups_cancelled and deletes nothing, hence grp_cancelled'(b,h) <=> grp_cancelled(b,h) or g in anc*(b,h):
     siblings and ancestors are unaffected.  cancel_batch: same with g = 0.
"""
from __future__ import annotations

import z3

from contracts import sqlspec as SP
from vc import core, sqlast as A, sqlvc
from vc.sqlvc import SV, intern, truthy


def _truth(sv):
    return truthy(sv)


def build(ctx):
    ex = SP.proc_exec(inline_after=False)
    # ---- 1. the three SQL functions
    st = ex.new_state()
    db = st.db
    b, g, j = z3.Int('b'), z3.Int('g'), z3.Int('j')
    f = ex.routines['is_job_group_cancelled']
    ctx.under_contract(SP.rel(f.source_file), 'FUNCTION is_job_group_cancelled')
    r = ex.call_function(f, [SV(False, b), SV(False, g)], st)
    ctx.add(core.valid('is_job_group_cancelled/equals-spec', list(st.pc), z3.And(z3.Not(r.n), _truth(r) == SP.grp_cancelled(db, b, g))))
    ctx.add(core.satisfiable('is_job_group_cancelled/vacuity/can-be-true', list(st.pc) + [_truth(r)]))
    f = ex.routines['is_batch_cancelled']
    ctx.under_contract(SP.rel(f.source_file), 'FUNCTION is_batch_cancelled')
    r = ex.call_function(f, [SV(False, b)], st)
    ctx.add(core.valid('is_batch_cancelled/equals-spec', list(st.pc), z3.And(z3.Not(r.n), _truth(r) == db.tab('job_groups_cancelled').has([b, z3.IntVal(0)]))))
    f = ex.routines['is_job_cancelled']
    ctx.under_contract(SP.rel(f.source_file), 'FUNCTION is_job_cancelled')
    st2 = ex.new_state()
    st2.db = db
    r = ex.call_function(f, [SV(False, b), SV(False, j)], st2)
    jobs = db.tab('jobs')
    wf = [jobs.has([b, j])]  # always_run / cancelled / job_group_id are NOT NULL columns
    ctx.add(core.valid('is_job_cancelled/equals-spec', list(st2.pc) + wf, z3.And(z3.Not(r.n), _truth(r) == SP.job_cancelled(db, b, j))))
    ctx.add(core.satisfiable('is_job_cancelled/vacuity/can-be-true', list(st2.pc) + wf + [_truth(r)]))
    ctx.add(core.satisfiable('is_job_cancelled/canary/always-run-is-never-cancelled', list(st2.pc) + wf + [z3.Not(_truth(r)), SP.job_marked(db, b, j)], kind='canary'))

    # ---- 2. guards in the three placement procedures
    for name in ('schedule_job', 'mark_job_creating', 'mark_job_started'):
        rt = ex.routines[name]
        ctx.under_contract(SP.rel(rt.source_file), 'PROCEDURE ' + name)
        st0 = ex.new_state()
        for t in ('jobs', 'job_group_self_and_ancestors', 'job_groups_cancelled'):
            st0.db.tab(t)
        base = st0.db.fork()
        outs = ex.run_procedure(name, st0)
        moved = []
        for pi, s in enumerate(outs):
            bb, jj = s.vars['in_batch_id'], s.vars['in_job_id']
            ctx.add(core.decided('%s/path%d/answers-with-a-result-row' % (name, pi), s.outcome is None and len(s.results) >= 1, 'outcome=%r results=%d' % (s.outcome, len(s.results)), kind='scan'))
            for e in s.effects:
                if e.table == 'jobs' and e.kind in ('update', 'update-set') and 'state' in e.data.get('assigned', []):
                    if e.kind != 'update':
                        raise core.Undecided('%s: set-oriented UPDATE of jobs.state' % name)
                    ns = e.data['new']['state']
                    hyps = list(s.pc[: e.data['pc_len']]) + [z3.Not(bb.n), z3.Not(jj.n)]
                    to_run = SP.is_state(ns, 'Creating', 'Running')
                    ctx.add(core.valid('%s/path%d/moves-to-creating-or-running-only-if-not-cancelled' % (name, pi), hyps + [to_run], z3.Not(SP.job_cancelled(base, bb.v, jj.v))))
                    ctx.add(core.valid('%s/path%d/updates-the-addressed-job-only' % (name, pi), hyps, z3.And(e.data['key'][0] == bb.v, e.data['key'][1] == jj.v)))
                    moved.append(z3.And(*hyps, to_run))
        ctx.add(core.satisfiable('%s/vacuity/some-path-starts-the-job' % name, z3.Or(*moved) if moved else z3.BoolVal(False)))

    # ---- 3. jobs_before_insert
    trg = ex.triggers.get(('jobs', 'BEFORE', 'INSERT'))
    if trg is None:
        raise core.Undecided('anchor-moved: no BEFORE INSERT trigger on jobs')
    ctx.under_contract(SP.rel(trg.source_file), 'TRIGGER ' + trg.name)
    st3 = ex.new_state()
    new = ex.symbolic_row('jobs', 'NEW')
    outs = ex.run_trigger(trg.name, st3, None, new)
    for pi, s in enumerate(outs):
        signalled = s.outcome is not None and s.outcome[0] == 'signal'
        gc = SP.grp_cancelled(s.db, new['batch_id'].v, new['job_group_id'].v)
        ctx.add(core.valid('jobs_before_insert/path%d/%s' % (pi, 'signals-only-if-group-cancelled' if signalled else 'accepts-only-if-group-not-cancelled'), list(s.pc), gc if signalled else z3.Not(gc)))
    ctx.add(core.decided('jobs_before_insert/both-outcomes-exist', sorted(bool(s.outcome) for s in outs) == [False, True], '%d paths' % len(outs), kind='vacuity'))

    # ---- 4. cancel_job_group / cancel_batch
    for name, gexpr in (('cancel_job_group', None), ('cancel_batch', 0)):
        if name not in ex.routines:
            continue
        rt = ex.routines[name]
        ctx.under_contract(SP.rel(rt.source_file), 'PROCEDURE ' + name)
        st0 = ex.new_state()
        for t in ('job_group_self_and_ancestors', 'job_groups_cancelled'):
            st0.db.tab(t)
        base = st0.db.fork()
        outs = ex.run_procedure(name, st0)
        wrote = []
        for pi, s in enumerate(outs):
            bb = s.vars['in_batch_id']
            gg = s.vars['in_job_group_id'].v if gexpr is None else z3.IntVal(gexpr)
            pre = [z3.Not(bb.n)] + ([z3.Not(s.vars['in_job_group_id'].n)] if gexpr is None else [])
            # structural invariant A1 of job_group_self_and_ancestors (established by _create_job_group): every group is its
            # own ancestor, and the root group has no other ancestor
            jg0 = base.tab('job_group_self_and_ancestors')
            a_ = z3.Int('a_root')
            pre.append(jg0.has([bb.v, gg, gg]))
            pre.append(z3.ForAll([a_], z3.Implies(jg0.has([bb.v, z3.IntVal(0), a_]), a_ == 0)))
            writes = [e for e in s.effects if e.kind in ('insert', 'upsert', 'update', 'update-set', 'insert-select', 'delete', 'delete-set') and not e.data.get('rolled_back')]
            already = SP.grp_cancelled(base, bb.v, gg)
            hyps = list(s.pc) + pre
            if not sqlvc.feasible(hyps, 3000):
                continue
            if writes:
                ctx.add(core.valid('%s/path%d/writes-only-if-not-already-cancelled' % (name, pi), hyps, z3.Not(already)))
                wrote.append(z3.And(*hyps))
                canc_writes = [e for e in writes if e.table == 'job_groups_cancelled']
                ok_shape = len(canc_writes) == 1 and canc_writes[0].kind == 'insert'
                ctx.add(core.decided('%s/path%d/marks-exactly-one-group-and-deletes-no-mark' % (name, pi), ok_shape and not any(e.kind.startswith('delete') and e.table == 'job_groups_cancelled' for e in writes), repr([(e.kind, e.table) for e in writes]), kind='scan'))
                if ok_shape:
                    k = canc_writes[0].data['key']
                    ctx.add(core.valid('%s/path%d/marks-the-requested-group' % (name, pi), hyps, z3.And(k[0] == bb.v, k[1] == gg)))
                    h = z3.Int('h')
                    jgsa = base.tab('job_group_self_and_ancestors')
                    ctx.add(core.valid('%s/path%d/effect-confined-to-the-subtree' % (name, pi), hyps, SP.grp_cancelled(s.db, bb.v, h) == z3.Or(SP.grp_cancelled(base, bb.v, h), jgsa.has([bb.v, h, gg]))))
                    b2 = z3.Int('b_other')
                    ctx.add(core.valid('%s/path%d/other-batches-untouched' % (name, pi), hyps + [b2 != bb.v], SP.grp_cancelled(s.db, b2, h) == SP.grp_cancelled(base, b2, h)))
            else:
                ctx.add(core.valid('%s/path%d/no-write-path-changes-no-mark' % (name, pi), hyps, z3.BoolVal(True)))
            # repeating the cancellation changes nothing
            if writes:
                pass
        # idempotence: every path feasible under `already cancelled` has no writes
        for pi, s in enumerate(outs):
            bb = s.vars['in_batch_id']
            gg = s.vars['in_job_group_id'].v if gexpr is None else z3.IntVal(gexpr)
            writes = [e for e in s.effects if e.kind in ('insert', 'upsert', 'update', 'update-set', 'insert-select', 'delete', 'delete-set') and not e.data.get('rolled_back')]
            if writes:
                jg0 = base.tab('job_group_self_and_ancestors')
                a_ = z3.Int('a_root')
                pre2 = [z3.Not(bb.n), jg0.has([bb.v, gg, gg]), z3.ForAll([a_], z3.Implies(jg0.has([bb.v, z3.IntVal(0), a_]), a_ == 0))] + ([z3.Not(s.vars['in_job_group_id'].n)] if gexpr is None else [])
                ctx.add(core.valid('%s/path%d/idempotent-second-call-writes-nothing' % (name, pi), list(s.pc) + pre2 + [SP.grp_cancelled(base, bb.v, gg)], z3.BoolVal(False)))
        ctx.add(core.satisfiable('%s/vacuity/some-path-cancels' % name, z3.Or(*wrote) if wrote else z3.BoolVal(False)))

    from contracts import sqlspec as _SP
    _SP.engine_obligations(ctx, ex)
    ctx.assume('each procedure call is atomic (serialisable isolation); MySQL NULL/boolean semantics as encoded in vc/sqlvc.py')
    ctx.assume('structural invariant A1 used as precondition of cancel_*: (b,g,g) is in job_group_self_and_ancestors for every group and the root group 0 has no other ancestor (established where groups are created; see C08)')
    ctx.assume('jobs.always_run, jobs.cancelled, jobs.job_group_id are NOT NULL columns (schema replayed from the migrations)')
    ctx.undecided('Python side: cancel_job_group_in_db, _create_job_group (rejecting a cancelled parent), commit_update and the scheduler/canceller selection queries')
    ctx.undecided('in-flight scheduling decisions racing with a cancel at the Python level (the SQL guard serialises them)')
