"""C06 - batch and job-group completion reflect their jobs.

Invariant K2 per job group g of a batch (root included):   state(g) = 'complete'  <=>  n_completed(g) = n_jobs(g),
and for the batch row: state = 'complete' <=> n_completed(root) = batches.n_jobs, with batches.n_jobs = n_jobs(root).
(The counting invariant K - n_completed(g) = number of committed terminal jobs in subtree(g) - is maintained by the tally
statement verified under C04; the only consequence used here is  n_completed(a) < n_jobs(a)  for every ancestor group a of a
committed job that is not yet terminal, and n_completed <= n_jobs everywhere.)
Obligations on the real effective SQL (sqlvc), for all databases satisfying the invariants and all arguments:
 * mark_job_complete: on the completing paths K2 holds afterwards for EVERY group of the batch (the cursor loop of
   mark_job_group_complete is executed as a pointwise transformer over the ancestors) and for the batch row; on the other
   paths no group / batch state or tally changes.
 * commit_batch_update: n_jobs(g) grows by the staged job count of g - the aggregate is shown (pointwise, L2) to sum ALL staging
   rows of (batch, update, g) - the group is set 'running' iff that count is > 0 ("adding an update with jobs reopens it"),
   batches.n_jobs grows by the update's n_jobs; K2 holds afterwards; a wrong staged count rolls everything back.
 * Python: batch_record_to_dict / job_group_record_to_dict report complete == (state == 'complete') and pass the counters
   through unchanged (AST obligations on the real functions).
Wave 4 - the counting invariant K is now also stated here, in delta form on the final database of every path (not per statement):
 * mark_job_complete, completing paths: n_completed and the outcome counter selected by new_state grow by exactly one for
   exactly the groups of anc*(batch, group of the job) (every one of them, whatever the nesting depth) and are unchanged for
   every other group / batch; exactly the completing job goes from a live to a terminal state.  Other paths: no job changes
   terminal-ness and no count moves.
 * every other stored procedure that assigns jobs.state (closed-world scan: schedule_job, mark_job_creating, mark_job_started,
   unschedule_job, deactivate_instance, commit_batch_update): no job changes terminal-ness - a job counted complete is never
   reset - and no count moves; the counts are written by mark_job_complete only (scan).
 * the batch-row obligation of mark_job_complete uses the root instances of the quantified hypotheses (quantifier-free), so a
   procedure that takes the batch total from anything but batches.n_jobs gets a counter-model instead of a timeout.
 * front_end._create_jobs.insert_jobs_into_db (pyvc fragment + native replay): the staging statement is executed once per
   ((g, ic), res) entry of inst_coll_resources and stages res['n_jobs'] under the ancestors of THAT g, for this batch / update.
"""
from __future__ import annotations

import ast as pyast

import z3

from contracts import sqlspec as SP
from vc import core, sqlvc
from vc.sqlvc import intern

COMPLETE, RUNNING = 'complete', 'running'


def k2(db, b, g):
    jg, tal = db.tab('job_groups'), db.tab('job_groups_n_jobs_in_complete_states')
    st = jg.get([b, g], 'state')
    return SP.is_state(st, COMPLETE) == (tal.get([b, g], 'n_completed').v == jg.get([b, g], 'n_jobs').v)


def k2_batch(db, b):
    bt, tal = db.tab('batches'), db.tab('job_groups_n_jobs_in_complete_states')
    return SP.is_state(bt.get([b], 'state'), COMPLETE) == (tal.get([b, z3.IntVal(0)], 'n_completed').v == bt.get([b], 'n_jobs').v)


def _new_groups_are_complete_and_empty(ctx):
    """K2 at creation: a job group is born with no jobs, hence complete (`state = 'complete'`, `n_jobs = 0`); only a commit that
    stages jobs reopens it.  Decided on the real INSERT of _create_job_group (front_end.py): the values bound to the columns
    `state` and `n_jobs` are the literals 'complete' and 0 on every path."""
    from vc import sqlparse as _sp, sqlast as _A

    path = 'batch/batch/front_end/front_end.py'
    tree = pyast.parse(core.read_repo(path))
    fns = [n for n in pyast.walk(tree) if isinstance(n, (pyast.FunctionDef, pyast.AsyncFunctionDef)) and n.name == '_create_job_group']
    if not fns:
        raise core.Undecided('anchor-moved: _create_job_group')
    ctx.under_contract(path, '_create_job_group (initial state of a job group)')
    found = []
    for call in pyast.walk(fns[0]):
        if isinstance(call, pyast.Call) and call.args and isinstance(call.args[0], pyast.Constant) and isinstance(call.args[0].value, str) and 'INSERT INTO job_groups ' in call.args[0].value:
            stn = _sp.parse_statements(call.args[0].value)[0]
            vals = call.args[1] if len(call.args) > 1 else None
            ok = isinstance(stn, _A.Insert) and stn.table == 'job_groups' and isinstance(vals, pyast.Tuple) and len(vals.elts) == len(stn.columns)
            if ok:
                cols = [c.strip('`') for c in stn.columns]
                sv, nv = vals.elts[cols.index('state')], vals.elts[cols.index('n_jobs')]
                ok = isinstance(sv, pyast.Constant) and sv.value == 'complete' and isinstance(nv, pyast.Constant) and nv.value == 0 and not isinstance(nv.value, bool)
            found.append(ok)
    ctx.add(core.decided('C06/_create_job_group/a-new-job-group-is-complete-with-no-jobs', bool(found) and all(found), repr(found), kind='scan'))


def build(ctx):
    _new_groups_are_complete_and_empty(ctx)
    ex = SP.proc_exec(inline_after=False)
    G = z3.Int('g_any')
    # ---------------- mark_job_complete
    name = 'mark_job_complete'
    rt = ex.routines[name]
    ctx.under_contract(SP.rel(rt.source_file), 'PROCEDURE ' + name)
    ctx.under_contract(SP.rel(ex.routines['mark_job_group_complete'].source_file), 'PROCEDURE mark_job_group_complete')
    st0 = ex.new_state()
    for t in ('jobs', 'job_groups', 'batches', 'job_group_self_and_ancestors', 'job_groups_n_jobs_in_complete_states'):
        st0.db.tab(t)
    base = st0.db.fork()
    outs = ex.run_procedure(name, st0)
    completing = []
    for pi, s in enumerate(outs):
        bb, jj = s.vars['in_batch_id'], s.vars['in_job_id']
        b = bb.v
        jobs0, jg0, tal0, jgsa0, bt0 = base.tab('jobs'), base.tab('job_groups'), base.tab('job_groups_n_jobs_in_complete_states'), base.tab('job_group_self_and_ancestors'), base.tab('batches')
        grp = jobs0.get([b, jj.v], 'job_group_id')
        anc = lambda g: jgsa0.has([b, grp.v, g])
        a_ = z3.Int('a_q')
        k_open = lambda a: z3.Implies(z3.And(anc(a), z3.Not(SP.terminal(jobs0.get([b, jj.v], 'state')))), tal0.get([b, a], 'n_completed').v < jg0.get([b, a], 'n_jobs').v)  # noqa: E731
        has_rows = lambda a: z3.Implies(anc(a), z3.And(jg0.has([b, a]), tal0.has([b, a])))  # noqa: E731
        pre = [
            z3.Not(bb.n), z3.Not(jj.n), SP.terminal(s.vars['new_state']),
            z3.ForAll([a_], k2(base, b, a_)), k2_batch(base, b),
            # counting invariant K, consequence for a committed non-terminal job: its ancestors are not yet complete
            z3.ForAll([a_], k_open(a_)),
            # structure: every ancestor has a job_groups row and a tally row; the root is an ancestor of every group (A1)
            z3.ForAll([a_], has_rows(a_)), anc(z3.IntVal(0)),
            bt0.get([b], 'n_jobs').v == jg0.get([b, z3.IntVal(0)], 'n_jobs').v, z3.Not(bt0.get([b], 'n_jobs').n), bt0.has([b]),
        ]
        hyps = list(s.pc) + pre
        if not sqlvc.feasible(list(s.pc) + pre[:3], 2000):
            continue
        wrote_tally = any(e.table == 'job_groups_n_jobs_in_complete_states' and e.kind in ('update', 'update-set') for e in s.effects)
        # counting clause K in delta form, stated on the final database of the path against the initial one (whatever
        # statements produced it).  Hypotheses are instances at the free group G / job (B2, J2) - no quantifier - so that a
        # changed procedure gets a definite answer: an ancestor has its tally row; N' (C05): a child of a job that is not yet
        # terminal is Pending.
        jobs1, tal1 = s.db.tab('jobs'), s.db.tab('job_groups_n_jobs_in_complete_states')
        B2, J2 = z3.Int('b_any'), z3.Int('j_any')
        jp0 = base.tab('job_parents')
        ns = s.vars['new_state']
        cnt = lambda t, bx, col: t.get([bx, G], col)  # noqa: E731
        same_term = lambda bx, jx: SP.terminal(jobs1.get([bx, jx], 'state')) == SP.terminal(jobs0.get([bx, jx], 'state'))  # noqa: E731
        n_prime = z3.Implies(z3.And(jp0.has([b, J2, jj.v]), z3.Not(SP.terminal(jobs0.get([b, jj.v], 'state')))), SP.is_state(jobs0.get([b, J2], 'state'), 'Pending'))
        if wrote_tally:
            completing.append(z3.And(*(list(s.pc) + pre[:3])))
            grows = lambda col, when: z3.And(z3.Not(cnt(tal1, b, col).n), cnt(tal1, b, col).v == cnt(tal0, b, col).v + z3.If(z3.And(anc(G), when), 1, 0))  # noqa: E731
            SP.add_valid(ctx, '%s/path%d/K-completed-count-grows-by-one-for-exactly-the-ancestors-of-the-jobs-group' % (name, pi), s.pc, pre[:3] + [z3.Implies(anc(G), tal0.has([b, G])), z3.Not(cnt(tal0, b, 'n_completed').n)], grows('n_completed', z3.BoolVal(True)))
            SP.add_valid(ctx, '%s/path%d/K-outcome-counts-grow-by-the-new-state-for-exactly-the-ancestors' % (name, pi), s.pc, pre[:3] + [z3.Implies(anc(G), tal0.has([b, G]))] + [z3.Not(cnt(tal0, b, c_).n) for c_ in ('n_succeeded', 'n_failed', 'n_cancelled')],
                         z3.And(grows('n_succeeded', SP.is_state(ns, 'Success')), grows('n_failed', SP.is_state(ns, 'Failed', 'Error')), grows('n_cancelled', SP.is_state(ns, 'Cancelled'))))
            SP.add_valid(ctx, '%s/path%d/K-exactly-the-completing-job-becomes-terminal' % (name, pi), s.pc, pre[:3] + [n_prime, z3.Not(jp0.has([b, jj.v, jj.v]))],
                         z3.And(z3.Not(SP.terminal(jobs0.get([b, jj.v], 'state'))), SP.terminal(jobs1.get([b, jj.v], 'state')), z3.Implies(z3.Or(B2 != b, J2 != jj.v), same_term(B2, J2))))
            SP.add_valid(ctx, '%s/path%d/K2-holds-for-every-group-afterwards' % (name, pi), s.pc, pre + [jg0.has([b, G])], k2(s.db, b, G))
            # the batch row: the hypotheses are the instances at the root group of the quantified ones above (a consequence
            # of them, and quantifier-free: a procedure that decides the batch state from something else than the root
            # tally and batches.n_jobs then fails this obligation with a counter-model instead of timing out)
            z0 = z3.IntVal(0)
            pre_root = pre[:3] + [k2_batch(base, b), k_open(z0), has_rows(z0)] + pre[7:]
            SP.add_valid(ctx, '%s/path%d/K2-holds-for-the-batch-row-afterwards' % (name, pi), s.pc, pre_root, k2_batch(s.db, b))
            SP.add_valid(ctx, '%s/path%d/n_jobs-untouched' % (name, pi), s.pc, pre, z3.And(s.db.tab('job_groups').get([b, G], 'n_jobs').v == jg0.get([b, G], 'n_jobs').v, s.db.tab('batches').get([b], 'n_jobs').v == bt0.get([b], 'n_jobs').v))
            b2 = z3.Int('b_other')
            SP.add_valid(ctx, '%s/path%d/other-batches-untouched' % (name, pi), s.pc, pre + [b2 != b], z3.And(sqlvc.sv_eq_values(s.db.tab('job_groups').get([b2, G], 'state'), jg0.get([b2, G], 'state')), s.db.tab('job_groups_n_jobs_in_complete_states').get([b2, G], 'n_completed').v == tal0.get([b2, G], 'n_completed').v))
        else:
            SP.add_valid(ctx, '%s/path%d/no-completion-no-change-of-states-or-tallies' % (name, pi), s.pc, pre, z3.And(sqlvc.sv_eq_values(s.db.tab('job_groups').get([b, G], 'state'), jg0.get([b, G], 'state')), sqlvc.sv_eq_values(s.db.tab('batches').get([b], 'state'), bt0.get([b], 'state')), s.db.tab('job_groups_n_jobs_in_complete_states').get([b, G], 'n_completed').v == tal0.get([b, G], 'n_completed').v))
            SP.add_valid(ctx, '%s/path%d/K-no-completion-no-job-changes-terminalness-and-no-count-moves' % (name, pi), s.pc, pre[:3] + [n_prime],
                         z3.And(same_term(B2, J2), *[sqlvc.sv_eq_values(cnt(tal1, B2, c_), cnt(tal0, B2, c_)) for c_ in ('n_completed', 'n_succeeded', 'n_failed', 'n_cancelled')]))
    ctx.add(core.satisfiable('%s/vacuity/some-completing-path' % name, z3.Or(*completing) if completing else z3.BoolVal(False)))

    # ---------------- commit_batch_update
    name = 'commit_batch_update'
    rt = ex.routines[name]
    ctx.under_contract(SP.rel(rt.source_file), 'PROCEDURE ' + name)
    st0 = ex.new_state()
    for t in ('jobs', 'job_groups', 'batches', 'batch_updates', 'job_groups_inst_coll_staging', 'job_groups_n_jobs_in_complete_states'):
        st0.db.tab(t)
    base = st0.db.fork()
    outs = ex.run_procedure(name, st0)
    reopened = []
    for pi, s in enumerate(outs):
        bb, uu = s.vars['in_batch_id'], s.vars['in_update_id']
        b = bb.v
        jg0, tal0, bt0, stg0 = base.tab('job_groups'), base.tab('job_groups_n_jobs_in_complete_states'), base.tab('batches'), base.tab('job_groups_inst_coll_staging')
        a_ = z3.Int('a_q')
        pre = [
            z3.Not(bb.n), z3.Not(uu.n), z3.ForAll([a_], k2(base, b, a_)), k2_batch(base, b),
            z3.ForAll([a_], tal0.get([b, a_], 'n_completed').v <= jg0.get([b, a_], 'n_jobs').v),
            bt0.get([b], 'n_jobs').v == jg0.get([b, z3.IntVal(0)], 'n_jobs').v, z3.Not(bt0.get([b], 'n_jobs').n), bt0.has([b]),
            tal0.get([b, z3.IntVal(0)], 'n_completed').v <= bt0.get([b], 'n_jobs').v,
        ]
        hyps = list(s.pc) + pre
        if not sqlvc.feasible(list(s.pc) + pre[:2], 2000):
            continue
        # counting clause K: committing an update moves no job into or out of a terminal state and no completed count
        B2, J2 = z3.Int('b_any'), z3.Int('j_any')
        bu0 = base.tab('batch_updates')
        ukey = [b, uu.v, z3.Int('u_start_group'), z3.Int('u_start_job')]  # the primary key of batch_updates includes the start ids
        ucol = lambda c_: bu0.get(ukey, c_)  # noqa: E731
        # hypothesis (C41, C09 id ranges): the jobs in the id range of an update that is not committed yet have never run
        fresh_jobs = z3.ForAll(ukey[2:], z3.Implies(z3.And(B2 == b, bu0.has(ukey), z3.Not(sqlvc.truthy(ucol('committed'))), ukey[3] <= J2, J2 < ukey[3] + ucol('n_jobs').v), z3.Not(SP.terminal(base.tab('jobs').get([B2, J2], 'state')))))
        q_ = [z3.Int('uq_g1'), z3.Int('uq_j1'), z3.Int('uq_g2'), z3.Int('uq_j2')]
        one_row_per_update = z3.ForAll(q_, z3.Implies(z3.And(bu0.has([b, uu.v, q_[0], q_[1]]), bu0.has([b, uu.v, q_[2], q_[3]])), z3.And(q_[0] == q_[2], q_[1] == q_[3])))
        SP.add_valid(ctx, '%s/path%d/K-no-job-changes-terminalness-and-no-count-moves' % (name, pi), s.pc, pre[:2] + [fresh_jobs, one_row_per_update],
                     z3.And(SP.terminal(s.db.tab('jobs').get([B2, J2], 'state')) == SP.terminal(base.tab('jobs').get([B2, J2], 'state')),
                            *[sqlvc.sv_eq_values(s.db.tab('job_groups_n_jobs_in_complete_states').get([B2, G], c_), tal0.get([B2, G], c_)) for c_ in ('n_completed', 'n_succeeded', 'n_failed', 'n_cancelled')]))
        rc = s.results[-1][0][1] if s.results else None
        jg_updates = [e for e in s.effects if e.table == 'job_groups' and e.kind == 'update-set' and not e.data.get('rolled_back')]
        live_writes = [e for e in s.effects if e.kind in ('insert', 'upsert', 'update', 'update-set', 'insert-select', 'delete', 'delete-set', 'loop-set') and not e.data.get('rolled_back')]
        if rc is not None and s.results[-1][0][0] == 'rc' and z3.is_int_value(z3.simplify(rc.v)) and z3.simplify(rc.v).as_long() == 1:
            ctx.add(core.decided('%s/path%d/wrong-job-count-rolls-everything-back' % (name, pi), not live_writes, repr([(e.kind, e.table) for e in live_writes]), kind='frame'))
            continue
        if not jg_updates:
            # already committed, or an empty update: group states and n_jobs unchanged
            SP.add_valid(ctx, '%s/path%d/no-jobs-no-change-of-group-state-or-n_jobs' % (name, pi), s.pc, pre, z3.And(sqlvc.sv_eq_values(s.db.tab('job_groups').get([b, G], 'state'), jg0.get([b, G], 'state')), s.db.tab('job_groups').get([b, G], 'n_jobs').v == jg0.get([b, G], 'n_jobs').v, s.db.tab('batches').get([b], 'n_jobs').v == bt0.get([b], 'n_jobs').v))
            continue
        e = jg_updates[0]
        ctx.add(core.decided('%s/path%d/exactly-one-job_groups-statement' % (name, pi), len(jg_updates) == 1, '', kind='scan'))
        h = list(s.pc[: e.data['pc_len']]) + pre
        kv, aff, o, n_ = e.data['kvars'], e.data['affected'], e.data['old_row'], e.data['new_row']
        recs = [r for r in s.aggregates if r.get('func') == 'SUM' and 'n_jobs' in r.get('expr', '') and r['line'] >= e.line - 2]
        recs = [r for r in recs if r['symbol'].decl().name() in _decls(n_['n_jobs'].v)]
        ctx.add(core.decided('%s/path%d/staged-count-is-one-SUM-aggregate' % (name, pi), len(recs) == 1, '%d aggregate records feed n_jobs' % len(recs), kind='scan'))
        if len(recs) == 1:
            r = recs[0]
            staged = z3.substitute(r['symbol'], (r['gvars'][0], kv[0]), (r['gvars'][1], kv[1]))
            ctx.add(core.decided('%s/path%d/derived-table-grouped-by-batch-and-group-only' % (name, pi), len(r['gvars']) == 2, '%d group columns' % len(r['gvars']), kind='scan'))
            # the aggregate sums n_jobs over ALL staging rows of (batch, update, this group): pointwise predicate equality
            rk = r['kvars']
            stg_pk = stg0.pk
            want = []
            # the aggregated rows are rows of job_groups_inst_coll_staging: identify their key terms from the summand
            SP.add_valid(ctx, '%s/path%d/aggregate-sums-the-n_jobs-column' % (name, pi), s.pc[: e.data['pc_len']], pre[:2] + [r['cond']], z3.And(z3.Not(r['arg'].n), _is_column(r['arg'].v, stg0, 'n_jobs')))
            key_terms = _key_of(r['arg'].v)
            if key_terms is None or len(key_terms) != len(stg_pk):
                raise core.Undecided('commit_batch_update: cannot identify the staging row summed by the aggregate')
            kd = dict(zip(stg_pk, key_terms))
            gv = r['gvars']
            spec_pred = z3.And(stg0.has(key_terms), kd['batch_id'] == b, kd['update_id'] == uu.v, kd['job_group_id'] == gv[1], gv[0] == b)
            SP.add_valid(ctx, '%s/path%d/aggregate-covers-exactly-all-staging-rows-of-the-group' % (name, pi), s.pc[: e.data['pc_len']], pre[:2] + [aff], z3.ForAll(rk, z3.Implies(gv[0] == b, r['cond'] == spec_pred)) if rk else (r['cond'] == spec_pred))
            SP.add_valid(ctx, '%s/path%d/n_jobs-grows-by-the-staged-count' % (name, pi), s.pc[: e.data['pc_len']], pre[:2] + [aff], n_['n_jobs'].v == o['n_jobs'].v + staged)
            SP.add_valid(ctx, '%s/path%d/group-reopens-iff-jobs-were-staged' % (name, pi), s.pc[: e.data['pc_len']], pre[:2] + [aff], z3.And(z3.Implies(staged > 0, SP.is_state(n_['state'], RUNNING)), z3.Implies(staged <= 0, sqlvc.sv_eq_values(n_['state'], o['state']))))
            SP.add_valid(ctx, '%s/path%d/groups-touched-are-groups-of-this-batch' % (name, pi), s.pc[: e.data['pc_len']], pre[:2] + [aff], kv[0] == b)
            SP.add_valid(ctx, '%s/path%d/K2-holds-for-every-group-afterwards' % (name, pi), s.pc, pre + [z3.ForAll([z3.Int('fx'), z3.Int('fy')], r['symbol'].decl()(z3.Int('fx'), z3.Int('fy')) >= 0)], z3.Implies(jg0.has([b, G]), k2(s.db, b, G)))
            reopened.append(z3.And(*h, aff, staged > 0))
        exp = s.vars['expected_n_jobs']
        SP.add_valid(ctx, '%s/path%d/batch-n_jobs-grows-by-the-update-and-batch-reopens' % (name, pi), s.pc, pre, z3.And(s.db.tab('batches').get([b], 'n_jobs').v == bt0.get([b], 'n_jobs').v + exp.v, SP.is_state(s.db.tab('batches').get([b], 'state'), RUNNING)))
        SP.add_valid(ctx, '%s/path%d/K2-holds-for-the-batch-row-afterwards' % (name, pi), s.pc, pre + [exp.v > 0], k2_batch(s.db, b))
    ctx.add(core.satisfiable('%s/vacuity/some-group-reopens' % name, z3.Or(*reopened) if reopened else z3.BoolVal(False)))
    _counted_jobs_stay_counted(ctx, ex)
    SP.lock_discipline(ctx, ex, ['commit_batch_update', 'mark_job_complete', 'mark_job_group_complete'])
    _python(ctx)
    staging_rows_contract(ctx)
    from contracts import sqlspec as _SP
    _SP.engine_obligations(ctx, ex)
    ctx.assume('each procedure call is atomic (serialisable isolation); MySQL NULL/boolean semantics as encoded in vc/sqlvc.py')
    ctx.assume('counting invariant K (n_completed = number of committed terminal jobs in the subtree, n_jobs = number of committed jobs) is used through its consequences n_completed <= n_jobs and, for the ancestors of a committed non-terminal job, n_completed < n_jobs; its maintenance is C04 (tally statement) + C41 (committed jobs only)')
    ctx.assume("counting clause K (delta form) hypotheses taken from other properties: N' - a child of a job that is not terminal is Pending (C05); no job is its own parent (C08); the jobs in the id range of a not yet committed update are not terminal, and batch_updates has one row per (batch, update) (C41, C09)")
    if ex.limit_subsets:
        ctx.assume('derived tables with LIMIT n are modelled as an arbitrary n-subset of the rows of the plain SELECT (their ORDER BY is over-approximated away): %r' % [(d['alias'], d['limit'], d['line']) for d in ex.limit_subsets])
    ctx.assume('meta-lemma L2: two sums are equal when their row predicates are pointwise equivalent and their summands agree')
    ctx.assume('cursor loop of mark_job_group_complete: iterations are independent (checked: the body writes only the row keyed by its cursor row and reads no column it writes), so the loop is a pointwise transformer')
    ctx.undecided('time_completed bookkeeping; UI pages; that batches.n_jobs = n_jobs(root) is established by _create_batch (Python INSERTs)')


FE = 'batch/batch/front_end/front_end.py'


REPLAY_STAGING = r"""
import sys, json, os, ast, re
payload = json.load(sys.stdin)
src = open(os.path.join(os.environ['VERIF_REPO'], 'batch/batch/front_end/front_end.py')).read()
tree = ast.parse(src)
cj = [n for n in ast.walk(tree) if isinstance(n, ast.AsyncFunctionDef) and n.name == '_create_jobs'][0]
fn = [n for n in ast.walk(cj) if isinstance(n, ast.AsyncFunctionDef) and n.name == 'insert_jobs_into_db'][0]
stmt = [n for n in ast.walk(fn) if isinstance(n, ast.Assign) and ast.unparse(n.targets[0]) == 'job_groups_inst_coll_staging_args'][0]
res = {'confirmed': False}
mk = lambda n: {'n_jobs': n, 'n_ready_jobs': 0, 'ready_cores_mcpu': 0, 'n_ready_cancellable_jobs': 0, 'ready_cancellable_cores_mcpu': 0}
# one bunch with jobs of several job groups; the enclosing loop variable job_group_id holds the group of the LAST job
for last_group, icr in ((2, {(1, 'standard'): mk(3), (2, 'standard'): mk(1)}), (1, {(1, 'standard'): mk(3), (2, 'standard'): mk(1)}), (5, {(5, 'standard'): mk(2), (5, 'highmem'): mk(4), (0, 'standard'): mk(7)})):
    env = {'batch_id': 7, 'update_id': 3, 'rand_token': 11, 'job_group_id': last_group, 'inst_coll_resources': dict(icr)}
    exec(compile(ast.Module(body=[stmt], type_ignores=[]), 'front_end-fragment', 'exec'), env)
    rows = env['job_groups_inst_coll_staging_args']
    staged = {}
    for r in rows:
        k = (r[payload['pos_group']], r[payload['pos_inst_coll']])
        staged[k] = staged.get(k, 0) + r[payload['pos_n_jobs']]
    want = {k: v['n_jobs'] for k, v in icr.items()}
    if staged != want:
        res = {'confirmed': True, 'what': 'staged n_jobs per (group, inst_coll) differ from the jobs of the bunch', 'input': {'inst_coll_resources': {repr(k): v['n_jobs'] for k, v in icr.items()}, 'job_group_id_of_last_job': last_group}, 'staged': {repr(k): v for k, v in staged.items()}, 'expected': {repr(k): v for k, v in want.items()}}
        break
print(json.dumps(res))
"""


def _sql_params(node):
    """positional %s placeholders of a parsed statement (sub)tree, as {index: node}"""
    from vc import sqlast as _A

    return {n.index: n for n in node.walk() if isinstance(n, _A.Param)}


def staging_rows_contract(ctx):
    """front_end._create_jobs.insert_jobs_into_db, the statements that stage the per-group job counts of a bunch (real source,
    pyvc fragment: the comprehension building job_groups_inst_coll_staging_args and the execute_many that consumes it).
    `inst_coll_resources[(g, ic)]['n_jobs']` is the number of jobs of the bunch in group g / instance collection ic
    (fragment A of contracts/create_jobs_frag.py: `icr = inst_coll_resources[(job_group_id, inst_coll_name)]; icr['n_jobs'] += 1`).
    Clause of C06 ("its job count equals the count over those jobs"): the INSERT .. SELECT is executed once per entry
    ((g, ic), res) of that dict and adds res['n_jobs'] to the staging rows of exactly the groups anc*(batch, g) of THIS batch
    and update - commit_batch_update later adds those staged counts to job_groups.n_jobs (obligations above).
    The enclosing function's `job_group_id` (the group of the LAST job of the bunch) is an arbitrary symbolic input here."""
    from vc import pyvc, sqlparse as _sp, sqlast as _A
    from vc.pyvc import Contract

    res_t = pyvc.rec_type(n_jobs='int', n_ready_jobs='int', ready_cores_mcpu='int', n_ready_cancellable_jobs='int', ready_cancellable_cores_mcpu='int')
    seen = []
    pos = {}

    def execute_many(eng, st, args, kw, node):
        a0 = node.args[0] if node.args else None
        if not (isinstance(a0, pyast.Constant) and isinstance(a0.value, str)):
            raise core.Undecided('embedded SQL is not a string literal')
        stn = _sp.parse_statements(a0.value)[0]
        lab = eng.label
        if not (isinstance(stn, _A.Insert) and stn.table == 'job_groups_inst_coll_staging'):
            raise core.Undecided('statement after the staging comprehension is not the INSERT INTO job_groups_inst_coll_staging')
        seen.append(stn)
        rows = args[2] if len(args) > 2 else None
        sel = stn.source
        cols = [c.strip('`') for c in (stn.columns or [])]
        shape = isinstance(sel, _A.Select) and len(sel.columns) == len(cols) and isinstance(sel.from_, _A.TableRef) and sel.from_.name == 'job_group_self_and_ancestors' and not sel.group_by and sel.limit is None
        ctx.add(core.decided('%s/statement-selects-one-row-per-ancestor-of-one-group' % lab, bool(shape), stn.to_sql()[:300], kind='scan'))
        if not shape or not isinstance(rows, pyvc.SList) or rows.et is None or rows.et[0] != 'tuple':
            raise core.Undecided('staging INSERT has an unexpected shape')
        by_col = dict(zip(cols, [c.expr for c in sel.columns]))
        gsel = by_col.get('job_group_id')
        ctx.add(core.decided('%s/staged-group-is-the-ancestor-column' % lab, isinstance(gsel, _A.Name) and gsel.parts[-1] == 'ancestor_id', repr(gsel), kind='scan'))
        # WHERE batch_id = %s AND job_group_id = %s  (nothing else)
        where = {}
        conj = []
        stack = [sel.where]
        while stack:
            e = stack.pop()
            if isinstance(e, _A.BinOp) and e.op == 'AND':
                stack.extend([e.right, e.left])
            elif e is not None:
                conj.append(e)
        for e in conj:
            if isinstance(e, _A.BinOp) and e.op == '=' and isinstance(e.left, _A.Name) and isinstance(e.right, _A.Param):
                where[e.left.parts[-1]] = e.right.index
        ctx.add(core.decided('%s/ancestors-are-looked-up-by-batch-and-group-only' % lab, len(conj) == 2 and sorted(where) == ['batch_id', 'job_group_id'], repr(sorted(where)), kind='scan'))
        # ON DUPLICATE KEY UPDATE n_jobs = n_jobs + VALUES(n_jobs): the staged count is additive over the executions
        od = {t.parts[-1]: e for t, e in stn.on_duplicate}
        e = od.get('n_jobs')
        additive = isinstance(e, _A.BinOp) and e.op == '+' and isinstance(e.left, _A.Name) and e.left.parts[-1] == 'n_jobs' and isinstance(e.right, _A.Func) and e.right.name.upper() == 'VALUES' and len(e.right.args) == 1 and isinstance(e.right.args[0], _A.Name) and e.right.args[0].parts[-1] == 'n_jobs'
        ctx.add(core.decided('%s/staged-n_jobs-is-additive-on-duplicate-key' % lab, bool(additive), repr(e), kind='scan'))
        n_params = len(_sql_params(stn))
        arity = len(rows.et[1])
        ctx.add(core.decided('%s/one-argument-per-placeholder' % lab, n_params == arity, '%d placeholders, %d tuple fields' % (n_params, arity), kind='scan'))
        if n_params != arity or sorted(where) != ['batch_id', 'job_group_id']:
            raise core.Undecided('staging INSERT: placeholders and arguments do not line up')
        pidx = lambda c: by_col[c].index if isinstance(by_col.get(c), _A.Param) else None  # noqa: E731
        need = {c: pidx(c) for c in ('batch_id', 'update_id', 'inst_coll', 'n_jobs')}
        ctx.add(core.decided('%s/batch-update-inst_coll-and-n_jobs-are-bound-to-arguments' % lab, all(v is not None for v in need.values()), repr(need), kind='scan'))
        if any(v is None for v in need.values()):
            raise core.Undecided('staging INSERT: a staged column is not a placeholder')
        d = st.env['inst_coll_resources']
        i = z3.Int(pyvc.fresh_name('row'))
        row = pyvc.from_z3(z3.Select(rows.arr, i), rows.et)
        item = pyvc.from_z3(z3.Select(d.items.arr, i), d.items.et)
        (g, ic), res = item[0], item[1]
        inr = z3.And(0 <= i, i < rows.len)
        eq = lambda x, y: eng.equal(x, y)  # noqa: E731
        eng.oblige(st, 'one-execution-per-group-and-inst_coll-entry', rows.len == d.items.len)
        eng.oblige(st, 'n_jobs-of-an-entry-is-staged-under-the-ancestors-of-that-entrys-group', z3.Implies(inr, z3.And(eq(row[where['job_group_id']], g), eq(row[need['n_jobs']], res.fields['n_jobs']))))
        eng.oblige(st, 'staged-for-this-batch-update-and-inst_coll', z3.Implies(inr, z3.And(eq(row[where['batch_id']], st.env['batch_id']), eq(row[need['batch_id']], st.env['batch_id']), eq(row[need['update_id']], st.env['update_id']), eq(row[need['inst_coll']], ic))))
        st.env['staged_rows'] = rows
        pos.update(pos_group=where['job_group_id'], pos_n_jobs=need['n_jobs'], pos_inst_coll=need['inst_coll'])
        return None

    c = Contract(
        path=FE,
        qualname='_create_jobs.insert_jobs_into_db',
        label='_create_jobs.insert_jobs_into_db[staging]',
        fragment=(r're:^job_groups_inst_coll_staging_args = ', 2),
        extra_inputs={'batch_id': 'int', 'update_id': 'int', 'rand_token': 'int', 'job_group_id': 'int', 'tx': 'U', 'inst_coll_resources': ('dict', ('tuple', ('int', 'U')), res_t)},
        calls={'.execute_many': execute_many},
        setup=lambda eng, st: st.env.__setitem__('staged_rows', pyvc.SList(z3.IntVal(0), None, None)),
        ensures=[('the-staging-statement-is-executed', 'len(staged_rows) == len(inst_coll_resources.items())')],
        canaries=[('nothing-staged', 'len(staged_rows) == 0')],
    )
    eng = pyvc.Engine(ctx, c)
    # replay of a failed obligation: the real comprehension, executed on bunches that span several job groups
    eng.replayer = lambda model, obl: core.run_native(REPLAY_STAGING, dict(pos)) if pos else {'confirmed': False}
    eng.run()
    ctx.add(core.decided('%s/exactly-one-staging-statement-in-the-fragment' % eng.label, len(seen) == 1, '%d' % len(seen), kind='scan'))
    ctx.add(core.decided('%s/no-call-outside-the-contract' % eng.label, not eng.unmodelled, repr(eng.unmodelled), kind='frame'))
    ctx.assume('_create_jobs.insert_jobs_into_db is verified on the two statements that stage the per-group counts (comprehension + execute_many); inst_coll_resources, batch_id, update_id, rand_token and the enclosing job_group_id are arbitrary symbolic inputs; that inst_coll_resources[(g, ic)][n_jobs] counts the jobs of group g is fragment A of contracts/create_jobs_frag.py (C01)')


def native_witness(ctx):
    """fallback when the contracts no longer fit the source (vc.check._witness_instead): replay the real staging comprehension of
    _create_jobs.insert_jobs_into_db on bunches spanning several job groups; placeholder positions are read from the real SQL"""
    from vc import sqlparse as _sp, sqlast as _A

    tree = pyast.parse(core.read_repo(FE))
    for call in pyast.walk(tree):
        if isinstance(call, pyast.Call) and call.args and isinstance(call.args[0], pyast.Constant) and isinstance(call.args[0].value, str) and 'INSERT INTO job_groups_inst_coll_staging' in call.args[0].value:
            stn = _sp.parse_statements(call.args[0].value)[0]
            if not (isinstance(stn, _A.Insert) and isinstance(stn.source, _A.Select) and stn.columns):
                return {'confirmed': False}
            by_col = dict(zip([c.strip('`') for c in stn.columns], [c.expr for c in stn.source.columns]))
            wh = {n.left.parts[-1]: n.right.index for n in stn.source.where.walk() if isinstance(n, _A.BinOp) and n.op == '=' and isinstance(n.left, _A.Name) and isinstance(n.right, _A.Param)} if stn.source.where is not None else {}
            if 'job_group_id' in wh and all(isinstance(by_col.get(c), _A.Param) for c in ('n_jobs', 'inst_coll')):
                return core.run_native(REPLAY_STAGING, {'pos_group': wh['job_group_id'], 'pos_n_jobs': by_col['n_jobs'].index, 'pos_inst_coll': by_col['inst_coll'].index})
    return {'confirmed': False}


def _tally_writers(ex):
    from vc import sqlast as _A

    out = set()
    for rname, r in ex.routines.items():
        for n in r.body.walk():
            if isinstance(n, _A.Update) and 'job_groups_n_jobs_in_complete_states' in SP._tables_of(n.tables):
                out.add(rname)
            elif isinstance(n, (_A.Insert, _A.Delete)) and (n.table if isinstance(n.table, str) else n.table.name) == 'job_groups_n_jobs_in_complete_states':
                out.add(rname)
    return sorted(out)


def _counted_jobs_stay_counted(ctx, ex):
    """Counting clause K outside mark_job_complete: the counts are moved by mark_job_complete only (closed-world scan of the
    effective routines), so every OTHER stored procedure that assigns jobs.state must leave the terminal-ness of every job
    as it was - a job that was counted complete is never reset to a live state, and no job becomes terminal without being
    counted.  Stated on the final database of every path against the initial one, for an arbitrary job (B2, J2)."""
    from contracts.C04 import _state_writers

    tw = _tally_writers(ex)
    ctx.add(core.decided('closed-world/completed-counts-are-written-by-mark_job_complete-only', tw == ['mark_job_complete'], repr(tw), kind='scan'))
    writers = _state_writers(ex)
    ctx.add(core.decided('closed-world/procedures-assigning-jobs.state-include-the-completion-procedure', 'mark_job_complete' in writers and len(writers) >= 2, repr(writers), kind='scan'))
    B2, J2, G = z3.Int('b_any'), z3.Int('j_any'), z3.Int('g_any')
    for name in writers:
        if name in ('mark_job_complete', 'commit_batch_update'):
            continue  # mark_job_complete: clauses K-* above; commit_batch_update: below, on the paths already executed
        rt = ex.routines[name]
        ctx.under_contract(SP.rel(rt.source_file), 'PROCEDURE %s (terminal-ness of jobs)' % name)
        st0 = ex.new_state()
        for t in ('jobs', 'job_groups_n_jobs_in_complete_states'):
            st0.db.tab(t)
        base = st0.db.fork()
        changed = []
        for pi, s in enumerate(ex.run_procedure(name, st0)):
            if not sqlvc.feasible(list(s.pc), 2000):
                continue
            o, n_ = base.tab('jobs').get([B2, J2], 'state'), s.db.tab('jobs').get([B2, J2], 'state')
            t0, t1 = base.tab('job_groups_n_jobs_in_complete_states'), s.db.tab('job_groups_n_jobs_in_complete_states')
            SP.add_valid(ctx, '%s/path%d/K-no-job-changes-terminalness-and-no-count-moves' % (name, pi), s.pc, [],
                         z3.And(SP.terminal(n_) == SP.terminal(o), *[sqlvc.sv_eq_values(t1.get([B2, G], c_), t0.get([B2, G], c_)) for c_ in ('n_completed', 'n_succeeded', 'n_failed', 'n_cancelled')]))
            changed.append(z3.And(*s.pc, z3.Not(sqlvc.sv_eq_values(o, n_))))
        ctx.add(core.satisfiable('%s/vacuity/some-path-changes-a-job-state' % name, z3.Or(*changed) if changed else z3.BoolVal(False)))


def _ids(term):
    out = set()
    stack = [term]
    while stack:
        x = stack.pop()
        if x.get_id() in out:
            continue
        out.add(x.get_id())
        stack.extend(x.children())
    return out


def _decls(term):
    out = set()
    stack = [term]
    seen = set()
    while stack:
        x = stack.pop()
        if x.get_id() in seen:
            continue
        seen.add(x.get_id())
        if z3.is_app(x):
            out.add(x.decl().name())
        stack.extend(x.children())
    return out


def _is_column(term, tab, col):
    """term is Select(tab.val[col], key...)"""
    t = z3.simplify(term)
    if z3.is_select(t) and t.arg(0).eq(tab.val[col]):
        return z3.BoolVal(True)
    return z3.BoolVal(False)


def _key_of(term):
    t = z3.simplify(term)
    if z3.is_select(t):
        return [t.arg(i) for i in range(1, t.num_args())]
    return None


def _python(ctx):
    src = core.read_repo('batch/batch/batch.py')
    tree = pyast.parse(src)
    for fname, counters in (('batch_record_to_dict', ['n_jobs', 'n_completed', 'n_succeeded', 'n_failed', 'n_cancelled']), ('job_group_record_to_dict', ['n_jobs', 'n_completed', 'n_succeeded', 'n_failed', 'n_cancelled'])):
        fns = [n for n in pyast.walk(tree) if isinstance(n, pyast.FunctionDef) and n.name == fname]
        if not fns:
            raise core.Undecided('anchor-moved: %s' % fname)
        ctx.under_contract('batch/batch/batch.py', fname)
        dicts = [n for n in pyast.walk(fns[0]) if isinstance(n, pyast.Dict) and any(isinstance(k, pyast.Constant) and k.value == 'complete' for k in n.keys)]
        ok = len(dicts) == 1
        detail = {}
        if ok:
            d = {k.value: pyast.unparse(v) for k, v in zip(dicts[0].keys, dicts[0].values) if isinstance(k, pyast.Constant)}
            detail = {k: d.get(k) for k in ['complete'] + counters}
            ok = d.get('complete') == "record['state'] == 'complete'" and all(d.get(c) == "record['%s']" % c for c in counters)
        ctx.add(core.decided('%s/complete-flag-and-counters-are-pass-through' % fname, ok, repr(detail), kind='scan'))
