"""C06 - batch and job-group completion reflect their jobs.

Invariant K2 per job group g of a batch (root included):   state(g) = 'complete'  <=>  n_completed(g) = n_jobs(g),
and for the batch row: state = 'complete' <=> n_completed(root) = batches.n_jobs, with batches.n_jobs = n_jobs(root).
(The counting invariant K - n_completed(g) = number of committed terminal jobs in subtree(g) - is maintained by the tally
statement verified under C04; the only consequence used here is  n_completed(a) < n_jobs(a)  for every ancestor group a of a
committed job that is not yet terminal, and n_completed <= n_jobs everywhere.)
Obligations on the real effective SQL (sqlvc), for all databases satisfying the invariants and all arguments:
 * mark_job_complete: on the completing paths K2 holds afterwards for EVERY group of the batch (the cursor loop of
   mark_job_group_complete is executed as a pointwise transformer over the ancestors) and for the batch row; on the other
   paths no group / batch state or tally changes.
 * commit_batch_update: n_jobs(g) grows by the staged job count of g - the aggregate is shown (pointwise, L2) to sum ALL staging
   rows of (batch, update, g) - the group is set 'running' iff that count is > 0 ("adding an update with jobs reopens it"),
   batches.n_jobs grows by the update's n_jobs; K2 holds afterwards; a wrong staged count rolls everything back.
 * Python: batch_record_to_dict / job_group_record_to_dict report complete == (state == 'complete') and pass the counters
   through unchanged (AST obligations on the real functions).
"""
from __future__ import annotations

import ast as pyast

import z3

from contracts import sqlspec as SP
from vc import core, sqlvc
from vc.sqlvc import intern

COMPLETE, RUNNING = 'complete', 'running'


def k2(db, b, g):
    jg, tal = db.tab('job_groups'), db.tab('job_groups_n_jobs_in_complete_states')
    st = jg.get([b, g], 'state')
    return SP.is_state(st, COMPLETE) == (tal.get([b, g], 'n_completed').v == jg.get([b, g], 'n_jobs').v)


def k2_batch(db, b):
    bt, tal = db.tab('batches'), db.tab('job_groups_n_jobs_in_complete_states')
    return SP.is_state(bt.get([b], 'state'), COMPLETE) == (tal.get([b, z3.IntVal(0)], 'n_completed').v == bt.get([b], 'n_jobs').v)


def _new_groups_are_complete_and_empty(ctx):
    """K2 at creation: a job group is born with no jobs, hence complete (`state = 'complete'`, `n_jobs = 0`); only a commit that
    stages jobs reopens it.  Decided on the real INSERT of _create_job_group (front_end.py): the values bound to the columns
    `state` and `n_jobs` are the literals 'complete' and 0 on every path."""
    from vc import sqlparse as _sp, sqlast as _A

    path = 'batch/batch/front_end/front_end.py'
    tree = pyast.parse(core.read_repo(path))
    fns = [n for n in pyast.walk(tree) if isinstance(n, (pyast.FunctionDef, pyast.AsyncFunctionDef)) and n.name == '_create_job_group']
    if not fns:
        raise core.Undecided('anchor-moved: _create_job_group')
    ctx.under_contract(path, '_create_job_group (initial state of a job group)')
    found = []
    for call in pyast.walk(fns[0]):
        if isinstance(call, pyast.Call) and call.args and isinstance(call.args[0], pyast.Constant) and isinstance(call.args[0].value, str) and 'INSERT INTO job_groups ' in call.args[0].value:
            stn = _sp.parse_statements(call.args[0].value)[0]
            vals = call.args[1] if len(call.args) > 1 else None
            ok = isinstance(stn, _A.Insert) and stn.table == 'job_groups' and isinstance(vals, pyast.Tuple) and len(vals.elts) == len(stn.columns)
            if ok:
                cols = [c.strip('`') for c in stn.columns]
                sv, nv = vals.elts[cols.index('state')], vals.elts[cols.index('n_jobs')]
                ok = isinstance(sv, pyast.Constant) and sv.value == 'complete' and isinstance(nv, pyast.Constant) and nv.value == 0 and not isinstance(nv.value, bool)
            found.append(ok)
    ctx.add(core.decided('C06/_create_job_group/a-new-job-group-is-complete-with-no-jobs', bool(found) and all(found), repr(found), kind='scan'))


def build(ctx):
    _new_groups_are_complete_and_empty(ctx)
    ex = SP.proc_exec(inline_after=False)
    G = z3.Int('g_any')
    # ---------------- mark_job_complete
    name = 'mark_job_complete'
    rt = ex.routines[name]
    ctx.under_contract(SP.rel(rt.source_file), 'PROCEDURE ' + name)
    ctx.under_contract(SP.rel(ex.routines['mark_job_group_complete'].source_file), 'PROCEDURE mark_job_group_complete')
    st0 = ex.new_state()
    for t in ('jobs', 'job_groups', 'batches', 'job_group_self_and_ancestors', 'job_groups_n_jobs_in_complete_states'):
        st0.db.tab(t)
    base = st0.db.fork()
    outs = ex.run_procedure(name, st0)
    completing = []
    for pi, s in enumerate(outs):
        bb, jj = s.vars['in_batch_id'], s.vars['in_job_id']
        b = bb.v
        jobs0, jg0, tal0, jgsa0, bt0 = base.tab('jobs'), base.tab('job_groups'), base.tab('job_groups_n_jobs_in_complete_states'), base.tab('job_group_self_and_ancestors'), base.tab('batches')
        grp = jobs0.get([b, jj.v], 'job_group_id')
        anc = lambda g: jgsa0.has([b, grp.v, g])
        a_ = z3.Int('a_q')
        pre = [
            z3.Not(bb.n), z3.Not(jj.n), SP.terminal(s.vars['new_state']),
            z3.ForAll([a_], k2(base, b, a_)), k2_batch(base, b),
            # counting invariant K, consequence for a committed non-terminal job: its ancestors are not yet complete
            z3.ForAll([a_], z3.Implies(z3.And(anc(a_), z3.Not(SP.terminal(jobs0.get([b, jj.v], 'state')))), tal0.get([b, a_], 'n_completed').v < jg0.get([b, a_], 'n_jobs').v)),
            # structure: every ancestor has a job_groups row and a tally row; the root is an ancestor of every group (A1)
            z3.ForAll([a_], z3.Implies(anc(a_), z3.And(jg0.has([b, a_]), tal0.has([b, a_])))), anc(z3.IntVal(0)),
            bt0.get([b], 'n_jobs').v == jg0.get([b, z3.IntVal(0)], 'n_jobs').v, z3.Not(bt0.get([b], 'n_jobs').n), bt0.has([b]),
        ]
        hyps = list(s.pc) + pre
        if not sqlvc.feasible(list(s.pc) + pre[:3], 2000):
            continue
        wrote_tally = any(e.table == 'job_groups_n_jobs_in_complete_states' and e.kind in ('update', 'update-set') for e in s.effects)
        if wrote_tally:
            completing.append(z3.And(*(list(s.pc) + pre[:3])))
            SP.add_valid(ctx, '%s/path%d/K2-holds-for-every-group-afterwards' % (name, pi), s.pc, pre + [jg0.has([b, G])], k2(s.db, b, G))
            SP.add_valid(ctx, '%s/path%d/K2-holds-for-the-batch-row-afterwards' % (name, pi), s.pc, pre, k2_batch(s.db, b))
            SP.add_valid(ctx, '%s/path%d/n_jobs-untouched' % (name, pi), s.pc, pre, z3.And(s.db.tab('job_groups').get([b, G], 'n_jobs').v == jg0.get([b, G], 'n_jobs').v, s.db.tab('batches').get([b], 'n_jobs').v == bt0.get([b], 'n_jobs').v))
            b2 = z3.Int('b_other')
            SP.add_valid(ctx, '%s/path%d/other-batches-untouched' % (name, pi), s.pc, pre + [b2 != b], z3.And(sqlvc.sv_eq_values(s.db.tab('job_groups').get([b2, G], 'state'), jg0.get([b2, G], 'state')), s.db.tab('job_groups_n_jobs_in_complete_states').get([b2, G], 'n_completed').v == tal0.get([b2, G], 'n_completed').v))
        else:
            SP.add_valid(ctx, '%s/path%d/no-completion-no-change-of-states-or-tallies' % (name, pi), s.pc, pre, z3.And(sqlvc.sv_eq_values(s.db.tab('job_groups').get([b, G], 'state'), jg0.get([b, G], 'state')), sqlvc.sv_eq_values(s.db.tab('batches').get([b], 'state'), bt0.get([b], 'state')), s.db.tab('job_groups_n_jobs_in_complete_states').get([b, G], 'n_completed').v == tal0.get([b, G], 'n_completed').v))
    ctx.add(core.satisfiable('%s/vacuity/some-completing-path' % name, z3.Or(*completing) if completing else z3.BoolVal(False)))

    # ---------------- commit_batch_update
    name = 'commit_batch_update'
    rt = ex.routines[name]
    ctx.under_contract(SP.rel(rt.source_file), 'PROCEDURE ' + name)
    st0 = ex.new_state()
    for t in ('jobs', 'job_groups', 'batches', 'batch_updates', 'job_groups_inst_coll_staging', 'job_groups_n_jobs_in_complete_states'):
        st0.db.tab(t)
    base = st0.db.fork()
    outs = ex.run_procedure(name, st0)
    reopened = []
    for pi, s in enumerate(outs):
        bb, uu = s.vars['in_batch_id'], s.vars['in_update_id']
        b = bb.v
        jg0, tal0, bt0, stg0 = base.tab('job_groups'), base.tab('job_groups_n_jobs_in_complete_states'), base.tab('batches'), base.tab('job_groups_inst_coll_staging')
        a_ = z3.Int('a_q')
        pre = [
            z3.Not(bb.n), z3.Not(uu.n), z3.ForAll([a_], k2(base, b, a_)), k2_batch(base, b),
            z3.ForAll([a_], tal0.get([b, a_], 'n_completed').v <= jg0.get([b, a_], 'n_jobs').v),
            bt0.get([b], 'n_jobs').v == jg0.get([b, z3.IntVal(0)], 'n_jobs').v, z3.Not(bt0.get([b], 'n_jobs').n), bt0.has([b]),
            tal0.get([b, z3.IntVal(0)], 'n_completed').v <= bt0.get([b], 'n_jobs').v,
        ]
        hyps = list(s.pc) + pre
        if not sqlvc.feasible(list(s.pc) + pre[:2], 2000):
            continue
        rc = s.results[-1][0][1] if s.results else None
        jg_updates = [e for e in s.effects if e.table == 'job_groups' and e.kind == 'update-set' and not e.data.get('rolled_back')]
        live_writes = [e for e in s.effects if e.kind in ('insert', 'upsert', 'update', 'update-set', 'insert-select', 'delete', 'delete-set', 'loop-set') and not e.data.get('rolled_back')]
        if rc is not None and s.results[-1][0][0] == 'rc' and z3.is_int_value(z3.simplify(rc.v)) and z3.simplify(rc.v).as_long() == 1:
            ctx.add(core.decided('%s/path%d/wrong-job-count-rolls-everything-back' % (name, pi), not live_writes, repr([(e.kind, e.table) for e in live_writes]), kind='frame'))
            continue
        if not jg_updates:
            # already committed, or an empty update: group states and n_jobs unchanged
            SP.add_valid(ctx, '%s/path%d/no-jobs-no-change-of-group-state-or-n_jobs' % (name, pi), s.pc, pre, z3.And(sqlvc.sv_eq_values(s.db.tab('job_groups').get([b, G], 'state'), jg0.get([b, G], 'state')), s.db.tab('job_groups').get([b, G], 'n_jobs').v == jg0.get([b, G], 'n_jobs').v, s.db.tab('batches').get([b], 'n_jobs').v == bt0.get([b], 'n_jobs').v))
            continue
        e = jg_updates[0]
        ctx.add(core.decided('%s/path%d/exactly-one-job_groups-statement' % (name, pi), len(jg_updates) == 1, '', kind='scan'))
        h = list(s.pc[: e.data['pc_len']]) + pre
        kv, aff, o, n_ = e.data['kvars'], e.data['affected'], e.data['old_row'], e.data['new_row']
        recs = [r for r in s.aggregates if r.get('func') == 'SUM' and 'n_jobs' in r.get('expr', '') and r['line'] >= e.line - 2]
        recs = [r for r in recs if r['symbol'].decl().name() in _decls(n_['n_jobs'].v)]
        ctx.add(core.decided('%s/path%d/staged-count-is-one-SUM-aggregate' % (name, pi), len(recs) == 1, '%d aggregate records feed n_jobs' % len(recs), kind='scan'))
        if len(recs) == 1:
            r = recs[0]
            staged = z3.substitute(r['symbol'], (r['gvars'][0], kv[0]), (r['gvars'][1], kv[1]))
            ctx.add(core.decided('%s/path%d/derived-table-grouped-by-batch-and-group-only' % (name, pi), len(r['gvars']) == 2, '%d group columns' % len(r['gvars']), kind='scan'))
            # the aggregate sums n_jobs over ALL staging rows of (batch, update, this group): pointwise predicate equality
            rk = r['kvars']
            stg_pk = stg0.pk
            want = []
            # the aggregated rows are rows of job_groups_inst_coll_staging: identify their key terms from the summand
            SP.add_valid(ctx, '%s/path%d/aggregate-sums-the-n_jobs-column' % (name, pi), s.pc[: e.data['pc_len']], pre[:2] + [r['cond']], z3.And(z3.Not(r['arg'].n), _is_column(r['arg'].v, stg0, 'n_jobs')))
            key_terms = _key_of(r['arg'].v)
            if key_terms is None or len(key_terms) != len(stg_pk):
                raise core.Undecided('commit_batch_update: cannot identify the staging row summed by the aggregate')
            kd = dict(zip(stg_pk, key_terms))
            gv = r['gvars']
            spec_pred = z3.And(stg0.has(key_terms), kd['batch_id'] == b, kd['update_id'] == uu.v, kd['job_group_id'] == gv[1], gv[0] == b)
            SP.add_valid(ctx, '%s/path%d/aggregate-covers-exactly-all-staging-rows-of-the-group' % (name, pi), s.pc[: e.data['pc_len']], pre[:2] + [aff], z3.ForAll(rk, z3.Implies(gv[0] == b, r['cond'] == spec_pred)) if rk else (r['cond'] == spec_pred))
            SP.add_valid(ctx, '%s/path%d/n_jobs-grows-by-the-staged-count' % (name, pi), s.pc[: e.data['pc_len']], pre[:2] + [aff], n_['n_jobs'].v == o['n_jobs'].v + staged)
            SP.add_valid(ctx, '%s/path%d/group-reopens-iff-jobs-were-staged' % (name, pi), s.pc[: e.data['pc_len']], pre[:2] + [aff], z3.And(z3.Implies(staged > 0, SP.is_state(n_['state'], RUNNING)), z3.Implies(staged <= 0, sqlvc.sv_eq_values(n_['state'], o['state']))))
            SP.add_valid(ctx, '%s/path%d/groups-touched-are-groups-of-this-batch' % (name, pi), s.pc[: e.data['pc_len']], pre[:2] + [aff], kv[0] == b)
            SP.add_valid(ctx, '%s/path%d/K2-holds-for-every-group-afterwards' % (name, pi), s.pc, pre + [z3.ForAll([z3.Int('fx'), z3.Int('fy')], r['symbol'].decl()(z3.Int('fx'), z3.Int('fy')) >= 0)], z3.Implies(jg0.has([b, G]), k2(s.db, b, G)))
            reopened.append(z3.And(*h, aff, staged > 0))
        exp = s.vars['expected_n_jobs']
        SP.add_valid(ctx, '%s/path%d/batch-n_jobs-grows-by-the-update-and-batch-reopens' % (name, pi), s.pc, pre, z3.And(s.db.tab('batches').get([b], 'n_jobs').v == bt0.get([b], 'n_jobs').v + exp.v, SP.is_state(s.db.tab('batches').get([b], 'state'), RUNNING)))
        SP.add_valid(ctx, '%s/path%d/K2-holds-for-the-batch-row-afterwards' % (name, pi), s.pc, pre + [exp.v > 0], k2_batch(s.db, b))
    ctx.add(core.satisfiable('%s/vacuity/some-group-reopens' % name, z3.Or(*reopened) if reopened else z3.BoolVal(False)))
    SP.lock_discipline(ctx, ex, ['commit_batch_update', 'mark_job_complete', 'mark_job_group_complete'])
    _python(ctx)
    from contracts import sqlspec as _SP
    _SP.engine_obligations(ctx, ex)
    ctx.assume('each procedure call is atomic (serialisable isolation); MySQL NULL/boolean semantics as encoded in vc/sqlvc.py')
    ctx.assume('counting invariant K (n_completed = number of committed terminal jobs in the subtree, n_jobs = number of committed jobs) is used through its consequences n_completed <= n_jobs and, for the ancestors of a committed non-terminal job, n_completed < n_jobs; its maintenance is C04 (tally statement) + C41 (committed jobs only)')
    ctx.assume('meta-lemma L2: two sums are equal when their row predicates are pointwise equivalent and their summands agree')
    ctx.assume('cursor loop of mark_job_group_complete: iterations are independent (checked: the body writes only the row keyed by its cursor row and reads no column it writes), so the loop is a pointwise transformer')
    ctx.undecided('time_completed bookkeeping; UI pages; that batches.n_jobs = n_jobs(root) is established by _create_batch (Python INSERTs)')


def _ids(term):
    out = set()
    stack = [term]
    while stack:
        x = stack.pop()
        if x.get_id() in out:
            continue
        out.add(x.get_id())
        stack.extend(x.children())
    return out


def _decls(term):
    out = set()
    stack = [term]
    seen = set()
    while stack:
        x = stack.pop()
        if x.get_id() in seen:
            continue
        seen.add(x.get_id())
        if z3.is_app(x):
            out.add(x.decl().name())
        stack.extend(x.children())
    return out


def _is_column(term, tab, col):
    """term is Select(tab.val[col], key...)"""
    t = z3.simplify(term)
    if z3.is_select(t) and t.arg(0).eq(tab.val[col]):
        return z3.BoolVal(True)
    return z3.BoolVal(False)


def _key_of(term):
    t = z3.simplify(term)
    if z3.is_select(t):
        return [t.arg(i) for i in range(1, t.num_args())]
    return None


def _python(ctx):
    src = core.read_repo('batch/batch/batch.py')
    tree = pyast.parse(src)
    for fname, counters in (('batch_record_to_dict', ['n_jobs', 'n_completed', 'n_succeeded', 'n_failed', 'n_cancelled']), ('job_group_record_to_dict', ['n_jobs', 'n_completed', 'n_succeeded', 'n_failed', 'n_cancelled'])):
        fns = [n for n in pyast.walk(tree) if isinstance(n, pyast.FunctionDef) and n.name == fname]
        if not fns:
            raise core.Undecided('anchor-moved: %s' % fname)
        ctx.under_contract('batch/batch/batch.py', fname)
        dicts = [n for n in pyast.walk(fns[0]) if isinstance(n, pyast.Dict) and any(isinstance(k, pyast.Constant) and k.value == 'complete' for k in n.keys)]
        ok = len(dicts) == 1
        detail = {}
        if ok:
            d = {k.value: pyast.unparse(v) for k, v in zip(dicts[0].keys, dicts[0].values) if isinstance(k, pyast.Constant)}
            detail = {k: d.get(k) for k in ['complete'] + counters}
            ok = d.get('complete') == "record['state'] == 'complete'" and all(d.get(c) == "record['%s']" % c for c in counters)
        ctx.add(core.decided('%s/complete-flag-and-counters-are-pass-through' % fname, ok, repr(detail), kind='scan'))
